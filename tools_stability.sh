#!/bin/sh
# run every claimed check under several seeds; report non-zero exits and obligations slower than 10 s
cd "$(dirname "$0")"
for p in $(python3 -c "import json; print(' '.join(c['property_id'] for c in json.load(open('MANIFEST.json'))['checks']))"); do
  for seed in ${SEEDS:-1 2}; do
    out=$(VERIF_SEED=$seed PYVC_NO_EVIDENCE=1 ./check $p -v 2>&1); code=$?
    echo "$out" | awk -v p=$p -v s=$seed -v c=$code '/^  / && $3+0 > 10.0 {print "SLOW " p " seed=" s " " $0} /^C[0-9]/ {print "seed=" s " exit=" c " " substr($0,1,150)} /UNDECIDED|VIOLATION|VACUOUS|CRASH/ {print substr($0,1,200)}'
  done
done
