#!/bin/sh
# usage: tools_confirm_seed.sh <seeded-dir> [ENV=VAL ...]
# confirms a seeded change in a fresh scratch worktree of /repo (never in /repo itself):
# demo passes without the patch, fails with it; removes the worktree afterwards.
D="$(realpath "$1")"; shift
W="$(mktemp -d /tmp/confirm.XXXXXX)"; rmdir "$W"
git -C /repo worktree add -q --detach "$W" HEAD || exit 4
trap 'git -C /repo worktree remove --force "$W" >/dev/null 2>&1' EXIT
run() { ( cd "$W" && env "$@" SEED_ROOT="$W" PYTHONPATH="$W/src" /venv/bin/python "$D/demo.py" >/dev/null 2>&1 ); echo $?; }
A=$(run "$@")
( cd "$W" && git apply "$D/patch.diff" ) || { echo "PATCH-DOES-NOT-APPLY"; exit 4; }
B=$(run "$@")
echo "demo_without_change_exit=$A demo_with_change_exit=$B"
[ "$A" = 0 ] && [ "$B" != 0 ]
