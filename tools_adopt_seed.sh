#!/bin/sh
# usage: tools_adopt_seed.sh <ID> <name> [ENV=VAL ...]  -- copies /tmp/seed_<ID>/{patch.diff,demo_<ID>.py} to seeded/<ID>-<name>,
# confirms natively in a fresh worktree and runs the check against a scratch copy with the patch applied.
ID="$1"; NAME="$2"; shift 2
D=/verif/seeded/$ID-$NAME
mkdir -p "$D"
cp /tmp/seed_$ID/patch.diff "$D/patch.diff" && cp /tmp/seed_$ID/demo_$ID.py "$D/demo.py" || exit 4
/verif/tools_confirm_seed.sh "$D" "$@" || echo "NOT-CONFIRMED"
/verif/tools_mutant.sh "$ID" "$D/patch.diff" 2>&1 | tail -8
