#!/usr/bin/env python3
"""Regenerates MANIFEST.json from the table below (kept in one place so the manifest is always valid)."""
import json, os
HERE = os.path.dirname(os.path.abspath(__file__))
BASE = json.load(open("/root/.vp/BASELINE.json"))["cmd"].replace("<file>", "/tmp/_baseline_off.junit.xml")

CLAIMED = {
 "C09": dict(
    category="proof",
    text="Every obligation generated from the current source of the pure-Python validator (validate/reset), the NVX C "
         "table and unrolled validators, their dispatcher and the cffi wrapper is discharged by z3 against one RFC 3629 "
         "step-function spec (written as byte ranges, independent of the DFA table), for all inputs and all loop "
         "iterations (loop invariants); chunk independence is a lemma over the proved contracts plus three induction "
         "lemmas about the spec function.",
    note="Trusted: z3/cvc5, the pyvc VC generator and its Python/C semantics encoding (ints mathematical; C integer "
         "assignments carry no-overflow obligations), pycparser + gcc -E, cffi passing len(ba) octets. SSE variants are "
         "not dispatched (structural fact checked by the dispatcher unit). Termination not verified.",
    technique="contract-based deductive verification: AST->VC (pyvc), loop invariants, z3"),
}

PENDING_REASON = "contracts for this property are not yet discharged in this snapshot of /verif (build in progress, see DESIGN.md section 8); nothing is claimed"

def main():
    props = [json.loads(l) for l in open(os.path.join(HERE, "properties.jsonl"))]
    checks, na = [], []
    for p in props:
        pid = p["id"]
        if pid in CLAIMED:
            c = CLAIMED[pid]
            checks.append({
                "property_id": pid,
                "quick_cmd": "./check %s --tier quick" % pid,
                "thorough_cmd": "./check %s --tier thorough" % pid,
                "evidence_file": "evidence/%s.json" % pid,
                "replay_cmd_template": "./check %s --replay {path}" % pid,
                "engine": "pyvc",
                "level_claimed": {"category": c["category"], "text": c["text"], "design_ref": "DESIGN.md section 5 (%s)" % pid},
                "level_note": c["note"],
                "technique": c["technique"],
            })
        else:
            na.append({"property_id": pid, "reason": NOT_APPLICABLE.get(pid, PENDING_REASON)})
    m = {
        "version": 1,
        "setup_cmd": "./setup.sh",
        "hooks": {"guard": "AUTOBAHN_PYTHON_VERIF",
                  "enable": "not needed: contracts are sidecar files under /verif/contracts; no file in /repo is instrumented",
                  "baseline_off_cmd": BASE, "source_commits": [], "add_only": True},
        "engines": [{"name": "pyvc", "path": "pyvc/", "serves_properties": sorted(CLAIMED),
                     "kind_free_text": "verification-condition generator over the real Python (ast) and C (gcc -E + pycparser) source, sidecar contracts, z3 with cvc5 fallback"}],
        "checks": checks,
        "notes": "fix: commits in /repo are listed in known_findings.json (status fixed). Exit codes: 0 held, 1 violation, 2 undecided, 3 engine/hygiene failure.",
        "not_applicable": na,
    }
    json.dump(m, open(os.path.join(HERE, "MANIFEST.json"), "w"), indent=1)
    print("MANIFEST.json: %d checks, %d not claimed" % (len(checks), len(na)))

NOT_APPLICABLE = {}
if __name__ == "__main__":
    main()
