#!/usr/bin/env python3
"""Regenerates MANIFEST.json from the table below (kept in one place so the manifest is always valid)."""
import json, os
HERE = os.path.dirname(os.path.abspath(__file__))
BASE = json.load(open("/root/.vp/BASELINE.json"))["cmd"].replace("<file>", "/tmp/_baseline_off.junit.xml")

CLAIMED = {
 "C09": dict(
    category="proof",
    text="Every obligation generated from the current source of the pure-Python validator (validate/reset), the NVX C "
         "table and unrolled validators, their dispatcher and the cffi wrapper is discharged by z3 against one RFC 3629 "
         "step-function spec (written as byte ranges, independent of the DFA table), for all inputs and all loop "
         "iterations (loop invariants); chunk independence is a lemma over the proved contracts plus three induction "
         "lemmas about the spec function.",
    note="Trusted: z3/cvc5, the pyvc VC generator and its Python/C semantics encoding (ints mathematical; C integer "
         "assignments carry no-overflow obligations), pycparser + gcc -E, cffi passing len(ba) octets. SSE variants are "
         "not dispatched (structural fact checked by the dispatcher unit). Termination not verified.",
    technique="contract-based deductive verification: AST->VC (pyvc), loop invariants, z3"),
}

WS_NOTE = ("Trusted: z3/cvc5, the pyvc VC generator and its encoding of Python semantics, shapes (field type declarations "
           "validated against the initialising code), assumed contracts of primitives: transport.write/close, txaio "
           "call_later/resolve (write-once futures, fresh timer handles), user callbacks do not re-enter the protocol "
           "object synchronously, Utf8Validator contract (proved in C09), masker interface contract (proved in C15), "
           "sendFrame's frame-event contract (ghost state). Scheduler and real time are out of reach: 'on time' is "
           "'armed delay == configured value' plus the scheduler assumption. Termination not verified.")
CLAIMED.update({
 "C15": dict(category="proof",
    text="Every masker implementation (pure-Python simple and table-shifted, NVX C scalar and SSE2 SIMD incl. every buffer "
         "alignment and length, the cffi wrapper, both dispatchers/factories) is proved against one pointwise spec: "
         "result[k] == data[k] XOR key[(ptr0+k) mod 4], pointer advanced by len; chunk-independence and involution are "
         "lemmas over the proved contracts; C integer assignments carry no-overflow, alignment and bounds obligations.",
    note="Trusted: z3, pyvc, gcc -E + pycparser translation (stated drops), cffi buffer semantics (assumed contracts), "
         "octet XOR as the defined function bxor8 with its algebraic lemmas checked exhaustively over 2^16 pairs. The "
         "mask-bit policy of sendFrame is not yet part of this check.",
    technique="contract-based deductive verification: AST->VC (Python and C), quantified loop invariants, z3"),
 "C02": dict(category="proof",
    text="The receive path is under contract function by function: the header decision of processData is proved equal to "
         "an RFC 6455 section 5.2/5.5 (and RFC 7692 section 6: exactly RSV1, only on the first frame of a data message, only "
         "with a compression extension negotiated) spec function for all 2^16 header octet pairs, all receiver "
         "configurations with and without an extension, and all extended lengths (fail iff violation, 1002 / drop); close-code and close-reason verdicts (1002/1007), UTF-8 "
         "failure at the first invalid chunk and at an incomplete final code point, ping->pong with equal payload, no "
         "delivery (messages, pings, pongs) after this side has failed the connection are postconditions of onCloseFrame/onFrameData/onFrameEnd/processControlFrame/onMessage*.",
    note=WS_NOTE + " Read-split independence of the payload arm of processData is a C01 unit; decompression inside the frame "
         "hooks is not covered here.",
    technique="contract-based deductive verification: AST->VC, spec functions from RFC 6455, z3; violating frames replayed "
              "under three read segmentations on a real client / server pair"),
 "C05": dict(category="proof",
    text="Object invariant (at most one close frame, no data frame after it, CLOSED <=> is_closed completed, onClose at most "
         "once and only in CLOSED) and the forward-only rank are proved for every unit that writes the fields involved "
         "(sendClose, sendCloseFrame, onCloseFrame, dropConnection, _fail_connection, _protocol_violation, the four timeout "
         "handlers, _connectionLost x3, sendMessage, sendPing, sendPong); close payload format/limits, clean-close reporting "
         "and the pending-drop-timer clause are postconditions.  The streaming send API (beginMessage, beginMessageFrame, "
         "sendMessageFrameData, endMessage) is under contract too: once the connection is not OPEN every call is ignored -- "
         "no octet is submitted to the transport and the send automaton does not move -- wherever in a message or frame the "
         "application is.",
    note=WS_NOTE + " Histories: the step-to-history induction is the standard argument over the per-unit obligations; the "
         "closed-world writer scan is not included; sendMessageFrame (a composition of two units under contract) and "
         "streaming with compression are not units of their own.",
    technique="contract-based deductive verification: two-state object invariant per writer, z3; streaming counterexamples "
              "replayed on a real client / server pair"),
 "C16": dict(category="other",
    text="Proof of all obligations except one listed known finding: onMessageFrameBegin/onFrameBegin/processData[header] "
         "fail with 1009 iff a configured limit is exceeded by the *declared* length, before any payload octet is "
         "buffered; nothing is buffered or delivered after failing; sendMessage refuses over-limit payloads (the size on the "
         "wire: after compression where an extension is negotiated) with nothing written and the compression context left "
         "in step with the peer (loop invariant over every fragmentation). Known finding (open): deflate decompression cap "
         "truncates.",
    note=WS_NOTE + " zlib is an assumed abstract stream (decompress(data, n) returns at most n octets, rest in unconsumed_tail).",
    technique="contract-based deductive verification: AST->VC, loop invariants, z3; known finding replayed on real zlib"),
 "C17": dict(category="proof",
    text="Timer discipline as contracts: every timeout handler drops with the corresponding unclean reason when its "
         "condition still holds and has no effect at all in CLOSED; close/server-drop timers are armed with exactly the "
         "configured delay at the points the property names; pong / traffic cancels the ping timeout and re-arms the next "
         "ping; _connectionLost cancels what could still act; _connectionMade (both roles) starts a connection CONNECTING "
         "with no close bookkeeping, no pending ping and exactly the open-handshake timer armed with the configured delay "
         "(none when that timeout is switched off).",
    note=WS_NOTE + " Arming of the first auto-ping: on the client it is a postcondition of the C07 client-handshake unit "
         "(scheduled with the configured interval exactly when configured); on the server (succeedHandshake) it is not under "
         "contract.",
    technique="contract-based deductive verification: ghost timer handles, z3"),
})

CLAIMED.update({
 "C14": dict(category="proof",
    text="The retry budget is proved function by function: _Transport.can_reconnect/next_delay/reset/failed against "
         "budget spec clauses (first attempt undelayed, never more than max_retry_delay for any jitter draw, RuntimeError "
         "iff exhausted); Component._can_reconnect and the transport_check closure over an unbounded family of transport "
         "records (loop invariants): next transport in cyclic order that may reconnect, start() result rejected iff none "
         "can; _connect_once advances the attempt counter exactly once, on_join restarts the budget."
         "  One connection attempt on Twisted (Component._connect_transport and its failure closure): the protocol "
         "factory handed to the endpoint is built in this attempt from this attempt's session factory (whose closure owns "
         "this attempt's completion future), never one kept from an earlier attempt; a refused connection counts one "
         "failure and completes exactly this attempt's future.",
    note="Trusted: z3, pyvc, txaio as_future/add_callbacks/sleep (the asynchronous composition of the reconnect loop is "
         "assumed, not proved), itertools.cycle as k mod n, random.normalvariate arbitrary, floats as reals. Not covered: "
         "exactly-once completion of the start() future across callbacks (history property over txaio: decided only by the "
         "history replay on the real Twisted Component, bounded), the asyncio _connect_transport (endpoint dictionaries), "
         "listener bubbling (ObservableMixin.fire), stop() racing with a scheduled transport_check.",
    technique="contract-based deductive verification: AST->VC, symbolic record heap, loop invariants, z3; connection "
              "histories replayed on the real Twisted Component"),
 "C19": dict(category="proof",
    text="compute_totp/check_totp are proved equal to an RFC 4226/6238 spec (dynamic truncation arithmetic, step counter, "
         "window -1..+1) over uninterpreted HMAC-SHA1/base32; compute_wcs, derive_key, pbkdf2, WAMP-CRA on_challenge "
         "(salted and unsalted) equal their RFC compositions (argument order, encodings, key stretching only with a salt); "
         "AuthScram.on_challenge with the PBKDF2 KDF returns exactly the RFC 5802 client proof base64(ClientKey XOR "
         "HMAC(H(ClientKey), AuthMessage)) with AuthMessage = n=<saslprep(authid)>,r=<client nonce>,r=<server nonce>,"
         "s=<salt>,i=<iterations>,c=<channel binding>,r=<server nonce> and SaltedPassword = PBKDF2(password, base64-decoded "
         "salt, i, 32), and keeps both for the server-signature check; "
         "AuthScram.on_welcome returns None iff the alleged server signature equals HMAC(HMAC(SaltedPassword,'Server Key'), "
         "AuthMessage); util.xor is byte-wise XOR with a length check (loop invariant).",
    note="The primitives (HMAC, SHA, PBKDF2, Argon2, Ed25519, base32/64) are uninterpreted: their bindings are exercised by "
         "the pinned RFC test vectors, their cryptographic strength is an assumption. A *bounded* reference harness also runs "
         "on every check -- the real functions against verifiers written from RFC 5802 / 6238 / 2898 with the standard "
         "library (685 cases, never counted as proved); it is what replays counterexamples. Not covered: the Argon2id "
         "variant of SCRAM (same code path up to the KDF call), the cryptosign signing chain.",
    technique="contract-based deductive verification over uninterpreted cryptographic primitives, z3; bounded reference "
              "harness (stdlib verifiers) for SCRAM"),
})

CLAIMED.update({
 "C18": dict(category="other",
    text="Proof of all obligations except one listed known finding. _message_from_exception is proved per kind of exception "
         "(ApplicationError, user exception with / without kwargs): the ERROR carries the request type and id, the error URI "
         "(exc.error / first registered pattern of exactly the exception's class / wamp.error.runtime_error), the same "
         "positional arguments and the same keyword arguments as a mapping (plus 'traceback' exactly when tracebacks are "
         "on). _exception_from_message: unregistered URI -> generic ApplicationError with URI and positional arguments; "
         "registered URI -> the class is tried exactly once with the carried arguments and its instance is returned "
         "whenever construction succeeds; no exception escapes whatever the constructor does (error never lost). Known "
         "finding (open): keyword arguments named like ApplicationError's own options are dropped. Counterexamples are "
         "replayed on the real functions.",
    note="Trusted: z3, pyvc (incl. its model of Python argument binding for f(*seq, **table): a table key naming a bound "
         "parameter is a TypeError), application values as opaque identities, a registered class as an opaque identity "
         "whose call raises arbitrarily or records its arguments. Not covered: BaseSession.define / uri.error "
         "(registration), encrypted errors (C20), subclasses of registered classes.",
    technique="contract-based deductive verification: AST->VC, symbolic tables with universally quantified ghost key, z3; "
              "counterexamples replayed on the real code"),
})

CLAIMED.update({
 "C13": dict(category="proof",
    text="RawSocket on Twisted and asyncio: the handshake decision is proved as a function of the first four octets of "
         "the stream however they are segmented (accumulate < 4, decide at 4, hand the rest to the framing layer): valid "
         "magic octet + supported / requested serializer -> reply 7f|(exp)<<4|serializer|0000, exactly one attach attempt, "
         "same serializer id on this side, announced limits recorded; anything else (wrong magic, non-zero reserved octets "
         "on asyncio, unsupported serializer, server error reply) -> transport dropped, no session, no octet decoded, "
         "no exception escaping. The asyncio frame decoder is proved against a recursive stream spec (canonical frames "
         "of the concatenated stream, in order, each with exactly its payload; tail and cached header carried over; "
         "reserved type / over-long frame closes before buffering) with a loop invariant. stringReceived / onMessage "
         "ladders: messages to the session in order, any failure aborts once (WebSocket: 1002 for protocol violations "
         "incl. invalid URIs, 1011 otherwise), nothing escapes; connectionLost / onClose tell the session once and "
         "detach; send() never exceeds the peer's announced limit (shared with C10); WebSocket subprotocol selection: "
         "first acceptable entry in the client's order, client accepts only what it offered, same serializer.",
    note="Trusted: z3, pyvc; Twisted's Int32StringReceiver (length framing of the octets handed on) and the frameworks "
         "calling connection_lost exactly once; session factory / ISession callbacks / unserialize arbitrary (return or "
         "raise any Exception; asyncio cancellation propagates by design); ceil(log2) exact; parseSubprotocolIdentifier "
         "is an assumed pure function in the proofs and checked by a *bounded* enumeration only (listed under bounded, "
         "not counted as proved). Not covered: the WebSocket opening handshake itself (C07), asyncio PING/PONG frames "
         "(NotImplementedError escapes to asyncio, which closes the transport), termination.",
    technique="contract-based deductive verification: AST->VC, opaque recursive spec functions with unfold lemmas, loop "
              "invariants, z3 (case split on path guards)"),
})

CLAIMED.update({
 "C08": dict(category="other",
    text="Validators: check_or_raise_id accepts exactly the ints (not bools) in 0..2^53, check_or_raise_uri exactly the strings "
         "of the WAMP URI grammar for each of the six option combinations (and None iff allowed), check_or_raise_realm_name "
         "exactly its grammar, check_or_raise_extra / _validate_kwargs exactly the dicts with string keys; each raises only "
         "ProtocolError / InvalidUriError for a value of any JSON / CBOR type. The languages of the real `re` patterns come "
         "from CPython's own pattern parser and are compared by z3 with spec languages built from the WAMP text. "
         "parse(): for 23 of the 25 message classes the real parse() and the real constructor are executed symbolically on "
         "an untrusted wmsg -- a list of unknown length whose elements are, independently, any scalar, list or dict, the "
         "option dict holding any value under each key the class reads (a read of any other key is refused by the engine) "
         "and any further keys: parse() returns or raises ProtocolError / InvalidUriError, never anything else (no "
         "constructor assertion is reachable, no IndexError / KeyError / TypeError), and a returned message has ids in "
         "0..2^53, URIs of the grammar, options of the declared types, white / black lists and forward_for chains valid "
         "element by element (loop invariants, unbounded), every field equal to the input's. Serializer.unserialize: whatever list the codec returns (or "
         "whatever Exception it raises), only ProtocolError / InvalidUriError leave; the precondition of the per-class parse() "
         "(non-empty list headed by the int the class is registered under -- the 25-entry table is checked exhaustively) "
         "is an obligation at the call site; a binary-flag mismatch is rejected. Hello / Welcome: a bounded "
         "enumeration on the real code stands in (labelled bounded). Counterexamples are rebuilt as Python structures and "
         "handed to the real parse(); for an accepted message the failed clause is evaluated natively on the real objects.",
    note="Trusted: z3 (strings, regular expressions, quantifier instantiation for the list invariants), pyvc, CPython's "
         "re._parser as the definition of the pattern language (characters above U+2FFFF outside z3's range); a "
         "deserialized value is int / bool / str / None / float / bytes / list / dict. Not covered (level 'other'): "
         "arbitrary octets through the third-party codecs (assumed: a codec returns a list or raises an Exception), "
         "Hello / Welcome beyond the stated bound, role.py, the statistics auto-reset callback, flatbuffers.",
    technique="contract-based deductive verification: AST->VC with untrusted list/dict value types, loop invariants, Python regex -> z3 regex via CPython's parse tree, z3; bounded enumeration for two classes"),
})

CLAIMED.update({
 "C01": dict(category="other",
    text="Proved per function: sendFrame writes exactly the RFC 6455 5.2 encoding of its frame (FIN|RSV|opcode, minimal "
         "7/16/64-bit length, MASK bit by role policy, a fresh 4-octet key, payload XORed from offset 0) -- for every "
         "payload length, role and option combination; codec lemma: the header decision of processData applied to "
         "that encoding gives back fin/rsv/opcode/length/mask flag and the payload offset (three length forms); the "
         "payload arm of processData consumes exactly min(buffered, rest of frame) octets whatever the read boundary, "
         "hands them on once, unmasked with the key continued from the running offset, and ends the frame exactly "
         "when its declared length is reached; the chopped / synchronous write queue is FIFO (everything handed to "
         "sendData is in order on the wire or still queued; a direct write happens only with an empty queue); "
         "sendMessage emits one well-formed frame sequence carrying exactly the payload for every fragmentation -- with a "
         "compression extension negotiated, exactly the compressor's complete output for it (abstract compressor: "
         "uninterpreted functions of history and input), RSV1 on the first frame only; the streaming send API is proved "
         "frame by frame: beginMessageFrame submits exactly enc_header(FIN=0, RSV=0, the message's opcode on the first "
         "frame and 0 afterwards, MASK by role, minimal length) plus a fresh key, sendMessageFrameData at most the octets "
         "still missing from the announced length, masked from the running offset, and reports what is missing / left "
         "over, endMessage one empty final continuation frame; "
         "header decision for all 2^16 header octet pairs, reassembly and exactly-once delivery (shared units with "
         "C02/C16).",
    note=WS_NOTE + " The induction from the per-call contracts to whole streams (any segmentation of a well-formed frame "
         "sequence decodes to the same messages) is the standard argument and is NOT mechanised; the codecs behind the "
         "compressor interface (C12), streaming with a compression extension (beginMessage / sendMessageFrame with "
         "send_compressed), PreparedMessage and the hand-over after the HTTP handshake are not covered: level 'other'. "
         "Undecided sequence-theory obligations are handed to a boundary-case search on the real protocol classes which "
         "can only confirm violations.",
    technique="contract-based deductive verification: AST->VC, ghost wire/queue state, spec encoder from RFC 6455, z3 "
              "(case split on path guards), lemmas about big-endian arithmetic and join"),
})

CLAIMED.update({
 "C03": dict(category="other",
    text="The marshal / parse half, per message class, for 23 of the 25 classes (all but Hello / Welcome): for every valid "
         "message object m (ids in 0..2^53, URIs of the WAMP grammar, every combination of present / absent options, "
         "white / black lists and forwarding chains of any length, args a list of anything, kwargs a dict with string "
         "keys, or an opaque payload with valid transparency attributes) Cls.parse(m.marshal()) is an instance of the same "
         "class with equal values in every field -- args / kwargs modulo the wire format's inability to tell absent from "
         "empty. The real marshal, parse, constructor and property getters are inlined from the current source; validators "
         "and is_valid_enc_* enter through their C08-proved contracts. A counterexample is rebuilt with the real class and "
         "replayed through marshal and parse. Batched mode of the MsgPack / CBOR / UBJSON object serializers: serialize() "
         "returns exactly be32(len(d)) ++ d for d = pack(obj); unserialize() of a payload laid out as n such records "
         "(first-order description by offsets) returns the n objects in order, for every n (loop invariant), over the "
         "assumed codec law unpack(pack(o)) == o; three small lemmas tie a record to that description.",
    note="Trusted: z3, pyvc. Assumed, not decided: the third-party codecs (json, msgpack, cbor2, ubjson) and the batch "
         "JSON batch format (split on \\x18) reproduce the marshalled list / dict / scalar structure -- so 'through each "
         "serializer' is decided only up to the codec law (level 'other'); the offsets' monotonicity is part of the batch "
         "description (a consequence of the recurrence by induction, not asked of the solver). Hello / Welcome (role feature objects) and PUBLISH with "
         "pre-serialized str / bytes args are not covered.",
    technique="contract-based deductive verification: AST->VC round-trip lemma per class over the real marshal/parse, untrusted list/dict value types, z3 strings + regex"),
})

CLAIMED.update({
 "C20": dict(category="other",
    text="Proved over assumed NaCl / JSON laws: KeyRing._get_box picks the box of this side's role under the covering "
         "(else default) key; encode returns None exactly without a box and otherwise only seal(box, JSON{uri,args,kwargs}, "
         "nonce) tagged cryptobox/json; decode returns only fields read from a payload that opened (authenticated) under "
         "this side's box and is tagged json, and raises otherwise. Session: an encrypted ERROR becomes the application's "
         "exception only after one decode as originator that opened and whose sealed URI equals the envelope URI -- "
         "otherwise exactly one of the three explicit encryption errors, no registered class is even tried; an error "
         "raised while a codec is active leaves as ciphertext with no clear args/kwargs; an encrypted EVENT invokes one "
         "handler per decode (as responder, with the envelope topic) that opened and names that topic, with the decrypted "
         "kwargs, and the first bad decode ends the dispatch; an encrypted RESULT completes its call successfully only "
         "after one decode (as originator, with the procedure of that call) that opened and names the procedure -- "
         "otherwise the call is rejected and a progressive result never reaches the progress handler; an encrypted "
         "INVOCATION runs the endpoint exactly when such a decode (as responder) succeeded and otherwise sends exactly "
         "one ERROR(INVOCATION) for the request and records nothing. Solver unknowns on the KeyRing units are handed to a replay "
         "with real NaCl keys (round trip, wrong key, tampering).",
    note="Trusted: z3, pyvc, NaCl Box (authenticated encryption: decrypt raises or opens; paired boxes invert each other), "
         "JSON round trip, pytrie longest-prefix lookup. Not covered: INVOCATION / RESULT / YIELD arms, publish()/call() "
         "encode paths; key management (set_key / rotation) is covered only by the replay harness' provisioning histories.",
    technique="contract-based deductive verification over uninterpreted cryptographic primitives, ghost decode accounting, z3"),
})

CLAIMED.update({
 "C12": dict(category="other",
    text="permessage-deflate negotiation proved per function: Offer.parse / Response.parse accept exactly the parameter sets of "
         "RFC 7692 7.1 (known names, each once, bare where required, window bits a decimal in 9..15) and report exactly "
         "what was offered / responded -- unknown, duplicated and out-of-range parameters are refused; OfferAccept / "
         "ResponseAccept refuse exactly the settings incompatible with the offer / response; each role compresses with "
         "its own direction's window size and context-takeover mode and decompresses with the peer's, keeping a context "
         "across messages exactly when takeover applies; lemma: after a successful negotiation both ends hold the same "
         "effective parameters for both directions (what the accept's extension string announces is decided by "
         "exhaustive enumeration of all admissible accepts on the real code).  Send side (WebSocketProtocol.sendMessage, "
         "over an abstract compressor with ghost history): a message is sent as the compressor's complete output for it "
         "with RSV1 on the first frame only -- for every fragmentation --, a do-not-compress message bypasses the compressor "
         "and travels in the clear with RSV1 clear, and the invariant 'every message the current compressor has absorbed "
         "went out in full, flagged' is preserved on every exit, including a message refused for its size.  Receive side "
         "(frame hooks, shared with C02 / C16): a message is inflated exactly when its first frame carries RSV1 with an "
         "extension negotiated (the header unit rejects every other RSV pattern, compressed control frames and RSV on "
         "continuation frames); UTF-8 validation and buffering apply to the inflated octets, chunk by chunk.",
    note="Trusted: z3, pyvc, int(text) as a function of the text, zlib as recorded constructor calls. Not covered (level "
         "'other'): losslessness of the codecs themselves (zlib, bz2, snappy, brotli are third-party), "
         "_parseExtensionsHeader and the handshake-side extension handling (C07), streaming send with compression, the "
         "bzip2 / snappy / brotli negotiation classes; a damaged compressed stream makes the codec raise out of the frame "
         "hook (not turned into a protocol failure by the library; stated in the onFrameData contract).",
    technique="contract-based deductive verification: AST->VC, optional-key dictionaries, contract-level lemma program, z3; "
              "one finite-domain lemma by exhaustive enumeration; send-side counterexamples replayed on a real client / "
              "server pair with real zlib"),
})

CLAIMED.update({
 "C07": dict(category="other",
    text="Both processHandshake functions are under contract as whole functions, for every octet string in the receive buffer "
         "and every segmentation: nothing happens before CRLFCRLF is present; a complete header is either accepted (client: "
         "connection opened; server: request passed to onConnect) or answered / dropped -- never both, never neither; no "
         "exception escapes. Necessary conditions of acceptance -- client: Upgrade: websocket, Sec-WebSocket-Accept == "
         "base64(SHA1(own key + GUID)), no subprotocol other than a requested one, open-handshake timer cancelled, onConnect "
         "scheduled once; server: Host / Upgrade / Connection present, version in the configured set, key of 24 characters "
         "ending in '==', connection limit not exceeded; both: exactly the octets after the header are kept for the frame "
         "decoder. Solver unknowns go to a replay of valid / single-defect / undecodable inputs under several read "
         "boundaries on the real classes.",
    note="Trusted: z3, pyvc, SHA-1 / base64 uninterpreted, parseHttpHeader / _url_to_origin / _is_same_origin / urllib / "
         "hyperlink by assumed contracts, text functions (strip, lower, split, format, comprehensions over split results) "
         "as over-approximations with only length facts -- this proves necessary conditions of acceptance and "
         "exception-freedom, not that every valid peer is accepted.  The origin policy functions are units of their own: "
         "_url_to_origin keeps exactly the scheme / host / port of the Origin URL (an explicit port, 0 included, is never "
         "replaced by the scheme's default; file: and 'null' give the null origin) over urllib's urlsplit as an assumed "
         "primitive; _is_same_origin accepts exactly when some configured pattern matches the whole text "
         "scheme://host:port (loop invariant; pattern.match an uninterpreted predicate) and never the null origin.  "
         "Not covered (level 'other'): sufficiency, wildcards2patterns (regex text built with str.replace chains), "
         "succeedHandshake (response construction), request construction and URL parsing, "
         "extension headers (C12), X-Forwarded-For handling, the Flash policy branch, library-to-library interoperability.",
    technique="contract-based deductive verification: AST->VC with over-approximated text functions, uninterpreted digest, z3; "
              "origin counterexamples replayed against urllib / re.fullmatch"),
})

CLAIMED.update({
 "C04": dict(category="proof",
    text="IdGenerator.next stays in 1..2^53 and is sequential; every reply arm of ApplicationSession.onMessage "
         "(PUBLISHED, SUBSCRIBED, UNSUBSCRIBED, REGISTERED, UNREGISTERED, RESULT incl. progressive, ERROR keyed by request "
         "type and id) is proved against a whole-view frame over the six request tables and the future heap: the record "
         "bearing (type, id) is consumed, only its future is completed and at most once (is_called guard => resolve's "
         "precondition), every other record, table and future is unchanged, progressive results leave the call pending, a "
         "reply matching nothing raises ProtocolError and consumes nothing.  The request-issuing side is proved function by "
         "function (publish, call, the _subscribe / _register closures of subscribe / register, _unsubscribe, _unregister, "
         "with the four *Options.message_attr() inlined): exactly one request message is handed to the transport; it carries "
         "the id IdGenerator.next() returned, which no pending request of that kind bears (table invariant: pending ids <= "
         "the generator's counter, preserved), the given URI, the caller's args / kwargs objects, and every option exactly "
         "as given (absent stays absent, falsy values and empty lists are kept, a single receiver becomes a one-element "
         "list, receive_progress iff a progress handler was given, correlation attributes copied); the request is recorded "
         "with the pending result that is returned (fresh, not completed) before the message is sent; every other pending "
         "request is untouched; when the transport refuses the message nothing stays pending.",
    note="Trusted: z3, pyvc incl. its Boogie-style record heap (distinct allocations are distinct), txaio futures as "
         "write-once cells, message objects as typed records whose constructor stores its arguments (the real constructors "
         "and getters are inlined in the C03 round-trip units), user callbacks opaque, ITransport.send per its interface "
         "contract (proved per transport under C10/C13); the transport does not re-enter the session synchronously.  "
         "Not covered: the object forms of subscribe() / register() (decorated methods collected with inspect.getmembers), "
         "type_check wrappers (check_types), encrypted payloads (C20), wrap-around of the id generator after 2^53 requests "
         "(precondition _next < 2^53).",
    technique="contract-based deductive verification: symbolic record heap + table frames, optional-keyword binding of "
              "**options.message_attr(), z3; counterexamples replayed on the real session over a recording transport"),
})

CLAIMED.update({
 "C06": dict(category="proof",
    text="The session phase gate is proved per message class: before the session is established every message other than "
         "WELCOME/ABORT/CHALLENGE raises ProtocolError with no effect, afterwards the handshake and client-to-router types do; "
         "GOODBYE is answered exactly when this side did not initiate closing and ends the session with one onLeave; leave() "
         "sends GOODBYE at most once; onClose clears transport and session id and fires onLeave exactly when a joined "
         "session ends, then onDisconnect; _errback_outstanding_requests empties all six request tables and completes "
         "every future that was pending (loop invariants over an unbounded number of requests); the default "
         "onLeave/onDisconnect call it; publish/call/subscribe/register/_unsubscribe/_unregister raise TransportLost "
         "with nothing sent or recorded once the transport is gone."
         "  The handshake arms are units of their own: WELCOME / CHALLENGE / ABORT call the local hook once and change nothing; "
         "the WELCOME continuation establishes the session (session id, one 'join') only when onWelcome accepted, and answers "
         "a denial or a failing hook with exactly one ABORT while the session stays unestablished (no join, no later leave, "
         "GOODBYE still illegal); the CHALLENGE continuation sends exactly one AUTHENTICATE carrying the signature (anything "
         "but a string raises and sends nothing), its error path one ABORT followed by one leave.",
    note="Trusted: z3, pyvc (record heap, symbolic tables, dict.values() as a sequence containing every present value), "
         "txaio as_future/add_callbacks (callback *order* connect<join<leave<disconnect across future chains is assumed), "
         "message constructors as records. Not covered: join() / onConnect (HELLO construction), the asynchronous chaining of "
         "the closures (txaio add_callbacks runs each continuation once after its hook: assumed), at-most-once onClose from "
         "the transports (C13).",
    technique="contract-based deductive verification: per-message-class and per-closure units, symbolic tables + record "
              "heap, z3; handshake counterexamples replayed as histories on the real session"),
})

CLAIMED.update({
 "C11": dict(category="proof",
    text="The EVENT arm of ApplicationSession.onMessage is proved against a ghost invocation log: exactly the handlers "
         "attached to the subscription id when the event arrives are invoked, once each, in subscription order (loop "
         "invariant over an unbounded handler list, under a re-entrancy contract that lets a handler unsubscribe itself "
         "during dispatch); every handler is handed exactly the published keyword arguments plus its own details "
         "argument (obligation at each invocation); an id the session does not hold raises ProtocolError, an id whose "
         "list is empty invokes nothing; _unsubscribe removes exactly that subscription, deactivates it and sends "
         "UNSUBSCRIBE iff it was the last one (SUBSCRIBED/UNSUBSCRIBED arms: see C04).",
    note="Trusted: z3, pyvc (tables of lists stored by value with live views), txaio.as_future runs a synchronous handler "
         "at once, handlers re-enter only by unsubscribing themselves (other re-entrant calls unmodelled), positional "
         "arguments not modelled in the Event arm, EventDetails contents opaque, encrypted payloads (C20) excluded.",
    technique="contract-based deductive verification: ghost invocation log, loop invariants, z3"),
})

CLAIMED.update({
 "C10": dict(category="proof",
    text="The INVOCATION arm invokes the endpoint once for an active registration and a fresh request id (ProtocolError "
         "otherwise); its success and error closures are proved to send exactly one terminal reply with the invocation's "
         "request id on every path - YIELD, or ERROR(INVOCATION) when send raises SerializationError or "
         "PayloadExceededError - and to delete the invocation record; call details are handed to the endpoint exactly when it "
         "asked for them and name the caller as the INVOCATION does; a progress callable is offered only when the caller "
         "asked for progressive results (receive_progress is true - not merely present), and that callable (the progress "
         "closure, its own unit) sends exactly one YIELD with progress=true, the invocation's request id and the given "
         "arguments and leaves the invocation pending; INTERRUPT cancels exactly the pending future; the "
         "three send() implementations (WebSocket, Twisted RawSocket, asyncio RawSocket) are proved against the "
         "ITransport.send interface contract the closures rely on (only SerializationError / PayloadExceededError / "
         "TransportLost escape, an error means nothing was written, the announced size limit is respected).",
    note="Trusted: z3, pyvc, txaio (as_future runs the endpoint, add_callbacks calls success or error exactly once, cancel), "
         "serializer.serialize may raise any Exception, _message_from_exception's contract (C18), message constructors as "
         "records. Not covered: that a progress callable is not used after the terminal reply (the endpoint's own "
         "discipline; the session does not guard it), positional / keyword arguments of the endpoint call (opaque here, "
         "C20 covers the decode path), encrypted payloads (C20), TransportLost between endpoint return and reply "
         "(excluded by the statement).",
    technique="contract-based deductive verification: closure units against an interface contract, z3"),
})

PENDING_REASON = "contracts for this property are not yet discharged in this snapshot of /verif (build in progress, see DESIGN.md section 8); nothing is claimed"

def main():
    props = [json.loads(l) for l in open(os.path.join(HERE, "properties.jsonl"))]
    checks, na = [], []
    for p in props:
        pid = p["id"]
        if pid in CLAIMED:
            c = CLAIMED[pid]
            checks.append({
                "property_id": pid,
                "quick_cmd": "./check %s --tier quick" % pid,
                "thorough_cmd": "./check %s --tier thorough" % pid,
                "evidence_file": "evidence/%s.json" % pid,
                "replay_cmd_template": "./check %s --replay {path}" % pid,
                "engine": "pyvc",
                "level_claimed": {"category": c["category"], "text": c["text"], "design_ref": "DESIGN.md section 5 (%s)" % pid},
                "level_note": c["note"],
                "technique": c["technique"],
            })
        else:
            na.append({"property_id": pid, "reason": NOT_APPLICABLE.get(pid, PENDING_REASON)})
    m = {
        "version": 1,
        "setup_cmd": "./setup.sh",
        "hooks": {"guard": "AUTOBAHN_PYTHON_VERIF",
                  "enable": "not needed: contracts are sidecar files under /verif/contracts; no file in /repo is instrumented",
                  "baseline_off_cmd": BASE, "source_commits": [], "add_only": True},
        "engines": [{"name": "pyvc", "path": "pyvc/", "serves_properties": sorted(CLAIMED),
                     "kind_free_text": "verification-condition generator over the real Python (ast) and C (gcc -E + pycparser) source, sidecar contracts, z3 with cvc5 fallback"}],
        "checks": checks,
        "notes": "fix: commits in /repo are listed in known_findings.json (status fixed). Exit codes: 0 held, 1 violation, 2 undecided, 3 engine/hygiene failure.",
        "not_applicable": na,
    }
    json.dump(m, open(os.path.join(HERE, "MANIFEST.json"), "w"), indent=1)
    print("MANIFEST.json: %d checks, %d not claimed" % (len(checks), len(na)))

NOT_APPLICABLE = {}
if __name__ == "__main__":
    main()
