import txaio; txaio.use_twisted()
from autobahn.twisted.wamp import ApplicationSession
from autobahn.wamp import message, role, cryptobox as CB, types
import decimal
kr0 = CB.KeyRing(); a_priv, a_pub = kr0.generate_key(); b_priv, b_pub = kr0.generate_key()
orig = CB.KeyRing(); orig.set_key("com.", CB.Key(originator_priv=a_priv, responder_pub=b_pub))
resp = CB.KeyRing(); resp.set_key("com.", CB.Key(originator_pub=a_pub, responder_priv=b_priv))
class Ser: SERIALIZER_ID="msgpack"
class T:
    def __init__(s): s.sent=[]; s._serializer=Ser()
    def send(s,m): s.sent.append(m)
    def is_open(s): return True
    def isOpen(s): return True
    def close(s): pass
    transport_details=None
import datetime
SECRET = datetime.datetime(2031, 12, 24, 1, 2, 3, tzinfo=datetime.timezone.utc)  #   # bytes: fine for MsgPack / CBOR on the transport, not for the JSON inside the sealed payload
class S(ApplicationSession):
    pass
s=S(); t=T(); s.onOpen(t); t.sent.clear()
s.onMessage(message.Welcome(1, {"broker": role.RoleBrokerFeatures(), "dealer": role.RoleDealerFeatures()}))
s.set_payload_codec(resp)
s.register(lambda x: SECRET, "com.x.p"); rid = t.sent[-1].request
s.onMessage(message.Registered(rid, 77)); t.sent.clear()
ep = orig.encode(True, "com.x.p", [5], None)
s.onMessage(message.Invocation(1001, 77, payload=ep.payload, enc_algo=ep.enc_algo, enc_serializer=ep.enc_serializer, enc_key=ep.enc_key))
for m in t.sent:
    print(type(m).__name__, {k: getattr(m, k, None) for k in ("args", "kwargs", "payload", "enc_algo", "error")})
from autobahn.wamp.serializer import CBORSerializer
import cbor2
wire = b"".join(CBORSerializer().serialize(m)[0] for m in t.sent)
print("secret on the wire:", cbor2.dumps(SECRET) in wire)
clear = [m for m in t.sent if isinstance(m, message.Yield) and m.args is not None]
print("CLEAR RESULT ON THE WIRE" if clear else "ok")
raise SystemExit(1 if clear else 0)
