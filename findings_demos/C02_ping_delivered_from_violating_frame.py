import txaio; txaio.use_twisted()
import sys, struct
sys.path.insert(0, "/verif")
from contracts import ws_pair_harness as H
src = H.HARNESS.split("bad, cases = [], 0")[0] % {"mode": "messages"}
exec(src)
out = {}
for split in ("whole", "bytewise"):
    pings = []
    server, client, st, ct, srec, crec = pair(False, failByDrop=False)
    server.onPing = lambda payload: pings.append(bytes(payload))
    key = b"\x01\x02\x03\x04"
    body = b"hi"
    frame = bytes([0x80 | 0x40 | 0x9, 0x80 | len(body)]) + key + bytes(c ^ key[i & 3] for i, c in enumerate(body))   # FIN, RSV1, PING
    if split == "whole":
        server.dataReceived(frame)
    else:
        for b in frame: server.dataReceived(bytes([b]))
    out[split] = pings
print(out)
raise SystemExit(0 if out["whole"] == out["bytewise"] == [] else 1)
