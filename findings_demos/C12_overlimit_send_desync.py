import sys, random, importlib.util
spec = importlib.util.spec_from_file_location("rig", "/verif/seeded/C12-send-uncompressed-when-not-smaller/demo.py")
rig = importlib.util.module_from_spec(spec); sys.argv=[sys.argv[0]]
src = open("/verif/seeded/C12-send-uncompressed-when-not-smaller/demo.py").read().split("\nif __name__")[0]
exec(compile(src, "rig", "exec"), rig.__dict__)
from autobahn.exception import PayloadExceededError
from autobahn.websocket.compress import PerMessageDeflateOffer
rng = random.Random(1)
server, client, st, ct, srec, crec = rig.make_protocols(PerMessageDeflateOffer(), {}, {})
rig.handshake(server, client, st, ct, rng)
assert srec.opened and crec.opened, "handshake"
client.maxMessagePayloadSize = 80
blob = bytes(rng.getrandbits(8) for _ in range(200))
try:
    client.sendMessage(blob, isBinary=True)
    print("over-limit message was not refused"); sys.exit(2)
except PayloadExceededError:
    pass
assert not ct.queue, "something was written for the refused message"
small = blob[:60]
client.sendMessage(small, isBinary=True)
try:
    rig.pump(ct, server, rng)
except rig.Violation as e:
    print("VIOLATION: the message after a refused over-limit message cannot be decompressed by the peer:", e); sys.exit(1)
if srec.messages != [(small, True)]:
    print("VIOLATION: received", srec.messages[:1], "closed", srec.closed); sys.exit(1)
print("ok")
