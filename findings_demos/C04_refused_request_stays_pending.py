import txaio; txaio.use_asyncio()
from autobahn.wamp.protocol import ApplicationSession
from autobahn.wamp.exception import TransportLost, SerializationError
from autobahn.wamp import message, role
from autobahn.wamp.request import Subscription, Registration, Handler, Endpoint
class T:
    def __init__(s): s.fail=False; s.sent=[]
    def send(s,m):
        if s.fail: raise SerializationError("x")
        s.sent.append(m)
    def is_open(s): return True
    def close(s): pass
    transport_details=None
s=ApplicationSession(); t=T(); s.onOpen(t)
s.onMessage(message.Welcome(1234, {"broker": role.RoleBrokerFeatures(), "dealer": role.RoleDealerFeatures()}))
t.fail=True
bad=[]
for name,fn,tab in [("subscribe", lambda: s.subscribe(lambda:1, "a.b"), s._subscribe_reqs), ("register", lambda: s.register(lambda:1,"a.b"), s._register_reqs)]:
    try: fn()
    except SerializationError: pass
    if tab: bad.append((name, dict(tab)))
sub=Subscription(7,"a.b",s,Handler(lambda:1)); s._subscriptions[7]=[sub]
try: s._unsubscribe(sub)
except SerializationError: pass
if s._unsubscribe_reqs: bad.append(("_unsubscribe",dict(s._unsubscribe_reqs)))
reg=Registration(s,9,"a.b",Endpoint(lambda:1)); s._registrations[9]=reg
try: s._unregister(reg)
except SerializationError: pass
if s._unregister_reqs: bad.append(("_unregister",dict(s._unregister_reqs)))
print(bad); import sys; sys.exit(1 if bad else 0)
