import txaio; txaio.use_asyncio()
from autobahn.wamp.protocol import ApplicationSession
from autobahn.wamp import message, role
class T:
    def __init__(s): s.sent=[]
    def send(s,m): s.sent.append(m)
    def is_open(s): return True
    def close(s): pass
    transport_details=None
s=ApplicationSession(); t=T(); s.onOpen(t)
s.onMessage(message.Welcome(1234, {"broker": role.RoleBrokerFeatures(), "dealer": role.RoleDealerFeatures()}))
s._session_id=1234
f=s.call("com.x.p", 1)
try:
    s.onMessage(message.Result(t.sent[-1].request, args=[1], progress=True))
except AttributeError as e:
    print("AttributeError escaped onMessage:", e); raise SystemExit(1)
s.onMessage(message.Result(t.sent[-1].request, args=[2]))
assert f.done() and f.result()==2
print("ok")
