#!/bin/sh
# usage: tools_run_mutants.sh <ID> [...]   -- every patch under mutants/<ID>/ against a scratch copy; one line per mutant
cd "$(dirname "$0")"
for id in "$@"; do
  for f in mutants/$id/*.patch; do
    out=$(./tools_mutant.sh $id $f 2>&1); code=$?
    v=$(echo "$out" | grep -c "^VIOLATION")
    r=$(echo "$out" | grep "^VIOLATION" | grep -vc "no-failing-input-found")
    u=$(echo "$out" | grep -c "^UNDECIDED")
    case $code in 1) verdict=DETECTED;; 2) verdict=UNDECIDED;; 0) verdict=MISSED;; 4) verdict=PATCH-DOES-NOT-APPLY;; *) verdict="EXIT-$code";; esac
    echo "$id $(basename $f .patch) $verdict violations=$v with-replayed-input=$r undecided=$u"
  done
done
