#!/bin/sh
# Build the overlay venv (z3 + cvc5 + repo deps in one interpreter). Offline; idempotent.
set -e
cd "$(dirname "$0")"
V=.venv
if [ ! -x "$V/bin/python" ] || ! "$V/bin/python" -c "import z3, autobahn, pycparser" 2>/dev/null; then
  rm -rf "$V"
  /venv/bin/python -m venv "$V"
  "$V/bin/python" -m pip install -q --no-index --find-links /opt/veriftools/wheels z3-solver cvc5 crosshair-tool deal icontract >/dev/null 2>&1 || \
  "$V/bin/python" -m pip install -q --no-index --find-links /opt/veriftools/wheels z3-solver
  echo "import site; site.addsitedir('/venv/lib/python3.12/site-packages')" > "$V/lib/python3.12/site-packages/_repo_venv.pth"
fi
"$V/bin/python" -c "import z3, autobahn; print('setup ok: z3', z3.get_version_string())"
