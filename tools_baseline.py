#!/usr/bin/env python3
"""Run the pinned baseline (guard off) and compare with /root/.vp/BASELINE.json stable_pass."""
import json, subprocess, sys, xml.etree.ElementTree as ET, os
base = json.load(open("/root/.vp/BASELINE.json"))
out = "/tmp/_pyvc_baseline.xml"
if "--reuse" not in sys.argv or not os.path.exists(out):
    subprocess.run(base["cmd"].replace("<file>", out), shell=True, stdout=subprocess.DEVNULL, stderr=subprocess.DEVNULL)
passed = set()
for tc in ET.parse(out).getroot().iter("testcase"):
    if not any(c.tag in ("failure", "error", "skipped") for c in tc):
        passed.add(tc.get("classname", "") + "::" + tc.get("name", ""))
stable = set(base["stable_pass"])
missing = sorted(stable - passed)
print("stable_pass=%d passing_now=%d missing=%d" % (len(stable), len(passed & stable), len(missing)))
for m in missing[:20]:
    print("  MISSING", m)
sys.exit(1 if missing else 0)
