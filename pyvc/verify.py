"""Verification of one unit (a real function of /repo against its sidecar contract) and of
contract-level lemmas; VC discharge with z3 (cvc5 on unknown)."""
import ast
import json
import os
import subprocess
import tempfile
import time
import traceback
import z3

from . import loader, calls, natives
from .values import *  # noqa
from .engine import *  # noqa
from .executor import Executor, _Abort


class UnitResult:
    def __init__(self, name, addr):
        self.name = name
        self.addr = addr
        self.obligations = []       # dicts: name, kind, status, backend, time, model, info
        self.status = "ok"          # ok | unsupported | crash
        self.message = ""
        self.notes = {}
        self.covers = []
        self.time = 0.0
        self.source_digest = ""


def free_vars(fnode):
    """names read in a nested def that are not bound in it (closure variables)"""
    bound = {a.arg for a in fnode.args.args + fnode.args.kwonlyargs + fnode.args.posonlyargs}
    if fnode.args.vararg:
        bound.add(fnode.args.vararg.arg)
    if fnode.args.kwarg:
        bound.add(fnode.args.kwarg.arg)
    for n in ast.walk(fnode):
        if isinstance(n, ast.Name) and isinstance(n.ctx, ast.Store):
            bound.add(n.id)
        elif isinstance(n, (ast.FunctionDef,)) and n is not fnode:
            bound.add(n.name)
        elif isinstance(n, ast.ExceptHandler) and n.name:
            bound.add(n.name)
    free = []
    for n in ast.walk(fnode):
        if isinstance(n, ast.Name) and isinstance(n.ctx, ast.Load) and n.id not in bound and n.id not in free:
            free.append(n.id)
    return free


def setup_unit(reg, contract, ex):
    fi = loader.get_function(contract.addr, contract.prefer)
    state = State()
    if "Ghost" in reg.shapes and contract.ghost:
        state.ghost = reg.fresh_obj(ex, state, "Ghost", "ghost", "ghost")
    a = fi.node.args
    names = [x.arg for x in a.posonlyargs + a.args + a.kwonlyargs]
    env = {}
    for n in names:
        typ = contract.params.get(n, "any")
        env[n] = reg.fresh(ex, state, typ, n, path=n)
    if a.vararg is not None:
        env[a.vararg.arg] = reg.fresh(ex, state, contract.params.get(a.vararg.arg, "any"), a.vararg.arg)
    if a.kwarg is not None:
        env[a.kwarg.arg] = reg.fresh(ex, state, contract.params.get(a.kwarg.arg, "any"), a.kwarg.arg)
    closure = None
    if fi.outer is not None:
        cenv = {}
        for n, typ in contract.params.items():
            if n not in env:
                cenv[n] = reg.fresh(ex, state, typ, n, path=n)
        closure = Frame(fi.outer, cenv)
    else:
        for n, typ in contract.params.items():
            if n not in env and n.startswith(("$", "forall_")):
                env[n] = reg.fresh(ex, state, typ, n, path=n)
    fr = Frame(fi, dict(env), closure=closure)
    state.frames.append(fr)
    all_env = dict(closure.locals) if closure else {}
    all_env.update(env)
    return fi, state, all_env


def verify_unit(reg, contract, tier="quick"):
    t0 = time.time()
    name = contract.name
    res = UnitResult(name, contract.addr)
    ex = Executor(reg, unit_name=name)
    reg.current = contract
    try:
        fi, state, env = setup_unit(reg, contract, ex)
        res.source_digest = _digest(loader.source_segment(fi.module, fi.node))
        if contract.setup is not None:
            contract.setup(ex, state, env)
        cenv = calls.clause_env(ex, state, contract, env)
        for cl in contract.requires:
            t, side = calls.eval_clause(ex, state, contract, cl, cenv)
            for s_ in side:
                state.assume(s_)
            state.assume(t)
        pre = state.copy()
        ex.unit_pre = pre
        ex.unit_env = dict(env)
        ex.loop_specs = contract.loops
        ex.loop_ordinal = 0
        res.covers.append(("requires-satisfiable", list(state.pc)))
        if contract.ghost_entry:
            run_ghost_code(ex, state, contract.ghost_entry)
        outs = ex.exec_block(state, fi.node.body, merge_last=not contract.split_exits)
        if contract.merge_returns:
            outs = merge_return_outcomes(ex, outs)
        n_normal = 0
        for o in outs:
            if o.kind in ("return", "normal", "raise") and contract.hints:
                henv = calls.clause_env(ex, o.state, contract, env)
                henv["result"] = (o.val if o.kind == "return" else VNone)
                for h in contract.hints:
                    reg.check_hint(h)
                    if o.kind == "raise" and "result" in h:
                        continue
                    t, side = calls.eval_clause(ex, o.state, contract, h, henv, old_state=pre)
                    for x in side:
                        o.state.assume(x)
                    o.state.assume(t)
            if o.kind in ("return", "normal"):
                n_normal += 1
                result = o.val if o.kind == "return" else VNone
                check_post(ex, reg, contract, o.state, pre, env, result)
                res.covers.append(("normal-exit-reachable", list(o.state.pc)))
            elif o.kind == "raise":
                check_raise(ex, reg, contract, o.state, pre, env, o.val)
            else:
                raise Unsupported("break/continue escaping function")
        res.notes = {k: sorted(v) for k, v in ex.notes.items()}
        if ex.notes["havoc_calls"]:
            res.notes["havoc_calls"] = sorted(ex.notes["havoc_calls"])
    except Unsupported as e:
        res.status = "unsupported"
        res.message = str(e)
        if os.environ.get("PYVC_TRACE"):
            res.message += "\n" + traceback.format_exc()
        res.time = time.time() - t0
        reg.current = None
        return res, ex
    except Exception:
        res.status = "crash"
        res.message = traceback.format_exc()
        res.time = time.time() - t0
        reg.current = None
        return res, ex
    reg.current = None
    res.time = time.time() - t0
    return res, ex


def run_ghost_code(ex, state, stmts):
    """ghost statements from the sidecar (assignments to ghost.* only), executed in the unit's entry state"""
    src = "\n".join(stmts)
    tree = ast.parse(src)
    for n in ast.walk(tree):
        if isinstance(n, (ast.Assign, ast.AugAssign)):
            tg = n.targets if isinstance(n, ast.Assign) else [n.target]
            for t in tg:
                root = t
                while isinstance(root, (ast.Attribute, ast.Subscript)):
                    root = root.value
                if not (isinstance(root, ast.Name) and root.id == "ghost"):
                    raise Unsupported("ghost code may only assign to ghost.*")
        elif isinstance(n, ast.Call) and not (isinstance(n.func, ast.Attribute) and isinstance(n.func.value, ast.Attribute)
                                                and isinstance(n.func.value.value, ast.Name) and n.func.value.value.id == "ghost"):
            if not (isinstance(n.func, ast.Name) and n.func.id in ("len", "be16")):
                raise Unsupported("ghost code may only call methods of ghost fields")
    state.frame.locals["ghost"] = state.ghost
    outs = ex.exec_block(state, tree.body)
    if len(outs) != 1 or outs[0].kind != "normal":
        raise Unsupported("ghost code must be total")
    state.become(outs[0].state)
    state.frame.locals.pop("ghost", None)


def merge_return_outcomes(ex, outs):
    """one merged normal exit (result and state as ITEs over the paths) instead of one per `return`"""
    from .engine import merge_states, Outcome
    rets = [o for o in outs if o.kind in ("return", "normal")]
    rest = [o for o in outs if o.kind not in ("return", "normal")]
    if len(rets) <= 1:
        return outs
    for o in rets:
        o.state.frame.locals["__ret__"] = o.val if o.kind == "return" else VNone
    m = merge_states([o.state for o in rets])
    if m is None:
        return rest
    val = m.frame.locals.pop("__ret__")
    return rest + [Outcome("return", m, val)]


def _digest(text):
    import hashlib
    return hashlib.sha256((text or "").encode()).hexdigest()[:16]


def check_post(ex, reg, contract, state, pre, env, result):
    cenv = calls.clause_env(ex, state, contract, env)
    cenv["result"] = result
    # declared return type
    for k, cl in enumerate(contract.ensures):
        s = state.copy()
        t, side = calls.eval_clause(ex, s, contract, cl, cenv, old_state=pre)
        for x in side:
            s.assume(x)
        ex.oblige("ensures", s, t, label=str(k), info={"clause": cl})
    check_frame(ex, reg, contract, state, pre, "frame")


def check_frame(ex, reg, contract, state, pre, kind):
    mods = set(contract.modifies)
    for oid, path in pre.paths.items():
        po = pre.heap.get(oid)
        so = state.heap.get(oid)
        if po is None or so is None:
            continue
        if path in mods or any(path == m or path.startswith(m + ".") for m in mods if not m.endswith("*")):
            whole = path in mods
        else:
            whole = False
        if whole or (path.rsplit(".", 1)[0] + ".*") in mods and "." in path and po.kind != "inst":
            continue
        if po.kind == "inst":
            if (path + ".*") in mods:
                continue
            for f, pv in po.fields.items():
                if (path + "." + f) in mods:
                    continue
                sv = so.fields.get(f)
                if sv is None or same_value(pv, sv):
                    continue
                if isinstance(pv, VOpaque) or isinstance(pv, VFunc):
                    continue
                ex.oblige(kind, state, ex.eq_pre_post(state, pre, pv, sv), label=path + "." + f)
        elif po.kind == "list":
            if po.items is not None and so.items is not None and len(po.items) == len(so.items) and all(
                    same_value(a, b) for a, b in zip(po.items, so.items)):
                continue
            if po.items is None and so.items is None and po.seq.eq(so.seq):
                continue
            sa, ea = list_to_seq(po)
            sb, eb = list_to_seq(so)
            ex.oblige(kind, state, sa == sb, label=path)
        elif po.kind == "dict" and po.sym is not None:
            if po.sym["has"].eq(so.sym["has"]) and po.sym["val"].eq(so.sym["val"]):
                continue
            k = z3.Const(fresh_name("fk"), po.sym["has"].sort().domain())
            goal = z3.And(z3.Select(po.sym["has"], k) == z3.Select(so.sym["has"], k),
                          z3.Implies(z3.Select(po.sym["has"], k), z3.Select(po.sym["val"], k) == z3.Select(so.sym["val"], k)))
            ex.oblige(kind, state, goal, label=path)
        elif po.kind == "barray":
            if po.arr.eq(so.arr) and po.n.eq(so.n):
                continue
            k = z3.Int(fresh_name("fk"))
            ex.oblige(kind, state, z3.And(po.n == so.n, z3.Implies(z3.And(k >= 0, k < po.n),
                                                                   z3.Select(po.arr, k) == z3.Select(so.arr, k))), label=path)
    # symbolic-record heap
    for key, arr in state.sheap.items():
        shape, fld = key
        if shape == "$alloc":
            continue        # allocation of fresh records is always permitted
        base = fld.replace("?none", "")
        if ("%s.%s" % (shape, base)) in mods or ("%s.*" % shape) in mods:
            continue
        parr = pre.sheap.get(key)
        if parr is None:
            parr = z3.Array("H0_%s_%s" % key, z3.IntSort(), arr.sort().range())
        if parr.eq(arr):
            continue
        k = z3.Int(fresh_name("fk"))
        # records allocated by this unit may be initialised freely; every record that existed before is framed
        alloc0 = pre.sheap.get(("$alloc", ""))
        if alloc0 is None:
            alloc0 = z3.Array("H0_alloc", z3.IntSort(), z3.BoolSort())
        ex.oblige(kind, state, z3.Implies(z3.Select(alloc0, k), z3.Select(parr, k) == z3.Select(arr, k)),
                  label="%s.%s" % key)


def _eq_pre_post(self, state, pre, pv, sv):
    # values of the pre-state compared in the post-state: references compare by identity
    return self.eq_frame(state, pv, sv)


def _eq_frame(self, state, a, b):
    res = []
    import itertools
    for (g1, x), (g2, y) in itertools.product(alts_of(a), alts_of(b)):
        g = simp(z3.And(g1, g2))
        if is_false(g):
            continue
        if isinstance(x, VRef) and isinstance(y, VRef):
            r = z3.BoolVal(x.oid == y.oid)
        elif x.kind != y.kind:
            r = z3.BoolVal(False)
        elif isinstance(x, (VOpaque, VFunc)):
            r = z3.BoolVal(same_atom(x, y) or x is y)
        else:
            r = self.eq_atoms(state, x, y)
        res.append(z3.And(g, r))
    return simp(disj(res))


Executor.eq_pre_post = _eq_pre_post
Executor.eq_frame = _eq_frame


def check_raise(ex, reg, contract, state, pre, env, exc):
    o = state.heap[exc.oid]
    cname = o.cls.name
    bases = ex.class_bases(o.cls)
    exact = o.fields.get("__exact__", True)
    cenv = calls.clause_env(ex, pre, contract, env)
    conds = []
    matched = []
    for ename, cond in contract.raises.items():
        en = ename.rstrip("+")
        if en in bases:
            t, _ = calls.eval_clause(ex, pre.copy(), contract, cond, cenv)
            conds.append(t)
            matched.append(ename)
    goal = simp(disj(conds)) if conds else z3.BoolVal(False)
    line = None
    ex.oblige("raises", state, goal, label=cname + ("" if exact else "+"),
              info={"exception": cname, "exact": exact, "allowed_by": matched, "raised_at": o.fields.get("__line__")})
    for ename in matched:
        for k, cl in enumerate(contract.raises_ensures.get(ename, [])):
            s = state.copy()
            cenv2 = calls.clause_env(ex, s, contract, env)
            t, side = calls.eval_clause(ex, s, contract, cl, cenv2, old_state=pre)
            for x in side:
                s.assume(x)
            ex.oblige("raises-ensures", s, t, label="%s.%d" % (ename, k), info={"clause": cl})
    if contract.raises_ensures.get("*"):
        for k, cl in enumerate(contract.raises_ensures["*"]):
            s = state.copy()
            cenv2 = calls.clause_env(ex, s, contract, env)
            t, side = calls.eval_clause(ex, s, contract, cl, cenv2, old_state=pre)
            for x in side:
                s.assume(x)
            ex.oblige("raises-ensures", s, t, label="*.%d" % k, info={"clause": cl})


# ------------------------------------------------------------------------------------------ solving

def mentioned_functions(terms):
    seen, names = set(), set()
    todo = list(terms)
    while todo:
        t = todo.pop()
        if t.get_id() in seen:
            continue
        seen.add(t.get_id())
        if z3.is_app(t):
            names.add(t.decl().name())
            todo.extend(t.children())
        elif z3.is_quantifier(t):
            todo.append(t.body())
    return names


def axioms_for(terms):
    names = mentioned_functions(terms)
    out = []
    added = set()
    changed = True
    while changed:
        changed = False
        for fn, axs in natives.AXIOMS.items():
            if fn in names and fn not in added:
                added.add(fn)
                out.extend(axs)
                names |= mentioned_functions(axs)
                changed = True
    return out


def forked(fn, timeout_s):
    """run fn() in a forked child with a hard deadline; returns its (picklable) result or None on
    timeout / crash.  z3's soft timeout is not always honoured (recursive definitions, quantifiers) and
    interrupting a context can abort the process, so every solver call is isolated like this."""
    import pickle
    import select
    import signal
    r, w = os.pipe()
    pid = os.fork()
    if pid == 0:
        os.close(r)
        try:
            data = pickle.dumps(fn())
        except BaseException as e:      # noqa
            data = pickle.dumps({"__error__": repr(e)})
        try:
            with os.fdopen(w, "wb") as f:
                f.write(data)
        finally:
            os._exit(0)
    os.close(w)
    buf = b""
    deadline = time.time() + timeout_s
    try:
        while True:
            left = deadline - time.time()
            if left <= 0:
                break
            rd, _, _ = select.select([r], [], [], left)
            if not rd:
                break
            chunk = os.read(r, 1 << 16)
            if not chunk:
                break
            buf += chunk
    finally:
        os.close(r)
        try:
            os.kill(pid, signal.SIGKILL)
        except ProcessLookupError:
            pass
        try:
            os.waitpid(pid, 0)
        except ChildProcessError:
            pass
    if not buf:
        return None
    try:
        return pickle.loads(buf)
    except Exception:
        return None


def guarded_check(s, timeout_ms):
    """check() isolated in a child process; returns 'unsat' | 'sat' | 'unknown' (string)"""
    def fn():
        r = s.check()
        return {"r": str(r)}
    out = forked(fn, timeout_ms / 1000.0 + 2.0)
    if out is None or "r" not in out:
        return "unknown"
    return out["r"]


NO_INNER_FORK = [False]     # set inside solve_all workers: the worker process itself is the isolation unit


def split_goal(goal, hyps=(), depth=0):
    """goal preprocessing: universally quantified goals are skolemized by hand (a fresh constant per bound
    variable), conjunctions are split, implications move their antecedent to the hypotheses.  Returns a list of
    (hypotheses, goal) pairs; the obligation holds iff every pair is valid.  (z3 proves the skolemized form of
    array/modular goals in seconds where the quantified negation runs into the timeout.)"""
    hyps = list(hyps)
    if depth > 6:
        return [(hyps, goal)]
    if z3.is_quantifier(goal) and goal.is_forall():
        cs = [z3.Const(fresh_name("sk_" + goal.var_name(i)), goal.var_sort(i)) for i in range(goal.num_vars())]
        body = z3.substitute_vars(goal.body(), *reversed(cs))
        return split_goal(body, hyps, depth + 1)
    if z3.is_and(goal) and goal.num_args() <= 24:
        out = []
        for ch in goal.children():
            out.extend(split_goal(ch, hyps, depth + 1))
        return out
    if z3.is_implies(goal):
        return split_goal(goal.arg(1), hyps + [goal.arg(0)], depth + 1)
    if z3.is_or(goal) and goal.num_args() == 2 and z3.is_not(goal.arg(0)):
        return split_goal(goal.arg(1), hyps + [goal.arg(0).arg(0)], depth + 1)
    return [(hyps, goal)]


def solve_obligation(ob, timeout_ms, use_cvc5=True, ex=None):
    if any(t.eq(ob.goal) for t in ob.pc) or is_true(ob.goal):
        ob.status, ob.backend, ob.time = "proved", "syntactic", 0.0     # the goal is literally a hypothesis
        return ob
    parts = split_goal(ob.goal)
    if len(parts) == 1 and not parts[0][0] and parts[0][1].eq(ob.goal):
        return _solve_one(ob, timeout_ms, use_cvc5, ex)
    t0 = time.time()
    worst = "proved"
    backends = set()
    for hyps, g in parts:
        sub = Obligation(ob.name, ob.kind, list(ob.pc) + list(hyps), g, ob.info)
        _solve_one(sub, timeout_ms, use_cvc5, ex)
        backends.add(sub.backend)
        if sub.status == "refuted":
            ob.status, ob.inputs, ob.backend = "refuted", getattr(sub, "inputs", None), sub.backend
            ob.time = time.time() - t0
            return ob
        if sub.status == "unknown":
            worst = "unknown"
            ob.reason = getattr(sub, "reason", "")
    ob.status = worst
    ob.backend = "cvc5" if "cvc5" in backends else "z3"
    ob.time = time.time() - t0
    return ob


def _solve_one(ob, timeout_ms, use_cvc5=True, ex=None):
    t0 = time.time()
    s = z3.Solver()
    s.set("timeout", timeout_ms)
    if getattr(ob, "retry_seed", None):
        s.set("random_seed", ob.retry_seed)
    terms = list(ob.pc) + [z3.Not(ob.goal)]
    for ax in axioms_for(terms):
        s.add(ax)
    for t in terms:
        s.add(t)
    if os.environ.get("PYVC_DUMP") and os.environ["PYVC_DUMP"] in ob.name:
        with open("/tmp/w/dump_%s.smt2" % ob.name.replace("/", "_").replace(":", "_")[-80:], "w") as f_:
            f_.write(s.to_smt2())

    def fn():
        first = min(timeout_ms, 8000)
        s.set("timeout", first)
        r = s.check()
        if r == z3.unknown and timeout_ms > first:
            # merged path conditions (If-terms over the guards of joined branches) are what the sequence solver
            # chokes on: split on one path guard; both halves unsat = the obligation is proved
            if _case_split(terms, 5000):
                return {"r": "unsat", "how": "case split on a path guard"}
            s.set("timeout", timeout_ms)
            r = s.check()
        if r == z3.unknown:
            # the sequence solver is unstable on identical input: retry with other seeds before giving up
            for seed in (7, 1234):
                s.set("random_seed", seed)
                s.set("timeout", max(2000, timeout_ms // 3))
                r = s.check()
                if r != z3.unknown:
                    break
        out = {"r": str(r)}
        if r == z3.sat and ex is not None:
            try:
                out["inputs"] = model_inputs(ex, ex.unit_pre, s.model(), terms)
            except Exception as e:
                out["inputs"] = {"<error>": repr(e)}
        if r == z3.unknown:
            out["reason"] = s.reason_unknown()
        return out
    if NO_INNER_FORK[0]:
        try:
            out = fn()
        except BaseException as e:      # noqa
            out = {"r": "unknown", "reason": repr(e)}
    else:
        out = forked(fn, timeout_ms / 1000.0 + 55.0) or {"r": "unknown", "reason": "hard timeout"}
    ob.backend = "z3"
    ob.inputs = out.get("inputs")
    if out.get("r") == "unsat":
        ob.status = "proved"
    elif out.get("r") == "sat":
        ob.status = "refuted"
    else:
        ob.status = "unknown"
        ob.reason = out.get("reason") or out.get("__error__", "")
        if use_cvc5:
            r2 = run_cvc5(s.to_smt2(), timeout_ms)
            if r2 == "unsat":
                ob.status, ob.backend = "proved", "cvc5"
            elif r2 == "sat":
                ob.status, ob.backend = "refuted", "cvc5"
        if ob.status == "unknown" and ex is not None and any(z3.is_quantifier(t) for t in ob.pc):
            # candidate counterexample from the quantifier-free part of the path condition.  It proves nothing by
            # itself (hypotheses were dropped); it is only handed to the replay harness, which runs the real code
            s2 = z3.Solver()
            s2.set("timeout", min(timeout_ms, 15000))
            for t in ob.pc:
                if not z3.is_quantifier(t):
                    s2.add(t)
            s2.add(z3.Not(ob.goal))

            def fn2():
                r = s2.check()
                o2 = {"r": str(r)}
                if r == z3.sat:
                    try:
                        o2["inputs"] = model_inputs(ex, ex.unit_pre, s2.model(), list(ob.pc) + [ob.goal])
                    except Exception as e:
                        o2["inputs"] = {"<error>": repr(e)}
                return o2
            out2 = (fn2() if NO_INNER_FORK[0] else forked(fn2, min(timeout_ms, 15000) / 1000.0 + 3.0)) or {}
            if out2.get("r") == "sat":
                ob.candidate_inputs = out2.get("inputs")
    ob.time = time.time() - t0
    return ob


def _path_guards(terms, limit=6):
    """branch-guard constants (br!N) occurring in the terms: those that steer sequence-valued If-terms first (that is
    where the sequence solver needs help), then the most recent ones"""
    seen, found, seqg, stack = set(), {}, {}, list(terms)
    while stack:
        e = stack.pop()
        i = e.get_id()
        if i in seen:
            continue
        seen.add(i)
        if z3.is_const(e) and e.decl().kind() == z3.Z3_OP_UNINTERPRETED and e.sort() == z3.BoolSort():
            n = e.decl().name()
            if n.startswith("br!"):
                found[n] = e
        elif z3.is_app(e):
            if e.decl().kind() == z3.Z3_OP_ITE and isinstance(e.sort(), z3.SeqSortRef):
                c = e.arg(0)
                sub = [c] + (list(c.children()) if z3.is_app(c) else [])
                for x in sub:
                    if z3.is_const(x) and x.decl().kind() == z3.Z3_OP_UNINTERPRETED and x.decl().name().startswith("br!"):
                        seqg[x.decl().name()] = x
            stack.extend(e.children())
        elif z3.is_quantifier(e):
            stack.append(e.body())

    def idx(n):
        try:
            return int(n.split("!")[1])
        except ValueError:
            return 0
    first = [seqg[n] for n in sorted(seqg, key=idx, reverse=True)]
    rest = [found[n] for n in sorted(found, key=idx, reverse=True) if n not in seqg]
    return (first + rest)[:limit]


def _case_split(terms, each_ms):
    import itertools
    import time as _t
    axs = axioms_for(terms)

    def refuted(lits):
        s2 = z3.Solver()
        s2.set("timeout", each_ms)
        for ax in axs:
            s2.add(ax)
        for t in terms:
            s2.add(t)
        for l_ in lits:
            s2.add(l_)
        return s2.check() == z3.unsat
    guards = _path_guards(terms)
    t0 = _t.time()
    for b in guards:
        if refuted([b]) and refuted([z3.Not(b)]):
            return True
    # two guards at once (four cases), within a time budget
    for b1, b2 in itertools.combinations(guards[:5], 2):
        if _t.time() - t0 > 40:
            break
        if all(refuted([l1, l2]) for l1 in (b1, z3.Not(b1)) for l2 in (b2, z3.Not(b2))):
            return True
    return False


def run_cvc5(smt2, timeout_ms):
    exe = "/usr/bin/cvc5"
    if not os.path.exists(exe):
        return "unknown"
    with tempfile.NamedTemporaryFile("w", suffix=".smt2", delete=False) as f:
        f.write("(set-logic ALL)\n" + smt2)
        path = f.name
    try:
        p = subprocess.run([exe, "--strings-exp", "--tlimit=%d" % timeout_ms, path], capture_output=True, text=True,
                           timeout=timeout_ms / 1000 + 5)
        out = p.stdout.strip().splitlines()
        return out[0].strip() if out else "unknown"
    except Exception:
        return "unknown"
    finally:
        os.unlink(path)


def check_cover(pc, timeout_ms=3000):
    """reachability (non-vacuity) query: only `unsat` matters (vacuous); lemma axioms are omitted (they are
    consequences of the definitions, so they cannot turn a satisfiable path condition unsatisfiable)"""
    s = z3.Solver()
    s.set("timeout", timeout_ms)
    for t in pc:
        s.add(t)
    return guarded_check(s, timeout_ms)


def _unescape(s):
    """z3 prints non-ASCII / control characters of string values as \\u{hex}: back to the real characters"""
    import re as _re
    return _re.sub(r"\\u\{([0-9a-fA-F]+)\}", lambda m: chr(int(m.group(1), 16)), s)


def _literals(terms, limit=200000):
    """string / integer literals occurring in the obligation (candidate table keys for model read-back)"""
    seen, lits, stack = set(), {}, list(terms or [])
    while stack and len(seen) < limit:
        e = stack.pop()
        i = e.get_id()
        if i in seen:
            continue
        seen.add(i)
        if z3.is_string_value(e) or z3.is_int_value(e):
            lits[str(e)] = e
        elif z3.is_app(e):
            stack.extend(e.children())
        elif z3.is_quantifier(e):
            stack.append(e.body())
    return list(lits.values())


def model_inputs(ex, pre, model, terms=None):
    """Evaluate the unit's input symbols (parameters, fields of declared objects) in a counter-model."""
    out = {}
    lits = _literals(terms)
    scratch = pre.copy()        # elements of untrusted lists are materialised here while the model is read

    def conv(v):
        if isinstance(v, (VInt,)):
            r = model.eval(v.t, model_completion=True)
            return r.as_long() if z3.is_int_value(r) else str(r)
        if isinstance(v, VBool):
            return z3.is_true(model.eval(v.t, model_completion=True))
        if isinstance(v, VReal):
            r = model.eval(v.t, model_completion=True)
            try:
                return float(r.as_fraction())
            except Exception:
                return str(r)
        if isinstance(v, VBytes):
            r = model.eval(v.t, model_completion=True)
            return {"bytes": seq_to_list(r, model)}
        if isinstance(v, VABytes):
            n = model.eval(v.n, model_completion=True)
            nn = n.as_long() if z3.is_int_value(n) else 0
            vals = []
            for i in range(min(nn, 256)):
                e = model.eval(z3.Select(v.arr, z3.IntVal(i)), model_completion=True)
                vals.append(e.as_long() % 256 if z3.is_int_value(e) else 0)
            return {"bytes": vals}
        if isinstance(v, VStr):
            r = model.eval(v.t, model_completion=True)
            return _unescape(r.as_string()) if z3.is_string_value(r) else str(r)
        if isinstance(v, VNoneT):
            return None
        if isinstance(v, VTuple):
            return [conv(x) for x in v.items]
        if isinstance(v, VUnion):
            for g, a in v.alts:
                if z3.is_true(model.eval(g, model_completion=True)):
                    return conv(a)
            return "?"
        if isinstance(v, VOpaque):
            return "<opaque>"
        if isinstance(v, VRef):
            o = scratch.heap.get(v.oid)
            if o is None:
                return "<ref>"
            if o.kind == "ulist":
                n = model.eval(o.n, model_completion=True)
                nn = n.as_long() if z3.is_int_value(n) else 0
                idxs = list(range(nn))
                if nn > 12:
                    # a long list in the model: keep the positions the model says something about (explicit entries of
                    # the element functions); the shortened list is a *candidate* input, judged by the replay
                    pos = len(o.uctx[1])
                    hot = set()
                    for d in model.decls():
                        if d.arity() > pos and d.name().startswith(o.uctx[0] + "!"):
                            fi = model[d]
                            try:
                                for k in range(fi.num_entries()):
                                    a = fi.entry(k).arg_value(pos)
                                    if z3.is_int_value(a) and 0 <= a.as_long() < nn:
                                        hot.add(a.as_long())
                                # piecewise interpretations (If(.. 1063 <= Var(1) ..)): positions around the thresholds
                                for e in _literals([fi.else_value()]):
                                    if z3.is_int_value(e):
                                        hot.update(c for c in (e.as_long() - 1, e.as_long(), e.as_long() + 1) if 0 <= c < nn)
                            except (z3.Z3Exception, AttributeError):
                                pass
                    vals, seen = [], set()
                    for i in sorted(hot) or range(4):
                        cv = conv(ex.reg.ulist_get(ex, scratch, o, z3.IntVal(i)))
                        key = json.dumps(cv, sort_keys=True, default=str)
                        if key not in seen:         # one representative of each distinct element
                            seen.add(key)
                            vals.append(cv)
                    return vals[:12]
                return [conv(ex.reg.ulist_get(ex, scratch, o, z3.IntVal(i))) for i in idxs]
            if o.kind == "udict":
                d = {str(k): conv(x) for k, x in o.d.items() if z3.is_true(model.eval(o.opt[k], model_completion=True))}
                r = {"dict": d}
                if z3.is_true(model.eval(o.other, model_completion=True)):
                    r["other_key"] = conv(o.other_key)
                return r
            if o.kind == "inst":
                return {"$obj": pre.paths.get(v.oid, "?")}
            if o.kind == "list":
                if o.items is not None:
                    return [conv(x) for x in o.items]
                r = model.eval(o.seq, model_completion=True)
                return {"list": seq_to_list(r, model)}
            if o.kind == "dict" and o.d is not None:
                return {"dict": {str(k): conv(x) for k, x in o.d.items()}}
            if o.kind == "dict" and o.sym is not None:
                return {"dict": dict_entries(model, o.sym, lits)}
            if o.kind == "barray":
                n = model.eval(o.n, model_completion=True)
                nn = n.as_long() if z3.is_int_value(n) else 0
                return {"barray": [model.eval(z3.Select(o.arr, z3.IntVal(i)), model_completion=True).as_long()
                                   for i in range(min(nn, 64))]}
        return "<%s>" % v.kind
    for fr in pre.frames:
        f = fr
        while f is not None:
            for k, v in f.locals.items():
                if not k.startswith("__"):
                    try:
                        out[k] = conv(v)
                    except Exception as e:      # model conversion must never mask the verdict
                        out[k] = "<err %s>" % e
            f = f.closure
    for oid, path in pre.paths.items():
        o = pre.heap.get(oid)
        if o is None or o.kind != "inst":
            continue
        for fld, v in o.fields.items():
            try:
                out[path + "." + fld] = conv(v)
            except Exception as e:
                out[path + "." + fld] = "<err %s>" % e
    return out


def dict_entries(model, sym, lits=()):
    """the entries of a symbolic table in a counter-model: candidate keys are the key-sorted constants of the model and
    the key literals of the evaluated arrays; membership and value are then read off by evaluation"""
    ks = sym["has"].sort().domain()
    cands = {}

    def walk(e, depth=0):
        if depth > 40:
            return
        if z3.is_expr(e) and e.sort() == ks and (z3.is_string_value(e) or z3.is_int_value(e)):
            cands[str(e)] = e
        if z3.is_app(e):
            for c in e.children():
                walk(c, depth + 1)
        elif z3.is_quantifier(e):
            walk(e.body(), depth + 1)
    for d in model.decls():
        try:
            if d.arity() == 0 and d.range() == ks:
                walk(model[d])
        except z3.Z3Exception:
            pass
    for e in lits:
        walk(e)
    for arr in (sym["has"], sym["val"]):
        try:
            walk(model.eval(arr, model_completion=True))
        except z3.Z3Exception:
            pass
    out = {}
    for k in cands.values():
        if z3.is_true(model.eval(z3.Select(sym["has"], k), model_completion=True)):
            v = model.eval(z3.Select(sym["val"], k), model_completion=True)
            key = k.as_string() if z3.is_string_value(k) else k.as_long()
            out[key] = v.as_long() if z3.is_int_value(v) else str(v)
    return out


def seq_to_list(r, model):
    """concrete python list from a z3 sequence value"""
    out = []

    def rec(t):
        if z3.is_app(t):
            k = t.decl().kind()
            if k == z3.Z3_OP_SEQ_UNIT:
                e = model.eval(t.arg(0), model_completion=True)
                out.append(e.as_long() if z3.is_int_value(e) else str(e))
                return
            if k == z3.Z3_OP_SEQ_CONCAT:
                for c in t.children():
                    rec(c)
                return
            if k == z3.Z3_OP_SEQ_EMPTY:
                return
        out.append(str(t))
    rec(r)
    return out


def solve_all(obls, timeout_ms, ex, width):
    """first pass over all obligations, then one second chance -- in a fresh process, with another random seed -- for
    every obligation that was lost to a killed / dead worker (z3's sequence solver is unstable on identical input,
    most visibly when the machine is loaded: such a loss says nothing about the obligation).  A second loss stands."""
    _solve_all(obls, timeout_ms, ex, width)
    # (an `unknown` of any kind is not a verdict: z3's sequence solver gives up -- "incomplete (theory seq)" -- or runs into
    #  its budget on one naming of the same formula and decides another in seconds)
    lost = [ob for ob in obls if ob.status == "unknown"]
    if lost and len(lost) <= 12:
        for ob in lost:
            ob.retry_seed = 4711
        _solve_all(lost, timeout_ms, ex, min(width, len(lost)) if len(lost) > 2 else 1)
        for ob in lost:
            if ob.status == "proved":
                ob.backend = (ob.backend or "z3") + " (second attempt)"


def _solve_all(obls, timeout_ms, ex, width):
    """solve obligations with `width` forked workers, each taking a slice (one fork per worker, not per obligation:
    forking a process that holds a large z3 context is expensive).  Workers stream one record per obligation; a worker
    that makes no progress past the budget of its current obligation is killed and its remaining slice restarted."""
    import pickle
    import select
    import signal
    import struct as _st
    if width <= 1 or len(obls) <= 2:
        for ob in obls:
            solve_obligation(ob, timeout_ms, ex=ex)
        return
    fields = ("status", "backend", "time", "inputs", "reason", "candidate_inputs")
    order = sorted(range(len(obls)), key=lambda i: i % width)      # interleave: neighbours (similar cost) spread out
    slices = [[i for i in order if i % width == w] for w in range(width)]
    slices = [sl for sl in slices if sl]
    running = {}        # fd -> dict(pid, buf, todo(list of idx), last(progress time))

    def budget(i):
        return (timeout_ms / 1000.0) * (len(split_goal(obls[i].goal)) + 1) * 1.5 + 30

    def start(todo):
        r, w = os.pipe()
        pid = os.fork()
        if pid == 0:
            os.close(r)
            NO_INNER_FORK[0] = True
            try:
                with os.fdopen(w, "wb") as f:
                    for i in todo:
                        ob = obls[i]
                        try:
                            solve_obligation(ob, timeout_ms, ex=ex)
                            rec = {k: getattr(ob, k, None) for k in fields}
                        except BaseException as e:      # noqa
                            rec = {"status": "unknown", "backend": "z3", "time": 0.0, "reason": "worker error %r" % (e,)}
                        data = pickle.dumps((i, rec))
                        f.write(_st.pack("!I", len(data)) + data)
                        f.flush()
            finally:
                os._exit(0)
        os.close(w)
        running[r] = {"pid": pid, "buf": b"", "todo": list(todo), "last": time.time()}

    for sl in slices:
        start(sl)
    while running:
        rd, _, _ = select.select(list(running.keys()), [], [], 1.0)
        now = time.time()
        for fd in list(running.keys()):
            st = running[fd]
            if fd in rd:
                chunk = os.read(fd, 1 << 16)
                if chunk:
                    st["buf"] += chunk
                    while len(st["buf"]) >= 4:
                        n = _st.unpack("!I", st["buf"][:4])[0]
                        if len(st["buf"]) < 4 + n:
                            break
                        i, rec = pickle.loads(st["buf"][4:4 + n])
                        st["buf"] = st["buf"][4 + n:]
                        for k, v in rec.items():
                            setattr(obls[i], k, v)
                        if i in st["todo"]:
                            st["todo"].remove(i)
                        st["last"] = now
                    continue
                # EOF
                running.pop(fd)
                os.close(fd)
                try:
                    os.waitpid(st["pid"], 0)
                except ChildProcessError:
                    pass
                if st["todo"]:      # worker died early: first pending obligation is the culprit
                    bad = st["todo"].pop(0)
                    obls[bad].status, obls[bad].backend, obls[bad].time = "unknown", "z3", 0.0
                    obls[bad].reason = "solver process died"
                    if st["todo"]:
                        start(st["todo"])
                continue
            if st["todo"] and now - st["last"] > budget(st["todo"][0]):
                running.pop(fd)     # z3 ignored its soft timeout: kill, mark, restart the rest of the slice
                try:
                    os.kill(st["pid"], signal.SIGKILL)
                    os.waitpid(st["pid"], 0)
                except (ProcessLookupError, ChildProcessError):
                    pass
                os.close(fd)
                bad = st["todo"].pop(0)
                obls[bad].status, obls[bad].backend, obls[bad].time = "unknown", "z3", timeout_ms / 1000.0
                obls[bad].reason = "hard timeout (worker killed)"
                if st["todo"]:
                    start(st["todo"])
