"""The symbolic executor (statements, expressions, calls, loops, exceptions)."""
import ast
import os
import sys
import itertools
import z3

from . import loader
from .values import *  # noqa
from .engine import *  # noqa
from . import pyval

BUILTIN_EXC = {
    # name -> base
    "BaseException": None, "Exception": "BaseException", "ArithmeticError": "Exception",
    "ZeroDivisionError": "ArithmeticError", "OverflowError": "ArithmeticError",
    "AssertionError": "Exception", "AttributeError": "Exception", "LookupError": "Exception",
    "IndexError": "LookupError", "KeyError": "LookupError", "NameError": "Exception",
    "UnboundLocalError": "NameError",
    "RuntimeError": "Exception", "NotImplementedError": "RuntimeError", "RecursionError": "RuntimeError",
    "TypeError": "Exception", "ValueError": "Exception", "UnicodeError": "ValueError",
    "UnicodeDecodeError": "UnicodeError", "UnicodeEncodeError": "UnicodeError",
    "StopIteration": "Exception", "OSError": "Exception", "IOError": "Exception",
    "struct.error": "Exception", "binascii.Error": "ValueError", "zlib.error": "Exception",
    "json.JSONDecodeError": "ValueError", "asyncio.InvalidStateError": "Exception",
    "AlreadyCalledError": "Exception", "CancelledError": "BaseException",
}


class _Abort(Exception):
    """Current state became infeasible/definitely raised: unwind to the statement level."""


class Executor:
    def __init__(self, reg, unit_name="?"):
        self.reg = reg
        self.unit_name = unit_name
        self.obls = []
        self.notes = {"externals": set(), "inlined": set(), "havoc_calls": set(), "dropped": set(),
                      "assumed": set(), "contracts_used": set()}
        self.oblig_counts = {}
        self.call_depth = 0
        self.spec_mode = 0          # >0 while evaluating contract clauses (no obligations from partial ops)
        self.old_state = None       # for old(...)
        self.loop_specs = {}
        self.loop_ordinal = 0
        self.loop_maps = {}
        self.unit_env = {}
        self.quant_facts = []       # ranges of the bound variables of enclosing spec quantifiers
        self.spec_partial_ok = 0

    # ------------------------------------------------------------------ obligations
    def oblige(self, kind, state, goal, label=None, info=None):
        key = (kind, label)
        n = self.oblig_counts.get(key, 0)
        self.oblig_counts[key] = n + 1
        name = "%s/%s#%d" % (self.unit_name, kind, n) + ("/" + label if label else "")
        ob = Obligation(name, kind, state.pc, goal, info)
        self.obls.append(ob)
        return ob

    # ------------------------------------------------------------------ exceptions
    def mk_exc(self, state, cls_name, args=(), exact=True, cls=None):
        o = HObj("exc", cls or self.exc_class(state, cls_name))
        o.fields["args"] = VTuple(list(args))
        o.fields["__exact__"] = exact
        o.fields["__line__"] = getattr(self, "cur_line", None)
        return state.alloc(o)

    def exc_class(self, state, name):
        if isinstance(name, VClass):
            return name
        ci = self.reg.find_exception_class(name)
        return VClass(name, ci)

    def class_bases(self, c):
        """set of ancestor names (incl. own) for VClass c."""
        names = {c.name}
        if c.info is not None:
            names |= c.info.base_names()
        # close over builtin hierarchy
        todo = list(names)
        while todo:
            n = todo.pop()
            b = BUILTIN_EXC.get(n)
            if b and b not in names:
                names.add(b)
                todo.append(b)
        return names

    def raise_if(self, state, cond, cls_name, msg=None, args=()):
        """Fork an exceptional outcome under `cond`; continue normally under not cond."""
        if self.spec_mode:
            # clauses are total: a definitely-failing alternative (under its union guard) is dropped
            if is_true(simp(cond)):
                if os.environ.get("PYVC_DEBUG_ABORT"):
                    import traceback
                    sys.stderr.write("spec abort %s: %s\n" % (cls_name, "".join(traceback.format_stack(limit=int(os.environ.get("PYVC_DEBUG_ABORT"))))))
                raise _Abort()
            return
        cond = simp(cond)
        if is_false(cond):
            return
        rs = state.copy()
        rs.assume(cond)
        exc = self.mk_exc(rs, cls_name, args)
        rs.pending = []
        state.pending.append((rs, exc))
        state.assume(z3.Not(cond))
        if is_true(cond):
            raise _Abort()

    def raise_now(self, state, exc):
        rs = state.copy()
        rs.pending = []
        state.pending.append((rs, exc))
        state.pc.append(z3.BoolVal(False))
        raise _Abort()

    def flush(self, state):
        out = [Outcome("raise", s, e) for s, e in state.pending]
        state.pending = []
        return out

    # ------------------------------------------------------------------ truthiness / equality
    def truthy(self, state, v):
        if isinstance(v, VBool):
            return v.t
        if isinstance(v, VInt):
            return v.t != 0
        if isinstance(v, VNoneT):
            return z3.BoolVal(False)
        if isinstance(v, (VBytes, VStr)):
            return z3.Length(v.t) > 0
        if isinstance(v, VABytes):
            return v.n > 0
        if isinstance(v, VListView):
            return self.length(state, v).t > 0
        if isinstance(v, VReal):
            return v.t != 0
        if isinstance(v, VTuple):
            return z3.BoolVal(len(v.items) > 0)
        if isinstance(v, VRef):
            o = state.heap[v.oid]
            if o.kind == "udict":
                return z3.Or(o.other, *o.opt.values())
            if o.kind in ("list", "dict", "barray", "alist", "ulist"):
                return self.length(state, v).t > 0
            return z3.BoolVal(True)
        if isinstance(v, VSym):
            return z3.BoolVal(True)
        if isinstance(v, (VFunc, VClass, VModule)):
            return z3.BoolVal(True)
        if isinstance(v, VDyn):
            return pyval.truthy(v.t)
        if isinstance(v, VUnion):
            return simp(disj([z3.And(g, self.truthy(state, a)) for g, a in v.alts]))
        if isinstance(v, VOpaque):
            if v.tag.startswith("truthval"):
                return z3.Bool("truthy!" + v.tag)       # an immutable value of unknown type: one fixed truth value
            if v.tag.startswith("matchobj"):
                return z3.BoolVal(True)         # re match objects are always truthy
            return z3.Bool(fresh_name("truthy_" + v.tag))
        raise Unsupported("truthy of %r" % (v,))

    def as_bool(self, t):
        return VBool(t)

    def num(self, v):
        """numeric term of an int/bool atom (bool -> 0/1)."""
        if isinstance(v, VInt):
            return v.t
        if isinstance(v, VBool):
            return z3.If(v.t, z3.IntVal(1), z3.IntVal(0))
        if isinstance(v, VReal):
            return v.t
        return None

    def eq_atoms(self, state, a, b):
        """z3 Bool for Python `a == b` on atoms."""
        if isinstance(a, VDyn) or isinstance(b, VDyn):
            return pyval.eq(self, state, a, b)
        ka, kb = a.kind, b.kind
        if ka in ("int", "bool", "real") and kb in ("int", "bool", "real"):
            if ka == "bool" and kb == "bool":
                return a.t == b.t
            x, y = self.num(a), self.num(b)
            if ka == "real" or kb == "real":
                x = z3.ToReal(x) if x.sort() == z3.IntSort() else x
                y = z3.ToReal(y) if y.sort() == z3.IntSort() else y
            return x == y
        if ka != kb:
            if "opaque" in (ka, kb):
                return z3.Bool(fresh_name("eq_opq"))
            return z3.BoolVal(False)
        if ka in ("bytes", "str"):
            return a.t == b.t
        if ka == "abytes":
            i = z3.Int(fresh_name("eq_i"))
            return z3.And(a.n == b.n, z3.ForAll([i], z3.Implies(z3.And(i >= 0, i < a.n),
                                                                z3.Select(a.arr, i) == z3.Select(b.arr, i))))
        if ka == "none":
            return z3.BoolVal(True)
        if ka == "tuple":
            if len(a.items) != len(b.items):
                return z3.BoolVal(False)
            return conj([self.eq(state, x, y) for x, y in zip(a.items, b.items)])
        if ka == "ref":
            if a.oid == b.oid:
                return z3.BoolVal(True)
            oa, ob = state.heap[a.oid], state.heap[b.oid]
            if oa.kind == "list" and ob.kind == "list":
                if oa.items is not None and ob.items is not None:
                    if len(oa.items) != len(ob.items):
                        return z3.BoolVal(False)
                    return conj([self.eq(state, x, y) for x, y in zip(oa.items, ob.items)])
                sa, ea = list_to_seq(oa)
                sb, eb = list_to_seq(ob)
                if ea == eb or (oa.items == [] or ob.items == []):
                    return sa == sb
            if oa.kind == "dict" and ob.kind == "dict" and oa.d is not None and ob.d is not None:
                if set(oa.d) != set(ob.d):
                    return z3.BoolVal(False)
                return conj([self.eq(state, oa.d[k], ob.d[k]) for k in oa.d])
            if oa.kind in ("inst", "exc") or ob.kind in ("inst", "exc"):
                return z3.BoolVal(False)    # identity semantics (no __eq__ modelled)
            fam = {"list": "list", "ulist": "list", "dict": "dict", "udict": "dict"}
            if oa.kind in fam and ob.kind in fam and fam[oa.kind] != fam[ob.kind]:
                return z3.BoolVal(False)    # a list never equals a dict
            if {oa.kind, ob.kind} == {"dict", "udict"}:
                c, u = (oa, ob) if oa.kind == "dict" else (ob, oa)
                if c.d is not None and c.sym is None and not getattr(c, "opt", None) and all(k in u.d for k in c.d):
                    # a dict with known keys equals an untrusted one iff the latter holds exactly those keys, same values
                    parts = [z3.Not(u.other)]
                    for k in u.d:
                        parts.append(z3.And(u.opt[k], self.eq(state, c.d[k], u.d[k])) if k in c.d else z3.Not(u.opt[k]))
                    return z3.And(*parts)
            if oa.kind in ("ulist", "udict") or ob.kind in ("ulist", "udict"):
                # two distinct untrusted containers (nothing is known about their contents): unknown, but one answer
                return z3.Bool("eq!%d!%d" % (min(a.oid, b.oid), max(a.oid, b.oid)))
            raise Unsupported("== on heap objects %s/%s" % (oa.kind, ob.kind))
        if ka == "sym":
            return a.t == b.t
        if ka == "class":
            return z3.BoolVal(a.name == b.name)
        if ka == "func":
            return z3.BoolVal(a is b)
        if ka == "opaque":
            return z3.BoolVal(True) if a.tag == b.tag else z3.Bool(fresh_name("eq_opq"))
        raise Unsupported("== on %s" % ka)

    def eq(self, state, a, b):
        if a is b and not isinstance(a, VOpaque):
            return z3.BoolVal(True)
        res = []
        for (g1, x), (g2, y) in itertools.product(alts_of(a), alts_of(b)):
            g = simp(z3.And(g1, g2))
            if is_false(g):
                continue
            res.append(z3.And(g, self.eq_atoms(state, x, y)))
        return simp(disj(res))

    def is_(self, state, a, b):
        """Python `a is b`."""
        res = []
        for (g1, x), (g2, y) in itertools.product(alts_of(a), alts_of(b)):
            g = simp(z3.And(g1, g2))
            if is_false(g):
                continue
            if x.kind != y.kind:
                if isinstance(x, VDyn) or isinstance(y, VDyn):
                    r = pyval.is_(x, y)
                elif "opaque" in (x.kind, y.kind):
                    r = z3.Bool(fresh_name("is_opq"))
                else:
                    r = z3.BoolVal(False)
            elif x.kind == "none":
                r = z3.BoolVal(True)
            elif x.kind == "bool":
                r = x.t == y.t
            elif x.kind == "ref":
                r = z3.BoolVal(x.oid == y.oid)
            elif x.kind in ("int", "sym"):
                r = x.t == y.t
            elif x.kind == "class":
                r = z3.BoolVal(x.name == y.name)
            elif x.kind == "dyn":
                r = pyval.is_(x, y)
            elif x.kind == "opaque":
                r = z3.BoolVal(True) if x.tag == y.tag else z3.Bool(fresh_name("is_opq"))
            elif x.kind in ("bytes", "str", "real") and self.spec_mode:
                r = x.t == y.t          # in clauses `is` on immutable values means "the same value"
            elif x.kind in ("bytes", "str", "tuple"):
                r = z3.BoolVal(True) if same_atom(x, y) else z3.Bool(fresh_name("is_val"))
            elif x.kind == "func":
                r = z3.BoolVal(x is y)
            else:
                raise Unsupported("is on %s" % x.kind)
            res.append(z3.And(g, r))
        return simp(disj(res))

    # ------------------------------------------------------------------ cheap entailment (term shaping only)
    def prove_quick(self, state, cond, timeout_ms=400):
        """True if the quantifier-free part of the path condition entails cond (best effort; used only to
        choose simpler but equivalent terms, never to drop an obligation)"""
        c = simp(cond)
        if is_true(c):
            return True
        s = z3.Solver()
        s.set("timeout", timeout_ms)
        for t in state.pc:
            if not _has_quant_or_rec(t):
                s.add(t)
        for t in self.quant_facts:
            s.add(t)
        s.add(z3.Not(c))
        try:
            return s.check() == z3.unsat
        except z3.Z3Exception:
            return False

    def narrow(self, state, v):
        """drop the alternatives of a union whose guard is refuted by the path condition (equivalent value)"""
        if not isinstance(v, VUnion):
            return v
        keep = [(g, a) for g, a in v.alts if not self.prove_quick(state, z3.Not(g))]
        if len(keep) == len(v.alts) or not keep:
            return v
        if len(keep) == 1:
            return keep[0][1]
        return mk_union(keep)

    def index_term(self, state, i, n):
        """normalised Python index: i if provably >= 0, else If(i < 0, i + n, i)"""
        i = simp(i)
        if z3.is_int_value(i):
            return i if i.as_long() >= 0 else simp(i + n)
        if self.prove_quick(state, i >= 0):
            return i
        return z3.If(i < 0, i + n, i)

    # ------------------------------------------------------------------ distribution over unions
    def dist(self, state, vals, fn):
        if not any(isinstance(v, VUnion) for v in vals):
            return fn(*vals)
        results = []
        for combo in itertools.product(*[alts_of(v) for v in vals]):
            g = simp(conj([c[0] for c in combo]))
            if is_false(g):
                continue
            n = len(state.pc)
            state.pc.append(g)
            try:
                r = fn(*[c[1] for c in combo])
            except _Abort:
                if self.spec_mode and not self.spec_partial_ok:
                    # a clause must be well-defined: the failing alternative has to be unreachable here
                    pcs = _pc_state(state.pc[:n] + list(self.quant_facts))   # incl. guards of enclosing implies/forall
                    if not self.prove_quick(pcs, z3.Not(g)):
                        self.spec_mode, sm = 0, self.spec_mode
                        self.oblige("spec-defined", pcs, simp(z3.Not(g)),
                                    info={"clause": getattr(self, "cur_clause", None),
                                          "undefined_for": ", ".join(repr(c[1])[:80] for c in combo)})
                        self.spec_mode = sm
                state.pc = state.pc[:n] + [simp(z3.Not(g))]
                continue
            except Unsupported:
                # an alternative outside the modelled subset is harmless only if its guard is refuted by the path
                # condition *without* the guard itself (never leave the guard behind: it would make the whole state
                # look infeasible to the caller)
                state.pc = state.pc[:n]
                # (generous second budget: this decision must not flip when the machine is busy)
                if self.prove_quick(state, z3.Not(g), timeout_ms=1000) or self.prove_quick(state, z3.Not(g), timeout_ms=10000):
                    continue
                raise
            except BaseException:
                state.pc = state.pc[:n]
                raise
            new = state.pc[n + 1:]
            state.pc = state.pc[:n] + [z3.Implies(g, e) for e in new]
            results.append((g, r))
        if not results:
            raise _Abort()
        return mk_union(results)

    # ------------------------------------------------------------------ fresh symbolic values
    def fresh(self, state, typ, name):
        """Fresh symbolic value of a declared type (see contracts.Shape for the type grammar)."""
        return self.reg.fresh(self, state, typ, name)

    # ------------------------------------------------------------------ length
    def length(self, state, v):
        def f(a):
            if isinstance(a, VBytes) and not self.spec_mode:
                from .ops import seq_len
                return VInt(seq_len(self, state, a.t))
            if isinstance(a, (VBytes, VStr)):
                return VInt(z3.Length(a.t))
            if isinstance(a, VABytes):
                return VInt(a.n)
            if isinstance(a, VListView):
                from . import models
                return VInt(z3.Length(models.lv_seq(self, state, a)))
            if isinstance(a, VTuple):
                return VInt(len(a.items))
            if isinstance(a, VRef):
                o = state.heap[a.oid]
                if o.kind == "inst" and o.shape is not None and "__len__" in self.reg.shapes[o.shape].methods:
                    ext = self.reg.externals[self.reg.shapes[o.shape].methods["__len__"]]
                    return ext(self, state, [], {}, a)
                if o.kind == "list":
                    return VInt(len(o.items)) if o.items is not None else VInt(z3.Length(o.seq))
                if o.kind == "ulist":
                    return VInt(o.n)
                if o.kind == "dict":
                    if getattr(o, "open", False):
                        raise Unsupported("len() of an untrusted dict")
                    if o.d is not None:
                        return VInt(len(o.d))
                    return VInt(self.sym_dict_len(state, o))
                if o.kind in ("barray", "alist"):
                    return VInt(o.n)
            if isinstance(a, VDyn):
                return pyval.length(self, state, a)
            if isinstance(a, VOpaque):
                t = z3.Int(fresh_name("len_opq"))
                state.assume(t >= 0)
                return VInt(t)
            self.raise_if(state, z3.BoolVal(True), "TypeError")
        return self.dist(state, [v], f)

    def sym_dict_len(self, state, o):
        """len() of a symbolic table: a natural number that is 0 exactly when no key is present (cached per version
        of the key set)"""
        key = o.sym["has"].get_id()
        cached = getattr(o, "len_cache", None)
        if cached is not None and cached[0] == key:
            return cached[1]
        n = z3.Int(fresh_name("dict_len"))
        k = z3.Const(fresh_name("lk"), o.sym["has"].sort().domain())
        state.assume(n >= 0)
        state.assume(z3.ForAll([k], z3.Implies(z3.Select(o.sym["has"], k), n > 0), patterns=[z3.Select(o.sym["has"], k)]))
        state.assume(z3.Implies(n > 0, z3.Exists([k], z3.Select(o.sym["has"], k))))
        o.len_cache = (key, n)
        return n

    # ------------------------------------------------------------------ statements
    def exec_block(self, state, stmts, merge_last=True):
        """Execute a statement list; returns outcomes.  Normal outcomes are merged between statements
        (merge_last=False: the normal outcomes of the last statement stay separate -- one exit per path)."""
        outs = []
        cur = state
        for i, st in enumerate(stmts):
            if cur is None:
                break
            res = self.exec_stmt(cur, st)
            normals = []
            for o in res:
                if o.kind == "normal":
                    normals.append(o.state)
                else:
                    if not o.state.dead():
                        outs.append(o)
            if not merge_last and i == len(stmts) - 1:
                outs.extend(Outcome("normal", s_) for s_ in normals if not s_.dead())
                return outs
            cur = merge_states(normals) if normals else None
        if cur is not None and not cur.dead():
            outs.append(Outcome("normal", cur))
        return outs

    def exec_stmt(self, state, st):
        m = getattr(self, "st_" + type(st).__name__, None)
        if m is None:
            raise Unsupported("statement %s (line %d)" % (type(st).__name__, st.lineno))
        if not self.spec_mode and not (state.frame.module or "").startswith("specs"):
            self.cur_line = "%s:%d" % (state.frame.module, st.lineno)
        try:
            outs = m(state, st)
        except _Abort:
            outs = []
        extra = self.flush(state)
        return [o for o in (outs + extra) if not o.state.dead()]

    def st_Pass(self, state, st):
        return [Outcome("normal", state)]

    def st_Expr(self, state, st):
        if isinstance(st.value, ast.Constant):
            return [Outcome("normal", state)]     # docstring
        self.ev(state, st.value)
        return [Outcome("normal", state)]

    def st_Assign(self, state, st):
        v = self.ev(state, st.value)
        for t in st.targets:
            self.assign(state, t, v)
        return [Outcome("normal", state)]

    def st_AnnAssign(self, state, st):
        if st.value is not None:
            v = self.ev(state, st.value)
            self.assign(state, st.target, v)
        return [Outcome("normal", state)]

    def st_AugAssign(self, state, st):
        load = _to_load(st.target)
        cur = self.ev(state, load)
        rhs = self.ev(state, st.value)
        v = self.binop(state, st.op, cur, rhs, inplace=True)
        if v is not None:
            self.assign(state, st.target, v)
        return [Outcome("normal", state)]

    def st_Return(self, state, st):
        v = self.ev(state, st.value) if st.value is not None else VNone
        return [Outcome("return", state, v)]

    def st_Break(self, state, st):
        return [Outcome("break", state)]

    def st_Continue(self, state, st):
        return [Outcome("continue", state)]

    def st_Global(self, state, st):
        raise Unsupported("global statement")

    def st_Nonlocal(self, state, st):
        state.frame.locals.setdefault("__nonlocal__", set())
        state.frame.locals["__nonlocal__"] = set(state.frame.locals["__nonlocal__"]) | set(st.names)
        return [Outcome("normal", state)]

    def st_Import(self, state, st):
        for a in st.names:
            state.frame.locals[a.asname or a.name.split(".")[0]] = VModule(a.name if a.asname else a.name.split(".")[0])
        return [Outcome("normal", state)]

    def st_ImportFrom(self, state, st):
        for a in st.names:
            state.frame.locals[a.asname or a.name] = self.resolve_dotted(state, (st.module or "") + "." + a.name)
        return [Outcome("normal", state)]

    def st_Delete(self, state, st):
        for t in st.targets:
            if isinstance(t, ast.Subscript):
                obj = self.ev(state, t.value)
                key = self.ev(state, t.slice)
                self.del_item(state, obj, key)
            elif isinstance(t, ast.Name):
                state.frame.locals.pop(t.id, None)
            elif isinstance(t, ast.Attribute):
                obj = self.ev(state, t.value)
                if isinstance(obj, VRef):
                    state.heap[obj.oid].fields.pop(t.attr, None)
                else:
                    raise Unsupported("del attribute")
            else:
                raise Unsupported("del target")
        return [Outcome("normal", state)]

    def st_Assert(self, state, st):
        c = self.truthy(state, self.ev(state, st.test))
        if self.reg.assert_mode(self.unit_name) == "oblige":
            self.oblige("assert", state, c, info={"line": st.lineno})
            state.assume(c)
        else:
            self.raise_if(state, z3.Not(c), "AssertionError")
        return [Outcome("normal", state)]

    def st_FunctionDef(self, state, st):
        fi = loader.FuncInfo(state.frame.module, (state.frame.finfo.qualpath + "/" if state.frame.finfo else "") + st.name,
                             st, state.frame.finfo.cls if state.frame.finfo else None, outer=state.frame.finfo)
        state.frame.locals[st.name] = VFunc("closure", st.name, finfo=fi, env=state.frame)
        return [Outcome("normal", state)]

    def st_Raise(self, state, st):
        if st.exc is None:
            cur = state.frame.locals.get("__current_exc__")
            if cur is None:
                raise Unsupported("bare raise outside handler")
            return [Outcome("raise", state, cur)]
        v = self.ev(state, st.exc)
        if isinstance(v, VClass):
            v = self.instantiate(state, v, [], {})
        if st.cause is not None:
            self.ev(state, st.cause)
        return [Outcome("raise", state, v)]

    def st_If(self, state, st):
        c = simp(self.truthy(state, self.ev(state, st.test)))
        outs = self.flush(state)
        if is_true(c):
            return outs + self.exec_block(state, st.body)
        if is_false(c):
            return outs + self.exec_block(state, st.orelse)
        if not self.spec_mode and len(state.pc) < 400:
            # branch decided by the path condition (e.g. by `requires`): do not explore the dead arm
            if self.prove_quick(state, c, timeout_ms=100):
                return outs + self.exec_block(state, st.body)
            if self.prove_quick(state, z3.Not(c), timeout_ms=100):
                return outs + self.exec_block(state, st.orelse)
        s2 = state.copy()
        state.assume(c)
        s2.assume(z3.Not(c))
        o1 = self._branch(state, st.body)
        o2 = self._branch(s2, st.orelse) if st.orelse else [Outcome("normal", s2)]
        normals = [o.state for o in o1 + o2 if o.kind == "normal"]
        rest = [o for o in o1 + o2 if o.kind != "normal"]
        m = merge_states(normals) if normals else None
        if m is not None:
            rest.append(Outcome("normal", m))
        return outs + rest

    def _branch(self, state, stmts):
        """a branch that leaves the modelled subset is only a problem if it is reachable"""
        try:
            return self.exec_block(state, stmts)
        except Unsupported:
            if self.prove_quick(state, z3.BoolVal(False), timeout_ms=1000):
                return []           # infeasible under the path condition (e.g. excluded by `requires`)
            raise

    def st_Try(self, state, st):
        outs = []
        body_outs = self.exec_block(state, st.body)
        after = []
        for o in body_outs:
            if o.kind == "raise":
                after.extend(self.dispatch_handlers(o, st.handlers))
            elif o.kind == "normal" and st.orelse:
                after.extend(self.exec_block(o.state, st.orelse))
            else:
                after.append(o)
        if st.finalbody:
            res = []
            # merge normal outcomes first to limit duplication
            normals = [o.state for o in after if o.kind == "normal"]
            others = [o for o in after if o.kind != "normal"]
            if normals:
                m = merge_states(normals)
                if m is not None:
                    res.extend(self.exec_block(m, st.finalbody))
            for o in others:
                fo = self.exec_block(o.state, st.finalbody)
                for f in fo:
                    if f.kind == "normal":
                        res.append(Outcome(o.kind, f.state, o.val))
                    else:
                        res.append(f)
            after = res
        return outs + after

    def exc_matches(self, state, exc, type_val):
        """(definitely?, possibly?) match of exception object against handler type value."""
        o = state.heap[exc.oid]
        names = self.class_bases(o.cls)
        tnames = []
        if isinstance(type_val, VTuple):
            tvs = type_val.items
        else:
            tvs = [type_val]
        definite = False
        possible = False
        for tv in tvs:
            if isinstance(tv, VOpaque):
                possible = True
                continue
            if isinstance(tv, VModule) and tv.name.split(".")[-1] in BUILTIN_EXC:
                tv = VClass(tv.name.split(".")[-1], None)       # exception class imported from outside the repository
            if not isinstance(tv, VClass):
                raise Unsupported("except clause type %r" % (tv,))
            if tv.name in names:
                definite = True
            elif not o.fields.get("__exact__", True):
                # exception of unknown subclass of o.cls: may be a tv if tv is a subclass of o.cls
                if o.cls.name in self.class_bases(tv):
                    possible = True
        return definite, possible or definite

    def dispatch_handlers(self, o, handlers):
        state, exc = o.state, o.val
        for h in handlers:
            if h.type is None:
                definite, possible = True, True
            else:
                tv = self.ev(state, h.type)
                definite, possible = self.exc_matches(state, exc, tv)
            if not possible:
                continue
            if definite:
                return self.run_handler(state, exc, h)
            # maybe: fork on a fresh boolean
            b = z3.Bool(fresh_name("exc_is_%s" % (ast.unparse(h.type))))
            s2 = state.copy()
            state.assume(b)
            s2.assume(z3.Not(b))
            # refine class in the catching branch
            res = self.run_handler(state, exc, h)
            return res + self.dispatch_handlers(Outcome("raise", s2, exc), handlers[handlers.index(h) + 1:])
        return [o]

    def run_handler(self, state, exc, h):
        saved = state.frame.locals.get("__current_exc__")
        state.frame.locals["__current_exc__"] = exc
        if h.name:
            state.frame.locals[h.name] = exc
        outs = self.exec_block(state, h.body)
        for oo in outs:
            if oo.state.frames and oo.state.frame.locals.get("__current_exc__") is exc:
                if saved is None:
                    oo.state.frame.locals.pop("__current_exc__", None)
                else:
                    oo.state.frame.locals["__current_exc__"] = saved
        return outs

    def st_With(self, state, st):
        raise Unsupported("with statement (line %d)" % st.lineno)

    # ---------------- loops
    def st_While(self, state, st):
        return self.loop(state, st, kind="while")

    def st_For(self, state, st):
        return self.loop(state, st, kind="for")

    def loop(self, state, st, kind):
        from .loops import exec_loop
        return exec_loop(self, state, st, kind)

    # ------------------------------------------------------------------ assignment
    def assign(self, state, target, v):
        if isinstance(target, ast.Name):
            fr = state.frame
            nl = fr.locals.get("__nonlocal__")
            if nl and target.id in nl:
                f = fr.closure
                while f is not None:
                    if target.id in f.locals:
                        f.locals[target.id] = v
                        return
                    f = f.closure
                raise Unsupported("nonlocal target not found")
            fr.locals[target.id] = v
        elif isinstance(target, (ast.Tuple, ast.List)):
            items = self.unpack(state, v, len(target.elts))
            for t, x in zip(target.elts, items):
                self.assign(state, t, x)
        elif isinstance(target, ast.Attribute):
            obj = self.ev(state, target.value)
            self.setattr_(state, obj, target.attr, v)
        elif isinstance(target, ast.Subscript):
            obj = self.ev(state, target.value)
            key = self.ev(state, target.slice)
            self.set_item(state, obj, key, v)
        else:
            raise Unsupported("assignment target %s" % type(target).__name__)

    def unpack(self, state, v, n):
        def f(a):
            if isinstance(a, VTuple):
                if len(a.items) != n:
                    self.raise_if(state, z3.BoolVal(True), "ValueError")
                return VTuple(a.items)
            if isinstance(a, VRef) and state.heap[a.oid].kind == "list" and state.heap[a.oid].items is not None:
                items = state.heap[a.oid].items
                if len(items) != n:
                    self.raise_if(state, z3.BoolVal(True), "ValueError")
                return VTuple(items)
            if isinstance(a, VOpaque):
                return VTuple([VOpaque() for _ in range(n)])
            if isinstance(a, VDyn):
                return pyval.unpack(self, state, a, n)
            if isinstance(a, VRef) and state.heap[a.oid].kind == "list" and state.heap[a.oid].seq is not None:
                # a list of symbolic length: ValueError unless it has exactly n elements
                o = state.heap[a.oid]
                self.raise_if(state, z3.Length(o.seq) != n, "ValueError")
                from .ops import value_of_elem
                return VTuple([value_of_elem(o.elem, o.seq[i]) for i in range(n)])
            raise Unsupported("unpack of %r" % (a,))
        r = self.dist(state, [v], f)
        if isinstance(r, VTuple):
            return r.items
        raise Unsupported("unpack of union")

    def setattr_(self, state, obj, attr, v):
        if isinstance(obj, VRef):
            o = state.heap[obj.oid]
            if o.frozen:
                raise Unsupported("write to frozen object")
            o.fields[attr] = v
            return
        if isinstance(obj, VSym):
            self.reg.sym_store(self, state, obj, attr, v)
            return
        if isinstance(obj, VUnion):
            for g, a in obj.alts:
                if isinstance(a, VRef):
                    o = state.heap[a.oid]
                    old = o.fields.get(attr)
                    o.fields[attr] = v if old is None else merge2(g, v, old)
                elif isinstance(a, VNoneT):
                    self.raise_if(state, g, "AttributeError")
                elif isinstance(a, VSym):
                    self.reg.sym_store(self, state, a, attr, v, guard=g)
                else:
                    raise Unsupported("setattr on %r" % (a,))
            return
        if isinstance(obj, VNoneT):
            self.raise_if(state, z3.BoolVal(True), "AttributeError")
        if isinstance(obj, VOpaque):
            return
        raise Unsupported("setattr on %r" % (obj,))

    # ------------------------------------------------------------------ expressions
    def ev(self, state, e):
        m = getattr(self, "ex_" + type(e).__name__, None)
        if m is None:
            raise Unsupported("expression %s (line %d)" % (type(e).__name__, getattr(e, "lineno", 0)))
        return m(state, e)

    def ex_Constant(self, state, e):
        return self.const(e.value)

    def const(self, c):
        if c is None:
            return VNone
        if isinstance(c, bool):
            return VBool(c)
        if isinstance(c, int):
            return VInt(c)
        if isinstance(c, float):
            return VReal(c)
        if isinstance(c, bytes):
            return VBytes(c)
        if isinstance(c, str):
            return VStr(c)
        if c is Ellipsis:
            return VOpaque("ellipsis")
        if isinstance(c, tuple):
            return VTuple([self.const(x) for x in c])
        raise Unsupported("constant %r" % (c,))

    def ex_Name(self, state, e):
        return self.lookup(state, e.id)

    def lookup(self, state, name):
        fr = state.frame
        f = fr
        while f is not None:
            if name in f.locals:
                v = f.locals[name]
                return v
            f = f.closure
        # special forms available in spec frames
        if name in self.reg.spec_builtins:
            return VFunc("builtin", name)
        mod = fr.module
        if mod is not None:
            v = self.module_attr(state, mod, name, missing_ok=True)
            if v is not None:
                return v
        from . import models
        if name in ("int", "str", "bytes", "bool", "float", "list", "dict", "tuple", "set", "frozenset", "type", "object", "memoryview"):
            return VClass(name)         # builtin types: classes (isinstance / type() ==) that are also callable
        if name in models.BUILTINS or name in self.reg.externals:
            return VFunc("builtin", name)
        if name in BUILTIN_EXC or name in ("object", "int", "str", "bytes", "bool", "float", "list", "dict", "tuple", "set",
                                           "bytearray", "type", "frozenset"):
            return VClass(name)
        if self.spec_mode and self.reg.spec_lookup(name) is not None:
            return self.reg.spec_lookup(name)
        raise Unsupported("unknown name %s" % name)

    def module_attr(self, state, mod, name, missing_ok=False):
        v = self.reg.module_override(mod, name)
        if v is not None:
            return v
        mi = loader.load_module(mod)
        if mi is None:
            # external module
            return VFunc("builtin", mod + "." + name) if not missing_ok else None
        node = mi.lookup(name, getattr(self.reg, "name_prefer", {}).get((mod, name), "else"))
        if node is not None:
            if isinstance(node, (ast.FunctionDef, ast.AsyncFunctionDef)):
                return VFunc("repo", name, finfo=loader.FuncInfo(mod, name, node))
            if isinstance(node, ast.ClassDef):
                return VClass(name, loader.get_class(mod, name))
            # module-level constant: evaluate its expression in a module frame
            val = node.value
            return self.module_const(state, mod, name, val)
        tgt = mi.imports.get(name)
        if tgt is not None:
            return self.resolve_dotted(state, tgt)
        if loader.is_repo_module(mod + "." + name):
            return VModule(mod + "." + name)        # submodule of a package
        if missing_ok:
            return None
        raise Unsupported("unknown attribute %s.%s" % (mod, name))

    def module_const(self, state, mod, name, expr):
        key = (mod, name)
        cache = self.reg.const_cache
        if key in cache:
            return cache[key]
        fr = Frame(None)
        fr.module = mod
        if "." in name:
            # class attribute: bare names in its expression refer to earlier attributes of the same class body
            cname = name.split(".")[0]
            ci = loader.get_class(mod, cname)
            if ci is not None:
                for n in ast.walk(expr):
                    if isinstance(n, ast.Name) and n.id in ci.attrs and n.id != name.split(".")[1]:
                        fr.locals[n.id] = self.module_const(state, mod, cname + "." + n.id, ci.attrs[n.id])
        state.frames.append(fr)
        try:
            self.spec_mode += 1
            v = self.ev(state, expr)
        finally:
            self.spec_mode -= 1
            state.frames.pop()
        if isinstance(v, VRef):
            state.heap[v.oid].frozen = True   # module-level containers are treated as constants
            self.reg.const_objs[v.oid] = state.heap[v.oid]
        cache[key] = v
        return v

    def resolve_dotted(self, state, dotted):
        """'autobahn.util.encode_truncate' / 'struct' / 'autobahn.wamp.message' -> value."""
        if loader.is_repo_module(dotted):
            return VModule(dotted)
        if "." in dotted:
            m, n = dotted.rsplit(".", 1)
            if loader.is_repo_module(m):
                return self.module_attr(state, m, n)
            from . import models
            if dotted in BUILTIN_EXC or self.reg.find_exception_class(n) is not None and not loader.is_repo_module(m):
                return VClass(dotted if dotted in BUILTIN_EXC else n, self.reg.find_exception_class(n))
            if dotted in models.BUILTINS or dotted in self.reg.externals:
                return VFunc("builtin", dotted)
            if dotted in models.EXTERNAL_CLASSES:
                return VClass(dotted)
            if dotted in models.EXTERNAL_CONSTS:
                return self.const(models.EXTERNAL_CONSTS[dotted])       # documented constants of the standard library
            return VModule(dotted)
        return VModule(dotted)

    def ex_Attribute(self, state, e):
        v = self.ev(state, e.value)
        return self.getattr_(state, v, e.attr)

    def getattr_(self, state, v, attr):
        return self.dist(state, [v], lambda a: self.getattr_atom(state, a, attr))

    def getattr_atom(self, state, a, attr):
        from . import models
        if isinstance(a, VRef):
            o = self.obj(state, a)
            if attr in o.fields:
                return o.fields[attr]
            if o.kind == "inst" and o.shape is not None:
                ext = self.reg.virtual_method(o.shape, attr)     # declared dispatch targets win over class methods
                if ext is not None:
                    return VFunc("virtual", attr, self_val=a, spec=ext)
            if o.kind in ("inst", "exc") and o.cls is not None and o.cls.info is not None:
                if attr == "__class__":
                    return o.cls
                c, m = o.cls.info.find_method(attr)
                if m is not None:
                    if any(isinstance(d, ast.Name) and d.id == "property" for d in m.decorator_list):
                        fv = VFunc("repo", attr, finfo=loader.FuncInfo(c.module, c.name + "." + attr, m, c), self_val=a)
                        return self.call(state, fv, [], {})
                    if any(isinstance(d, ast.Name) and d.id == "staticmethod" for d in m.decorator_list):
                        return VFunc("repo", attr, finfo=loader.FuncInfo(c.module, c.name + "." + attr, m, c))
                    if any(isinstance(d, ast.Name) and d.id == "classmethod" for d in m.decorator_list):
                        return VFunc("repo", attr, finfo=loader.FuncInfo(c.module, c.name + "." + attr, m, c), self_val=o.cls)
                    return VFunc("repo", attr, finfo=loader.FuncInfo(c.module, c.name + "." + attr, m, c), self_val=a,
                                 dyn_cls=o.cls.info)
                c, ex = o.cls.info.find_attr(attr)
                if ex is not None:
                    return self.module_const(state, c.module, c.name + "." + attr, ex)
            if o.kind == "exc" and attr == "args":
                return o.fields.get("args", VTuple([]))
            if o.kind in ("list", "dict", "barray", "alist", "udict", "ulist"):
                return VFunc("builtin", o.kind + "." + attr, self_val=a)
            if o.kind in ("inst",) and o.shape is not None:
                ext = self.reg.virtual_method(o.shape, attr)
                if ext is not None:
                    return VFunc("virtual", attr, self_val=a, spec=ext)
                if self.spec_mode:
                    # a clause reading a field the alternative does not have must guard the read (spec-defined)
                    self.raise_if(state, z3.BoolVal(True), "AttributeError")
                if getattr(self.reg.shapes[o.shape], "open_attrs", False):
                    # declared open: the object may carry further attributes the contract says nothing about
                    v = VOpaque(fresh_name("attr_" + attr))
                    o.fields[attr] = v
                    return v
                raise Unsupported("attribute %s not declared in shape %s" % (attr, o.shape))
            if o.kind == "exc" or self.spec_mode:
                self.raise_if(state, z3.BoolVal(True), "AttributeError")
            raise Unsupported("attribute %s on object %r" % (attr, o.cls))
        if isinstance(a, VSym):
            if attr == "addr" and self.spec_mode:
                return VInt(a.t)        # the record's address (spec language only)
            if attr == "__class__":
                return VOpaque("class_of_record")
            sh = self.reg.shapes.get(a.shape)
            if sh is not None and attr not in sh.fields:
                ext = sh.methods.get(attr)
                if ext is not None:
                    return VFunc("virtual", attr, self_val=a, spec=ext)
                if sh.cls:
                    mod, cn = sh.cls.split(":")
                    ci = loader.get_class(mod, cn)
                    c, m = ci.find_method(attr) if ci is not None else (None, None)
                    if m is not None:
                        return VFunc("repo", attr, finfo=loader.FuncInfo(c.module, c.name + "." + attr, m, c), self_val=a)
            return self.reg.sym_load(self, state, a, attr)
        if isinstance(a, VModule):
            if loader.is_repo_module(a.name):
                return self.module_attr(state, a.name, attr)
            return self.resolve_dotted(state, a.name + "." + attr)
        if isinstance(a, VClass):
            if attr == "__name__":
                return VStr(a.name.split(".")[-1])
            if a.info is not None:
                c, m = a.info.find_method(attr)
                if m is not None:
                    is_cm = any(isinstance(d, ast.Name) and d.id == "classmethod" for d in m.decorator_list)
                    fv = VFunc("repo", attr, finfo=loader.FuncInfo(c.module, c.name + "." + attr, m, c))
                    if is_cm:
                        fv.self_val = a
                    return fv
                c, ex = a.info.find_attr(attr)
                if ex is not None:
                    return self.module_const(state, c.module, c.name + "." + attr, ex)
            if (a.name + "." + attr) in models.BUILTINS or (a.name + "." + attr) in self.reg.externals:
                return VFunc("builtin", a.name + "." + attr)
            if (a.name + "." + attr) in getattr(self.reg, "class_consts", {}):
                return self.const(self.reg.class_consts[a.name + "." + attr])     # declared constant of an external class
            raise Unsupported("class attribute %s.%s" % (a.name, attr))
        if isinstance(a, (VBytes, VStr, VInt, VTuple, VReal)):
            return VFunc("builtin", a.kind + "." + attr, self_val=a)
        if isinstance(a, VABytes):
            return VFunc("builtin", "bytes." + attr, self_val=a)
        if isinstance(a, VListView):
            return VFunc("builtin", "listview." + attr, self_val=a)
        if isinstance(a, VRegex):
            if attr == "pattern":
                return VStr(a.compiled.pattern)
            return VFunc("builtin", "regex." + attr, self_val=a)
        if isinstance(a, VNoneT):
            self.raise_if(state, z3.BoolVal(True), "AttributeError")
        if isinstance(a, VOpaque):
            return VOpaque()
        if isinstance(a, VDyn):
            return pyval.getattr_(self, state, a, attr)
        if isinstance(a, VFunc):
            if a.fkind == "logger":
                return a
            if attr == "__name__":
                return VStr(a.name)
            return VOpaque()
        raise Unsupported("getattr %s on %r" % (attr, a))

    def obj(self, state, ref):
        o = state.heap.get(ref.oid)
        if o is None:
            o = self.reg.const_objs.get(ref.oid)
            if o is None:
                raise Unsupported("dangling reference")
        return o

    def ex_JoinedStr(self, state, e):
        if len(e.values) == 1 and isinstance(e.values[0], ast.FormattedValue) and e.values[0].format_spec is not None:
            fs = e.values[0].format_spec
            if len(fs.values) == 1 and isinstance(fs.values[0], ast.Constant) and fs.values[0].value == "06d":
                v = self.ev(state, e.values[0].value)
                if isinstance(v, VInt):
                    from . import natives
                    self.raise_if(state, v.t < 0, "Unsupported-negative-format")
                    return VStr(natives.fmt06d(v.t))
        vals = []
        for part in e.values:
            if isinstance(part, ast.FormattedValue):
                vals.append((part, self.ev(state, part.value)))
        if all(isinstance(p, ast.Constant) for p in e.values):
            return VStr("".join(p.value for p in e.values))
        # literal text and plain {int} / {str} fields: the exact string; anything else stays opaque
        if all(p.format_spec is None and p.conversion == -1 and isinstance(v, (VInt, VStr)) and not isinstance(v, VBool)
               for p, v in vals):
            parts = []
            it = iter(vals)
            for p in e.values:
                if isinstance(p, ast.Constant):
                    parts.append(z3.StringVal(p.value))
                else:
                    v = next(it)[1]
                    if isinstance(v, VStr):
                        parts.append(v.t)
                    else:
                        parts.append(z3.If(v.t >= 0, z3.IntToStr(v.t), z3.Concat(z3.StringVal("-"), z3.IntToStr(-v.t))))
            return VStr(parts[0] if len(parts) == 1 else z3.Concat(*parts))
        self.notes["dropped"].add("f-string contents (opaque str)")
        return VStr(z3.String(fresh_name("fstr")))

    def ex_Tuple(self, state, e):
        items = []
        for x in e.elts:
            if isinstance(x, ast.Starred):
                sv = self.ev(state, x.value)
                items.extend(self.iter_concrete(state, sv))
            else:
                items.append(self.ev(state, x))
        return VTuple(items)

    def ex_List(self, state, e):
        items = []
        for x in e.elts:
            if isinstance(x, ast.Starred):
                items.extend(self.iter_concrete(state, self.ev(state, x.value)))
            else:
                items.append(self.ev(state, x))
        o = HObj("list")
        o.items = items
        return state.alloc(o)

    def ex_Set(self, state, e):
        return VTuple([self.ev(state, x) for x in e.elts])

    def ex_Dict(self, state, e):
        o = HObj("dict")
        o.d = {}
        for k, v in zip(e.keys, e.values):
            if k is None:
                src = self.ev(state, v)
                so = state.heap[src.oid] if isinstance(src, VRef) else None
                if so is None or so.d is None:
                    raise Unsupported("** of non-concrete dict")
                o.d.update(so.d)
                continue
            kv = self.ev(state, k)
            ck = self.const_key(kv)
            o.d[ck] = self.ev(state, v)
        return state.alloc(o)

    def const_key(self, kv):
        if isinstance(kv, VStr) and z3.is_string_value(kv.t):
            return kv.t.as_string()
        if isinstance(kv, VInt) and z3.is_int_value(kv.t):
            return kv.t.as_long()
        if isinstance(kv, VBytes):
            s = simp(kv.t)
            return ("bytes", str(s))
        raise Unsupported("non-constant dict key %r" % (kv,))

    def iter_concrete(self, state, v):
        if isinstance(v, VTuple):
            return list(v.items)
        if isinstance(v, VRef):
            o = self.obj(state, v)
            if o.kind == "list" and o.items is not None:
                return list(o.items)
            if o.kind == "dict" and o.d is not None:
                return [self.const(k) for k in o.d]
        raise Unsupported("iteration over non-concrete %r" % (v,))

    def ex_Lambda(self, state, e):
        return VFunc("lambda", "<lambda>", node=e, env=state.frame)

    def ex_IfExp(self, state, e):
        c = simp(self.truthy(state, self.ev(state, e.test)))
        if is_true(c):
            return self.ev(state, e.body)
        if is_false(c):
            return self.ev(state, e.orelse)
        return self.guarded_choice(state, c, lambda: self.ev(state, e.body), lambda: self.ev(state, e.orelse))

    def guarded_choice(self, state, c, f1, f2):
        """value of `f1() if c else f2()`; each side evaluated under its guard (pure sides only)."""
        res = []
        for g, f in ((c, f1), (simp(z3.Not(c)), f2)):
            n = len(state.pc)
            state.pc.append(g)
            if self.spec_mode:
                self.quant_facts.append(g)      # visible to old(...) sub-evaluations and definedness obligations
            try:
                r = f()
            except _Abort:
                state.pc = state.pc[:n] + [simp(z3.Not(g))]
                continue
            finally:
                if self.spec_mode:
                    self.quant_facts.pop()
            new = state.pc[n + 1:]
            state.pc = state.pc[:n] + [z3.Implies(g, x) for x in new]
            res.append((g, r))
        if not res:
            raise _Abort()
        return mk_union(res)

    def ex_BoolOp(self, state, e):
        # a and b and c  /  a or b or c : short-circuit, value semantics
        is_and = isinstance(e.op, ast.And)

        def rec(i):
            v = self.ev(state, e.values[i])
            if i == len(e.values) - 1:
                return v
            t = simp(self.truthy(state, v))
            go = t if is_and else simp(z3.Not(t))
            if is_false(go):
                return v
            if is_true(go):
                return rec(i + 1)
            if _has_call(e.values[i + 1:]) and not self.spec_mode:
                return self.fork_eval(state, go, lambda s: self._boolop_rest(s, e, i + 1), v)
            return self.guarded_choice(state, go, lambda: rec(i + 1), lambda: v)
        return rec(0)

    def _boolop_rest(self, state, e, i):
        sub = ast.BoolOp(op=e.op, values=e.values[i:]) if len(e.values) - i > 1 else e.values[i]
        return self.ev(state, sub)

    def fork_eval(self, state, go, f, else_val):
        """evaluate f on a forked state under `go` (f may have side effects), merge with the else side."""
        s1 = state.copy()
        s1.pending = []
        s1.assume(go)
        s2 = state.copy()
        s2.pending = []
        s2.assume(z3.Not(go))
        try:
            r1 = f(s1)
            ok1 = True
        except _Abort:
            ok1 = False
            r1 = None
        state.pending.extend(s1.pending)
        s1.pending = []
        tmp = "__forkval__"
        if ok1:
            s1.frame.locals[tmp] = r1
        s2.frame.locals[tmp] = else_val
        m = merge_states([s1, s2] if ok1 else [s2])
        if m is None:
            raise _Abort()
        pend = state.pending
        state.become(m)
        state.pending = pend
        return state.frame.locals.pop(tmp)

    def ex_UnaryOp(self, state, e):
        v = self.ev(state, e.operand)
        if isinstance(e.op, ast.Not):
            return VBool(simp(z3.Not(self.truthy(state, v))))

        def f(a):
            if isinstance(e.op, ast.USub):
                if isinstance(a, (VInt, VBool)):
                    return VInt(-self.num(a))
                if isinstance(a, VReal):
                    return VReal(-a.t)
            if isinstance(e.op, ast.UAdd) and isinstance(a, (VInt, VReal)):
                return a
            if isinstance(e.op, ast.Invert) and isinstance(a, VInt):
                return VInt(-a.t - 1)
            raise Unsupported("unary op on %r" % (a,))
        return self.dist(state, [v], f)

    def ex_BinOp(self, state, e):
        a = self.ev(state, e.left)
        b = self.ev(state, e.right)
        return self.binop(state, e.op, a, b)

    def binop(self, state, op, a, b, inplace=False):
        from . import ops
        return self.dist(state, [a, b], lambda x, y: ops.binop(self, state, op, x, y, inplace))

    def ex_Compare(self, state, e):
        from . import ops
        left = self.ev(state, e.left)
        res = []
        for op, rhs_e in zip(e.ops, e.comparators):
            right = self.ev(state, rhs_e)
            res.append(ops.compare(self, state, op, left, right))
            left = right
        return VBool(simp(conj(res)))

    def ex_Subscript(self, state, e):
        from . import ops
        v = self.ev(state, e.value)
        if isinstance(e.slice, ast.Slice):
            lo = self.ev(state, e.slice.lower) if e.slice.lower is not None else None
            hi = self.ev(state, e.slice.upper) if e.slice.upper is not None else None
            step = self.ev(state, e.slice.step) if e.slice.step is not None else None
            return ops.get_slice(self, state, v, lo, hi, step)
        k = self.ev(state, e.slice)
        return self.dist(state, [v, k], lambda x, y: ops.get_item(self, state, x, y))

    def set_item(self, state, obj, key, v):
        from . import ops
        if isinstance(obj, VUnion) or isinstance(key, VUnion):
            # guarded store: each (container, key) alternative is written under its guard
            import itertools as _it
            for (g1, o_), (g2, k_) in _it.product(alts_of(obj), alts_of(key)):
                g = simp(z3.And(g1, g2))
                if is_false(g):
                    continue
                if isinstance(o_, VNoneT) or isinstance(k_, VNoneT):
                    self.raise_if(state, g, "TypeError")
                    continue
                ops.set_item_guarded(self, state, o_, k_, v, g)
            return
        ops.set_item(self, state, obj, key, v)

    def del_item(self, state, obj, key):
        from . import ops
        ops.del_item(self, state, obj, key)

    def ex_Starred(self, state, e):
        raise Unsupported("starred expression")

    def ex_ListComp(self, state, e):
        from .loops import list_comp
        return list_comp(self, state, e)

    def ex_GeneratorExp(self, state, e):
        from .loops import list_comp
        return list_comp(self, state, e)

    def ex_DictComp(self, state, e):
        raise Unsupported("dict comprehension")

    # ------------------------------------------------------------------ calls
    def ex_Call(self, state, e):
        # special forms (spec language)
        if isinstance(e.func, ast.Name) and e.func.id in self.reg.spec_forms and self.spec_mode:
            return self.reg.spec_forms[e.func.id](self, state, e)
        fv = self.ev(state, e.func)
        args = []
        for a in e.args:
            if isinstance(a, ast.Starred):
                sv = self.ev(state, a.value)
                args.extend(self.star_args(state, sv))
            else:
                args.append(self.ev(state, a))
        kwargs = {}
        for k in e.keywords:
            if k.arg is None:
                kv = self.ev(state, k.value)
                kwargs.update(self.star_kwargs(state, kv))
            else:
                kwargs[k.arg] = self.ev(state, k.value)
        return self.call(state, fv, args, kwargs, node=e)

    def star_args(self, state, sv):
        if isinstance(sv, VUnion):
            return [StarArgs(sv)]       # length not statically known
        if isinstance(sv, VNoneT):
            self.raise_if(state, z3.BoolVal(True), "TypeError")
        if isinstance(sv, (VDyn, VOpaque)):
            return [StarArgs(sv)]
        if isinstance(sv, VRef) and self.obj(state, sv).kind == "list" and self.obj(state, sv).items is None:
            return [StarArgs(sv)]
        return self.iter_concrete(state, sv)

    def star_kwargs(self, state, kv):
        if isinstance(kv, VUnion):
            return {"**": kv}
        if isinstance(kv, VRef):
            o = self.obj(state, kv)
            if o.kind == "dict" and o.d is not None:
                opt = getattr(o, "opt", None) or {}
                # a key held only on some paths is passed only on those paths
                return {k: (OptKw(opt[k], v) if k in opt and not is_true(simp(opt[k])) else v) for k, v in o.d.items()
                        if not (k in opt and is_false(simp(opt[k])))}
            if o.kind == "dict" and o.sym is not None:
                return {"**": kv}
        if isinstance(kv, (VDyn, VOpaque)):
            return {"**": kv}
        raise Unsupported("** of %r" % (kv,))

    def call(self, state, fv, args, kwargs, node=None):
        from . import calls
        fv = self.narrow(state, fv)
        if not isinstance(fv, VUnion):
            return calls.call_atom(self, state, fv, args, kwargs, node)
        if self.spec_mode:
            return self.dist(state, [fv], lambda f: calls.call_atom(self, state, f, args, kwargs, node))
        # several possible callees (dynamic dispatch over alternatives of the receiver): the effects of each callee
        # happen only under its guard -- fork per alternative, merge the resulting states
        states = []
        for g, f in fv.alts:
            s = state.copy()
            s.pending = []
            s.assume(g)
            if s.dead():
                continue
            try:
                r = calls.call_atom(self, s, f, args, kwargs, node)
            except _Abort:
                state.pending.extend(s.pending)
                continue
            state.pending.extend(s.pending)
            s.pending = []
            s.frame.locals["__ret__"] = r
            states.append(s)
        m = merge_states(states) if states else None
        if m is None:
            state.pc.append(z3.BoolVal(False))
            raise _Abort()
        pend = state.pending
        state.become(m)
        state.pending = pend
        return state.frame.locals.pop("__ret__")

    def instantiate(self, state, cls, args, kwargs):
        from . import calls
        return calls.instantiate(self, state, cls, args, kwargs)


class _PcOnly:
    def __init__(self, pc):
        self.pc = list(pc)


def _pc_state(pc):
    return _PcOnly(pc)


class StarArgs(V):
    """marker: *args of unknown length passed through to a call"""
    kind = "starargs"

    def __init__(self, v):
        self.v = v


def _to_load(t):
    t2 = ast.parse(ast.unparse(t), mode="eval").body
    ast.copy_location(t2, t)
    for n in ast.walk(t2):
        if not hasattr(n, "lineno"):
            n.lineno = getattr(t, "lineno", 0)
    return t2


_qr_cache = {}


def _has_quant_or_rec(t):
    key = t.get_id()
    if key in _qr_cache:
        return _qr_cache[key][1]
    res = False
    todo, seen = [t], set()
    while todo:
        x = todo.pop()
        if x.get_id() in seen:
            continue
        seen.add(x.get_id())
        if z3.is_quantifier(x):
            res = True
            break
        if z3.is_app(x):
            if x.decl().kind() == z3.Z3_OP_RECURSIVE:
                res = True
                break
            todo.extend(x.children())
    _qr_cache[key] = (t, res)
    return res


def _has_call(nodes):
    for n in nodes:
        for x in ast.walk(n):
            if isinstance(x, (ast.Call, ast.Await, ast.NamedExpr)):
                return True
    return False
