"""Replay of counterexamples against the real code (never against the verifier's abstraction)."""
import json
import os
import subprocess
import sys
import tempfile

VERIF = os.path.dirname(os.path.dirname(os.path.abspath(__file__)))
REPO = os.environ.get("PYVC_REPO", "/repo")
PY = os.path.join(VERIF, ".venv", "bin", "python")


def run_py(code, env=None, timeout=120):
    """run a snippet in a fresh interpreter with the working tree first on sys.path; the snippet prints one
    JSON document on its last stdout line"""
    e = dict(os.environ)
    e["PYTHONPATH"] = os.path.join(REPO, "src") + os.pathsep + VERIF
    e.update(env or {})
    p = subprocess.run([PY, "-W", "ignore", "-"], input=code, capture_output=True, text=True, env=e, timeout=timeout)
    lines = [l for l in p.stdout.strip().splitlines() if l.strip()]
    if p.returncode != 0 or not lines:
        return {"error": (p.stderr or "")[-1500:], "stdout": p.stdout[-500:]}
    try:
        return json.loads(lines[-1])
    except ValueError:
        return {"error": "no JSON on last line", "stdout": p.stdout[-500:]}


_so_cache = {}


def build_c_cached(src_rel, name):
    """one build per process, removed at exit"""
    import atexit
    key = (src_rel, name)
    if key not in _so_cache:
        so = build_c(src_rel, name)
        _so_cache[key] = so
        atexit.register(lambda p=so: os.path.exists(p) and os.unlink(p))
    return _so_cache[key]


def build_c(src_rel, name):
    """compile a working-tree C file into a shared object (so a stale installed .so is never what is replayed)"""
    out_dir = os.path.join(VERIF, ".cache")
    os.makedirs(out_dir, exist_ok=True)
    so = os.path.join(out_dir, name + "_%d.so" % os.getpid())
    src = os.path.join(REPO, src_rel)
    p = subprocess.run(["gcc", "-O1", "-shared", "-fPIC", "-msse2", "-o", so, src], capture_output=True, text=True)
    if p.returncode != 0:
        raise RuntimeError("gcc failed: " + p.stderr[:800])
    return so


def to_bytes(x):
    if isinstance(x, dict) and "bytes" in x:
        return bytes(int(v) & 255 if not isinstance(v, str) else 0 for v in x["bytes"])
    if isinstance(x, (bytes, bytearray)):
        return bytes(x)
    return b""


def native_clause(src):
    """a contract clause as a native Python expression (for evaluating it on the real objects in a replay):
    implies(a, b) -> (not a) or b ; forall(i, lo, hi, body) -> all(body for i in range(lo, hi)) ; exists likewise ;
    ite(c, a, b) -> a if c else b.  old() has no native counterpart: clauses using it are not replayed this way"""
    import ast

    class T(ast.NodeTransformer):
        def visit_Call(self, n):
            self.generic_visit(n)
            if isinstance(n.func, ast.Name):
                f = n.func.id
                if f == "implies" and len(n.args) == 2:
                    return ast.BoolOp(ast.Or(), [ast.UnaryOp(ast.Not(), n.args[0]), n.args[1]])
                if f in ("forall", "exists", "forallq") and len(n.args) == 4:
                    gen = ast.GeneratorExp(n.args[3], [ast.comprehension(
                        ast.Name(n.args[0].id, ast.Store()), ast.Call(ast.Name("range", ast.Load()), [n.args[1], n.args[2]], []),
                        [], 0)])
                    return ast.Call(ast.Name("all" if f != "exists" else "any", ast.Load()), [gen], [])
                if f == "ite" and len(n.args) == 3:
                    return ast.IfExp(n.args[0], n.args[1], n.args[2])
                if f == "old":
                    raise ValueError("old() in a natively evaluated clause")
            return n
    tree = T().visit(ast.parse(src, mode="eval"))
    return ast.unparse(ast.fix_missing_locations(tree))


def native_crosscheck(name, code, bound, timeout=600):
    """thorough tier: a module's boundary-case harness run on the real code of the *unchanged* tree, reported as a bounded
    obligation (never counted as proved).  It cross-checks the verifier's model against CPython: a harness that finds a
    failing case on a tree whose obligations are all discharged means the model or a contract is wrong, or the property
    is violated outside what the contracts state -- either way the check must not stay green."""
    import time
    t0 = time.time()
    out = run_py(code, timeout=timeout)
    if not isinstance(out, dict) or "bad" not in out:
        return {"name": name, "kind": "bounded", "bounded": True, "status": "unknown", "backend": "native run on the real code",
                "time": round(time.time() - t0, 2), "bound": bound, "cases": None, "reason": "harness error: %s" % str(out)[:300],
                "info": {}}
    bad = out.get("bad") or []
    return {"name": name, "kind": "bounded", "bounded": True, "status": "refuted" if bad else "proved",
            "backend": "native run on the real code", "time": round(time.time() - t0, 2), "bound": bound,
            "cases": out.get("cases"), "info": {"detail": str(bad)[:600]},
            "replay": {"reproduced": bool(bad), "cases": bad[:4], "detail": "found by the native cross-check"}}
