"""Symbolic values.  A value is a typed atom holding a z3 term (or a concrete Python-side structure)
or a VUnion of guarded atoms (Python is dynamically typed: `x = None; if c: x = data[i:i+4]`)."""
import itertools
import z3

BytesSort = z3.SeqSort(z3.IntSort())
_counter = itertools.count()


def fresh_name(base):
    import pyvc.values as _v
    return "%s!%d" % (base, next(_v._counter))


class Unsupported(Exception):
    """Construct outside the modelled subset: the unit is *undecided*, never proved/violated."""


class V:
    kind = "?"


class VInt(V):
    kind = "int"

    def __init__(self, t):
        self.t = z3.IntVal(t) if isinstance(t, int) else t

    def __repr__(self):
        return "VInt(%s)" % self.t


class VBool(V):
    kind = "bool"

    def __init__(self, t):
        self.t = z3.BoolVal(t) if isinstance(t, bool) else t

    def __repr__(self):
        return "VBool(%s)" % self.t


class VReal(V):
    kind = "real"

    def __init__(self, t):
        if isinstance(t, (int, float)):
            t = z3.RealVal(repr(t) if isinstance(t, float) else t)
        self.t = t

    def __repr__(self):
        return "VReal(%s)" % self.t


class VNoneT(V):
    kind = "none"

    def __repr__(self):
        return "VNone"


VNone = VNoneT()


class VBytes(V):
    kind = "bytes"

    def __init__(self, t):
        if isinstance(t, (bytes, bytearray)):
            t = bytes_const(t)
        self.t = t

    def __repr__(self):
        return "VBytes(%s)" % self.t


class VABytes(V):
    """bytes in *array view*: (z3 Array Int->Int, length).  Used where elements are read under quantifiers
    (maskers): indexing is a plain select, no sequence theory involved."""
    kind = "abytes"

    def __init__(self, arr, n):
        self.arr = arr
        self.n = z3.IntVal(n) if isinstance(n, int) else n

    def __repr__(self):
        return "VABytes(%s,%s)" % (self.arr, self.n)


class VStr(V):
    kind = "str"

    def __init__(self, t):
        if isinstance(t, str):
            t = z3.StringVal(t)
        self.t = t

    def __repr__(self):
        return "VStr(%s)" % self.t


class VTuple(V):
    kind = "tuple"

    def __init__(self, items):
        self.items = list(items)

    def __repr__(self):
        return "VTuple(%r)" % (self.items,)


class VRef(V):
    """Reference to a heap object with a concrete identity (instances, lists, dicts, arrays)."""
    kind = "ref"

    def __init__(self, oid):
        self.oid = oid

    def __repr__(self):
        return "VRef(%d)" % self.oid


class VSym(V):
    """Reference to one of an unbounded family of records of a declared shape (Boogie-style heap:
    one z3 array per field, indexed by the integer address `t`)."""
    kind = "sym"

    def __init__(self, shape, t):
        self.shape = shape
        self.t = t

    def __repr__(self):
        return "VSym(%s,%s)" % (self.shape, self.t)


class VPtr(V):
    """C pointer into a byte buffer: (buffer value, element offset).  base is a VRef (barray / local array)
    or VBytes (read-only input)."""
    kind = "ptr"

    def __init__(self, base, off):
        self.base = base
        self.off = z3.IntVal(off) if isinstance(off, int) else off

    def __repr__(self):
        return "VPtr(%r,%s)" % (self.base, self.off)


class VListView(V):
    """a list stored *by value* inside a symbolic table (dict k -> sequence of record addresses): reads and in-place
    updates go through the table entry, so `for x in d[k]` sees mutations made during the iteration (live list)"""
    kind = "listview"

    def __init__(self, dict_ref, key, elem):
        self.dict_ref = dict_ref    # VRef of the dict object
        self.key = key              # z3 term
        self.elem = elem            # element type ("sym:Shape", "int", ...)

    def __repr__(self):
        return "VListView(%r,%s)" % (self.dict_ref, self.key)


class VFunc(V):
    kind = "func"

    def __init__(self, fkind, name, **kw):
        self.fkind = fkind      # 'repo' | 'builtin' | 'bound' | 'closure' | 'lambda' | 'opaque'
        self.name = name
        self.__dict__.update(kw)

    def __repr__(self):
        return "VFunc(%s,%s)" % (self.fkind, self.name)


class VClass(V):
    kind = "class"

    def __init__(self, name, info=None):
        self.name = name        # simple class name
        self.info = info        # loader.ClassInfo for repo classes

    def __repr__(self):
        return "VClass(%s)" % self.name


class VModule(V):
    kind = "module"

    def __init__(self, name):
        self.name = name

    def __repr__(self):
        return "VModule(%s)" % self.name


class VOpaque(V):
    """A value about which nothing is known (result of an unknown callee, a user object...)."""
    kind = "opaque"

    def __init__(self, tag=None):
        self.tag = tag or fresh_name("opq")

    def __repr__(self):
        return "VOpaque(%s)" % self.tag


class OptKw(V):
    """f(**d) where d holds key k only under guard g: the keyword is passed iff g (else the parameter's default applies).
    Only the binders that resolve it (bind_params, record constructors) may see it; every other callee refuses."""
    kind = "optkw"

    def __init__(self, g, v):
        self.g, self.v = g, v

    def __repr__(self):
        return "OptKw(%r)" % (self.v,)


class VRegex(V):
    """A compiled regular expression (re.compile of a constant pattern): see pyvc.regex.Compiled."""
    kind = "regex"

    def __init__(self, compiled):
        self.compiled = compiled

    def __repr__(self):
        return "VRegex(%r)" % self.compiled.pattern


class VDyn(V):
    """Dynamically typed value of the uninterpreted sort PyVal (deserialized data, *args...)."""
    kind = "dyn"

    def __init__(self, t):
        self.t = t

    def __repr__(self):
        return "VDyn(%s)" % self.t


class VUnion(V):
    kind = "union"

    def __init__(self, alts):
        self.alts = alts        # list of (guard BoolRef, atom)

    def __repr__(self):
        return "VUnion(%r)" % (self.alts,)


# ---------------------------------------------------------------------------------------------

def bytes_const(b):
    if len(b) == 0:
        return z3.Empty(BytesSort)
    if len(b) == 1:
        return z3.Unit(z3.IntVal(b[0]))
    return z3.Concat(*[z3.Unit(z3.IntVal(x)) for x in b])


def is_true(t):
    return z3.is_true(t)


def is_false(t):
    return z3.is_false(t)


def simp(t):
    return z3.simplify(t)


def conj(ts):
    ts = [t for t in ts if not z3.is_true(t)]
    if not ts:
        return z3.BoolVal(True)
    if len(ts) == 1:
        return ts[0]
    return z3.And(*ts)


def disj(ts):
    ts = [t for t in ts if not z3.is_false(t)]
    if not ts:
        return z3.BoolVal(False)
    if len(ts) == 1:
        return ts[0]
    return z3.Or(*ts)


def alts_of(v):
    if isinstance(v, VUnion):
        return v.alts
    return [(z3.BoolVal(True), v)]


_TERM_KINDS = (VInt, VBool, VReal, VBytes, VStr, VDyn)


def same_atom(a, b):
    if a is b:
        return True
    if type(a) is not type(b):
        return False
    if isinstance(a, _TERM_KINDS):
        return a.t.eq(b.t)
    if isinstance(a, VSym):
        return a.shape == b.shape and a.t.eq(b.t)
    if isinstance(a, VRef):
        return a.oid == b.oid
    if isinstance(a, VNoneT):
        return True
    if isinstance(a, VTuple):
        return len(a.items) == len(b.items) and all(same_value(x, y) for x, y in zip(a.items, b.items))
    if isinstance(a, VClass):
        return a.name == b.name
    if isinstance(a, VOpaque):
        return a.tag == b.tag
    if isinstance(a, VPtr):
        return same_atom(a.base, b.base) and a.off.eq(b.off)
    if isinstance(a, VABytes):
        return a.arr.eq(b.arr) and a.n.eq(b.n)
    if isinstance(a, VListView):
        return a.dict_ref.oid == b.dict_ref.oid and a.key.eq(b.key)
    return False


def same_value(a, b):
    if a is b:
        return True
    if isinstance(a, VUnion) or isinstance(b, VUnion):
        if not (isinstance(a, VUnion) and isinstance(b, VUnion)) or len(a.alts) != len(b.alts):
            return False
        return all(g1.eq(g2) and same_atom(x, y) for (g1, x), (g2, y) in zip(a.alts, b.alts))
    return same_atom(a, b)


def mk_union(alts):
    """alts: list of (guard, value) (values may be unions).  Guards are assumed mutually exclusive and
    exhaustive under the current path condition.  Same-kind term atoms are fused with ITE."""
    flat = []
    for g, v in alts:
        if is_false(g):
            continue
        if isinstance(v, VUnion):
            for g2, a in v.alts:
                gg = simp(z3.And(g, g2))
                if not is_false(gg):
                    flat.append((gg, a))
        else:
            flat.append((g, v))
    if not flat:
        raise Unsupported("empty union")
    groups = []   # list of [guards, atoms] fused by compatibility
    for g, a in flat:
        for grp in groups:
            rep = grp[0][1]
            if _fusable(rep, a):
                grp.append((g, a))
                break
        else:
            groups.append([(g, a)])
    out = []
    for grp in groups:
        gs = [g for g, _ in grp]
        out.append((simp(disj(gs)), _fuse(grp)))
    if len(out) == 1:
        return out[0][1]
    return VUnion(out)


def _fusable(a, b):
    if type(a) is not type(b):
        return False
    if isinstance(a, _TERM_KINDS):
        return True
    if isinstance(a, VSym):
        return a.shape == b.shape
    if isinstance(a, VTuple):
        return len(a.items) == len(b.items)
    if isinstance(a, VPtr):
        return same_atom(a.base, b.base)
    if isinstance(a, VABytes):
        return True
    if isinstance(a, VOpaque):
        return True         # two unknown values: still an unknown value
    return same_atom(a, b)


def _fuse(grp):
    rep = grp[0][1]
    if len(grp) == 1:
        return rep
    if isinstance(rep, _TERM_KINDS) or isinstance(rep, VSym):
        t = grp[-1][1].t
        for g, a in reversed(grp[:-1]):
            if not a.t.eq(t):
                t = z3.If(g, a.t, t)
        if isinstance(rep, VSym):
            return VSym(rep.shape, t)
        return type(rep)(t)
    if isinstance(rep, VOpaque):
        if all(a.tag == rep.tag for _, a in grp):
            return rep
        if all(a.tag.startswith("matchobj") for _, a in grp):
            return VOpaque(fresh_name("matchobj_merged"))      # still an (always truthy) match object
        return VOpaque(fresh_name("opq_merged"))
    if isinstance(rep, VABytes):
        arr, n = grp[-1][1].arr, grp[-1][1].n
        for g, a in reversed(grp[:-1]):
            if not a.arr.eq(arr):
                arr = z3.If(g, a.arr, arr)
            if not a.n.eq(n):
                n = z3.If(g, a.n, n)
        return VABytes(arr, n)
    if isinstance(rep, VPtr):
        t = grp[-1][1].off
        for g, a in reversed(grp[:-1]):
            if not a.off.eq(t):
                t = z3.If(g, a.off, t)
        return VPtr(rep.base, t)
    if isinstance(rep, VTuple):
        items = []
        for i in range(len(rep.items)):
            items.append(mk_union([(g, a.items[i]) for g, a in grp]))
        return VTuple(items)
    return rep


def merge2(g, a, b):
    """value that is `a` when g holds, else `b`."""
    if same_value(a, b):
        return a
    return mk_union([(g, a), (z3.Not(g), b)])
