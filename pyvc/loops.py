"""Loops.  A loop with an invariant in the sidecar is cut (unbounded: entry / preservation
obligations, havoc of the written variables); a loop over a concrete-length iterable without an
invariant is unrolled; anything else is unsupported (undecided)."""
import ast
import z3

from .values import *  # noqa
from .engine import *  # noqa
from .executor import _Abort


PURE_FUNCS = {"len", "range", "xrange", "isinstance", "type", "int", "bool", "str", "bytes", "ord", "chr", "min", "max",
              "abs", "tuple", "c_chk", "c_cast", "c_div", "c_mod", "c_ptr_add", "c_ptr_addr", "c_ptr_of", "c_mm_load_si128",
              "c_mm_loadu_si128", "c_mm_xor_si128", "c_uninit", "callable", "hasattr", "getattr", "id", "float"}
PURE_METHODS = {"append", "extend", "pop", "remove", "clear", "insert", "update", "popleft", "appendleft", "setdefault",
                "add", "discard", "get", "find", "startswith", "endswith", "lower", "upper", "strip", "encode", "decode",
                "join", "keys", "values", "items", "tobytes", "debug", "info", "warn", "error", "trace", "format", "split",
                "to_bytes", "index", "copy"}


def written_names(body):
    names, attrs, subs, calls = set(), set(), set(), False
    for st in body:
        for n in ast.walk(st):
            if isinstance(n, (ast.Assign, ast.AugAssign, ast.AnnAssign, ast.For, ast.Delete)):
                tgts = n.targets if isinstance(n, (ast.Assign, ast.Delete)) else [n.target]
                for t in tgts:
                    for x in ast.walk(t):
                        if isinstance(x, ast.Name) and isinstance(x.ctx, (ast.Store, ast.Del)):
                            names.add(x.id)
                        elif isinstance(x, ast.Attribute) and isinstance(x.ctx, (ast.Store, ast.Del)):
                            attrs.add(ast.unparse(x))
                        elif isinstance(x, ast.Subscript) and isinstance(x.ctx, (ast.Store, ast.Del)):
                            subs.add(ast.unparse(x.value))
            elif isinstance(n, ast.Call):
                if isinstance(n.func, ast.Name) and n.func.id in PURE_FUNCS:
                    pass
                elif isinstance(n.func, ast.Name) and n.func.id == "c_mm_store_si128":
                    subs.add(ast.unparse(n.args[0]))
                elif isinstance(n.func, ast.Attribute) and n.func.attr in PURE_METHODS:
                    pass
                else:
                    calls = True
                # method calls that mutate their receiver
                if isinstance(n.func, ast.Attribute) and n.func.attr in (
                        "append", "extend", "pop", "remove", "clear", "insert", "update", "popleft", "appendleft",
                        "setdefault", "add", "discard"):
                    subs.add(ast.unparse(n.func.value))
            elif isinstance(n, ast.ExceptHandler) and n.name:
                names.add(n.name)
    return names, attrs, subs, calls


def iter_source(ex, state, st):
    """classify the iterable of a for loop"""
    it = st.iter
    if isinstance(it, ast.Call) and isinstance(it.func, ast.Name) and it.func.id in ("range", "xrange"):
        args = [ex.ev(state, a) for a in it.args]
        if len(args) == 1:
            return ("range", z3.IntVal(0), ex.num(args[0]), 1)
        if len(args) == 2:
            return ("range", ex.num(args[0]), ex.num(args[1]), 1)
        stp = simp(ex.num(args[2]))
        if not z3.is_int_value(stp):
            raise Unsupported("range with symbolic step")
        return ("range", ex.num(args[0]), ex.num(args[1]), stp.as_long())
    v = ex.ev(state, it)
    return ("value", v)


def loop_ordinals(fnode):
    """loops are keyed by their position in a pre-order walk of the function's AST (nested defs excluded):
    stable under renaming of locals and reordering of non-loop statements, independent of the path taken"""
    out = {}

    def rec(node):
        for ch in ast.iter_child_nodes(node):
            if isinstance(ch, (ast.FunctionDef, ast.AsyncFunctionDef, ast.Lambda, ast.ClassDef)):
                continue
            if isinstance(ch, (ast.For, ast.While)):
                out[id(ch)] = len(out)
            rec(ch)
    rec(fnode)
    return out


def exec_loop(ex, state, st, kind):
    fi = state.frame.finfo
    key = id(fi.node) if fi is not None else None
    if key is not None:
        if key not in ex.loop_maps:
            ex.loop_maps[key] = loop_ordinals(fi.node)
        ordinal = ex.loop_maps[key].get(id(st), -1)
    else:
        ordinal = -1
    spec = ex.loop_specs.get(ordinal)
    if spec is None:
        # alternatively a loop may be keyed by its header text (robust inside very large dispatch functions)
        key = ("iter:" + ast.unparse(st.iter)) if kind == "for" else ("while:" + ast.unparse(st.test))
        spec = ex.loop_specs.get(key)
    if spec is None and kind == "for":
        # ... or by its target (robust when the iterable is first bound to a local)
        spec = ex.loop_specs.get("target:" + ast.unparse(st.target))
    if spec is None:
        return unroll(ex, state, st, kind)
    return cut_loop(ex, state, st, kind, spec, ordinal)


# ------------------------------------------------------------------------------------------ unrolling

def unroll(ex, state, st, kind, limit=64):
    outs = []
    if kind == "for":
        src = iter_source(ex, state, st)
        outs.extend(ex.flush(state))
        if src[0] == "range":
            lo, hi = simp(src[1]), simp(src[2])
            if not (z3.is_int_value(lo) and z3.is_int_value(hi)):
                raise Unsupported("for over symbolic range without invariant (line %d)" % st.lineno)
            items = [VInt(i) for i in range(lo.as_long(), hi.as_long(), src[3])]
        elif isinstance(src[1], VRef) and ex.obj(state, src[1]).kind == "udict":
            return outs + _iterate_untrusted_keys(ex, state, st, ex.obj(state, src[1]))
        else:
            items = concrete_items(ex, state, src[1], st)
        if len(items) > limit:
            raise Unsupported("unroll limit")
        # a dict with optional keys (type odict): each key is visited only if it is present
        guards = None
        if src[0] != "range" and isinstance(src[1], VRef):
            guards = getattr(ex.obj(state, src[1]), "opt", None)
        cur = state
        broke = []
        for it in items:
            if cur is None:
                break
            skipped = None
            if guards is not None:
                g = guards.get(ex.const_key(it))
                if g is not None:
                    skipped = cur.copy()
                    skipped.pending = []
                    skipped.assume(z3.Not(g))
                    cur.assume(g)
            ex.assign(cur, st.target, it)
            res = ex.exec_block(cur, st.body) if not cur.dead() else []
            normals = [skipped] if skipped is not None and not skipped.dead() else []
            for o in res:
                if o.kind in ("normal", "continue"):
                    normals.append(o.state)
                elif o.kind == "break":
                    broke.append(o.state)
                else:
                    outs.append(o)
            cur = merge_states(normals) if normals else None
        finals = []
        if cur is not None:
            if st.orelse:
                for o in ex.exec_block(cur, st.orelse):
                    if o.kind == "normal":
                        finals.append(o.state)
                    else:
                        outs.append(o)
            else:
                finals.append(cur)
        finals.extend(broke)
        m = merge_states(finals) if finals else None
        if m is not None:
            outs.append(Outcome("normal", m))
        return outs
    # while without invariant: bounded unrolling only when the guard becomes concretely false
    cur = state
    finals = []
    for _ in range(limit):
        if cur is None:
            break
        c = simp(ex.truthy(cur, ex.ev(cur, st.test)))
        outs.extend(ex.flush(cur))
        if is_false(c):
            finals.append(cur)
            cur = None
            break
        if not is_true(c):
            raise Unsupported("while loop without invariant (line %d)" % st.lineno)
        res = ex.exec_block(cur, st.body)
        normals = []
        for o in res:
            if o.kind in ("normal", "continue"):
                normals.append(o.state)
            elif o.kind == "break":
                finals.append(o.state)
            else:
                outs.append(o)
        cur = merge_states(normals) if normals else None
    else:
        raise Unsupported("while unroll limit")
    m = merge_states(finals) if finals else None
    if m is not None:
        outs.append(Outcome("normal", m))
    return outs


def _iterate_untrusted_keys(ex, state, st, o):
    """`for k in d` over an untrusted dict (type udict:), which may hold any number of keys beyond the declared ones.
    Admitted only for a body made of `if <test>: raise ...` statements: such iterations cannot influence each other or
    the state, so the loop either raises for some key or falls through unchanged -- one iteration per declared key
    (if present) and one for a generic further key (if there is one) cover every dict exactly"""
    for b in st.body:
        if not (isinstance(b, ast.If) and not b.orelse and len(b.body) == 1 and isinstance(b.body[0], ast.Raise)):
            raise Unsupported("for over an untrusted dict whose body is not a sequence of `if ...: raise` (line %d)" % st.lineno)
    if st.orelse:
        raise Unsupported("for-else over an untrusted dict")
    outs = []
    keys = [(g, ex.const(k)) for k, g in o.opt.items()] + [(o.other, o.other_key)]
    n0 = len(state.pc)
    quiet = []
    for g, kv in keys:
        s = state.copy()
        s.pending = []
        s.assume(g)
        if s.dead():
            continue
        ex.assign(s, st.target, kv)
        for r in ex.exec_block(s, st.body):
            if r.kind not in ("normal", "continue"):
                outs.append(r)
                quiet.append(z3.Not(z3.And(*r.state.pc[n0:])) if len(r.state.pc) > n0 else z3.BoolVal(False))
    # the fall-through state: no iteration left the loop (the negated path conditions of those that did)
    for q in quiet:
        state.assume(q)
    outs.append(Outcome("normal", state))
    return outs


def concrete_items(ex, state, v, st):
    if isinstance(v, VTuple):
        return list(v.items)
    if isinstance(v, VRef):
        o = ex.obj(state, v)
        if o.kind == "list" and o.items is not None:
            return list(o.items)
        if o.kind == "dict" and o.d is not None:
            return [ex.const(k) for k in o.d]
    if isinstance(v, VStr) and z3.is_string_value(v.t):
        return [VStr(ch) for ch in v.t.as_string()]
    raise Unsupported("for over non-concrete iterable without invariant (line %d)" % st.lineno)


# ------------------------------------------------------------------------------------------ cut loops

def cut_loop(ex, state, st, kind, spec, ordinal):
    """Loop with invariant.  For `for` loops the hidden index `$i` (number of completed iterations)
    is available to the invariant as `_i`; for `for x in seq` over a live list the list is re-read at
    every iteration (CPython semantics)."""
    from . import calls
    contract = ex.reg.current
    outs = []
    src = None
    idx_name = spec.get("index", "_i%d" % ordinal if ordinal else "_i")
    if kind == "for":
        src = iter_source(ex, state, st)
        outs.extend(ex.flush(state))
        state.frame.locals[idx_name] = VInt(0)
    invs = spec.get("invariant", [])
    env = lambda s: calls.clause_env(ex, s, contract, s.frame.locals)  # noqa

    def check(s, tag):
        for k, cl in enumerate(invs):
            t, side = calls.eval_clause(ex, s, contract, cl, _spec_env(ex, s), old_state=ex.unit_pre)
            s2 = s
            if side:
                s2 = s.copy()
                for x in side:
                    s2.assume(x)
            ex.oblige("inv-%s" % tag, s2, t, label="loop%d.%d" % (ordinal, k), info={"clause": cl})

    def assume(s):
        for cl in invs:
            t, side = calls.eval_clause(ex, s, contract, cl, _spec_env(ex, s), old_state=ex.unit_pre)
            for x in side:
                s.assume(x)
            s.assume(t)
        for h in spec.get("hints", []):
            ex.reg.check_hint(h)
            t, side = calls.eval_clause(ex, s, contract, h, _spec_env(ex, s), old_state=ex.unit_pre)
            for x in side:
                s.assume(x)
            s.assume(t)

    check(state, "entry")
    # havoc everything the body may write
    # what an iteration may write: the body and the loop target -- not the else suite, which runs after the loop
    names, attrs, subs, has_calls = written_names(st.body)
    if kind == "for":
        n2, a2, s2, _ = written_names([ast.Assign(targets=[st.target], value=ast.Constant(None))])
        names |= n2
        attrs |= a2
        subs |= s2
        names.add(idx_name)
    # locals mutated in place (xs.append(..), d[k] = ..) or listed under `modifies`, with a declared type: fresh value too
    typed_in_place = {p_ for p_ in (attrs | subs | set(spec.get("modifies", []))) if "." not in p_ and p_ in spec.get("vars", {})}
    for n in sorted(names | typed_in_place):
        cur = state.frame.locals.get(n)
        typ = spec.get("vars", {}).get(n)
        if typ is not None:
            state.frame.locals[n] = ex.reg.fresh(ex, state, typ, n)
        elif cur is not None:
            state.frame.locals[n] = calls.fresh_like(ex, state, cur, n)
    preserved = set(spec.get("preserves", []))
    for path in sorted((attrs | subs | set(spec.get("modifies", []))) - preserved):
        parts = path.split(".")
        if len(parts) == 1 and parts[0] in spec.get("vars", {}):
            continue        # a local given a fresh value of its declared type above
        if parts[0] in ex.reg.shapes and len(parts) == 2 and parts[0] not in state.frame.locals:
            calls.havoc_sym_field(ex, state, parts[0], parts[1])
            continue
        vt = spec.get("vars", {}).get(parts[0], "")
        cur0 = state.frame.locals.get(parts[0])
        if len(parts) == 2 and (vt.startswith("sym:") or isinstance(cur0, VSym)):
            # write through a record variable: any record of that shape may be the target
            calls.havoc_sym_field(ex, state, vt[4:] if vt.startswith("sym:") else cur0.shape, parts[1])
            continue
        base = None
        f = state.frame
        while f is not None and base is None:
            base = f.locals.get(parts[0])
            f = f.closure
        if parts[0] == "ghost":
            base = state.ghost
        if base is None and parts[0] in names:
            continue        # a local (re)bound inside the body: what it may alias is listed in the spec's `modifies`
        if base is None:
            raise Unsupported("loop writes through unknown root %s" % path)
        if len(parts) == 1:
            calls.havoc_object(ex, state, base)
        else:
            calls._havoc_path(ex, state, base, parts[1:], contract)
    if has_calls and "modifies" not in spec and not spec.get("pure_calls", False):
        # calls inside the loop may write the heap: the spec must say what (or declare pure_calls)
        raise Unsupported("loop %d contains calls: spec needs 'modifies' or 'pure_calls'" % ordinal)
    assume(state)
    # guard
    body_state = state.copy()
    body_state.pending = []
    if kind == "while":
        c = simp(ex.truthy(body_state, ex.ev(body_state, st.test)))
        outs.extend(ex.flush(body_state))
        exit_state = state
        # evaluating the test twice (for both states) keeps side conditions in both
        c2 = simp(ex.truthy(exit_state, ex.ev(exit_state, st.test)))
        outs_exit = ex.flush(exit_state)
        body_state.assume(c)
        exit_state.assume(z3.Not(c2))
    else:
        i = body_state.frame.locals[idx_name].t
        state.assume(i >= 0)
        body_state.assume(i >= 0)
        if src[0] == "range":
            lo, hi, stp = src[1], src[2], src[3]
            if stp != 1:
                raise Unsupported("cut loop over range with step")
            n = z3.If(hi > lo, hi - lo, z3.IntVal(0))
            body_state.assume(i < n)
            ex.assign(body_state, st.target, VInt(simp(lo + i)))
            exit_state = state
            exit_state.assume(i == n)
        else:
            v = src[1]
            ln = ex.length(body_state, v).t
            body_state.assume(i < ln)
            from . import ops
            item = ex.dist(body_state, [v], lambda a: ops.get_item(ex, body_state, a, VInt(i)))
            ex.assign(body_state, st.target, item)
            exit_state = state
            exit_state.assume(i >= ex.length(exit_state, v).t)
        outs_exit = []
    # body
    body_entry = body_state.copy() if preserved else None
    res = ex.exec_block(body_state, st.body)
    exits = [exit_state] if not exit_state.dead() else []
    for o in res:
        if o.kind in ("normal", "continue"):
            s = o.state
            if kind == "for":
                s.frame.locals[idx_name] = VInt(simp(s.frame.locals[idx_name].t + 1))
            check(s, "preserved")
            for path in sorted(preserved):
                _check_preserved(ex, s, body_entry, path, ordinal)
        elif o.kind == "break":
            exits.append(o.state)
        else:
            outs.append(o)
    if st.orelse:
        # the else suite runs when the loop ends without `break` (exit_state is exits[0] if it is feasible)
        if exits and exits[0] is exit_state:
            rest = exits[1:]
            ran = []
            for o in ex.exec_block(exit_state, st.orelse):
                if o.kind == "normal":
                    ran.append(o.state)
                else:
                    outs.append(o)
            exits = ran + rest
    m = merge_states(exits) if exits else None
    if m is not None:
        outs.append(Outcome("normal", m))
    return outs + outs_exit


def _check_preserved(ex, s, entry, path, ordinal):
    """`preserves` paths are syntactically written somewhere in the body but claimed unchanged by every iteration:
    they are not havocked, and this obligation checks the claim"""
    parts = path.split(".")
    def resolve(st):
        v = st.frame.locals.get(parts[0])
        f = st.frame.closure
        while v is None and f is not None:
            v = f.locals.get(parts[0])
            f = f.closure
        for p_ in parts[1:]:
            v = ex.getattr_(st, v, p_)
        return v
    a, b = resolve(entry), resolve(s)
    goal = ex.eq_frame(s, a, b)
    conj_ = [goal]
    for (g1, x), (g2, y) in zip(alts_of(a), alts_of(b)):
        if isinstance(x, VRef) and isinstance(y, VRef) and x.oid == y.oid:
            oa, ob = entry.heap.get(x.oid), s.heap.get(y.oid)
            if oa is not None and ob is not None and oa.sym is not None and ob.sym is not None:
                k = z3.Const(fresh_name("pk"), oa.sym["has"].sort().domain())
                conj_.append(z3.And(z3.Select(oa.sym["has"], k) == z3.Select(ob.sym["has"], k),
                                    z3.Select(oa.sym["val"], k) == z3.Select(ob.sym["val"], k)))
    ex.oblige("loop-preserves", s, z3.And(*conj_), label="loop%d.%s" % (ordinal, path))


def _spec_env(ex, s):
    env = {}
    f = s.frame
    chain = []
    while f is not None:
        chain.append(f)
        f = f.closure
    for f in reversed(chain):
        env.update({k: v for k, v in f.locals.items() if not k.startswith("__")})
    if s.ghost is not None:
        env["ghost"] = s.ghost
    for k, v in getattr(ex, "unit_env", {}).items():
        env.setdefault(k + "_0", v)         # entry values of the parameters
    return env


# ------------------------------------------------------------------------------------------ comprehensions

def _list_comp_symbolic(ex, state, e, g, v):
    """[f(x) for x in xs] over a list of unknown length: a *sound over-approximation* -- the result has the length of xs
    and elements of the kind f yields; f is evaluated once on an arbitrary element so that whatever it may raise is
    accounted for; the element values themselves are left unknown"""
    from .engine import value_of_elem, elem_sort
    src = ex.obj(state, v)
    k = z3.Int(fresh_name("comp_k"))
    state.assume(z3.And(k >= 0, k < z3.Length(src.seq)))
    fr = Frame(None, {}, closure=state.frame)
    fr.module = state.frame.module
    state.frames.append(fr)
    try:
        ex.assign(state, g.target, value_of_elem(src.elem, src.seq[k]))
        sample = ex.ev(state, e.elt)
    finally:
        state.frames.pop()
    kind = {"str": "str", "int": "int", "bytes": "bytes", "bool": "bool"}.get(getattr(sample, "kind", None))
    if kind is None:
        raise Unsupported("comprehension over a symbolic list yielding %r" % (sample,))
    o = HObj("list")
    o.items, o.elem = None, kind
    o.seq = z3.Const(fresh_name("comp"), z3.SeqSort(elem_sort(kind)))
    state.assume(z3.Length(o.seq) == z3.Length(src.seq))
    ex.notes["assumed"].add("list comprehension over a list of unknown length is over-approximated (length only)")
    return state.alloc(o)


def list_comp(ex, state, e):
    if len(e.generators) != 1:
        raise Unsupported("nested comprehension")
    g = e.generators[0]
    v = ex.ev(state, g.iter)
    if isinstance(v, VRef) and ex.obj(state, v).kind == "list" and ex.obj(state, v).items is None and not g.ifs:
        return _list_comp_symbolic(ex, state, e, g, v)
    items = concrete_items(ex, state, v, e)
    out = []
    fr = Frame(None, {}, closure=state.frame)
    fr.module = state.frame.module
    state.frames.append(fr)
    try:
        for it in items:
            ex.assign(state, g.target, it)
            keep = z3.BoolVal(True)
            for cond in g.ifs:
                keep = z3.And(keep, ex.truthy(state, ex.ev(state, cond)))
            keep = simp(keep)
            if is_false(keep):
                continue
            if not is_true(keep):
                raise Unsupported("comprehension with symbolic filter")
            out.append(ex.ev(state, e.elt))
    finally:
        state.frames.pop()
    o = HObj("list")
    o.items = out
    return state.alloc(o)
