"""C front end for the two NVX files: gcc -E (stub headers, no system includes) + pycparser, then a
mechanical syntax-directed translation of the C AST into Python source that the same executor runs.

What the translation does / drops (reported in the evidence):
  * pointer casts `(T*) p` are dropped (aliasing the same object); `const`, `static`, alignment attributes dropped
  * `a->b`, `a.b` -> attribute access on a declared struct shape; `p[i]` -> indexing (out-of-range reads/writes
    raise IndexError, i.e. memory safety of buffer accesses is an obligation `raises: {}`)
  * assignments to integer-typed lvalues are wrapped in `c_chk(value, "<ctype>")`: the value must be in the
    type's range (signed overflow is UB; unsigned wrap-around is conservatively also required not to happen)
  * pointer arithmetic on byte pointers -> `c_ptr_add(p, n)` (a (buffer, offset) pair); `(uintptr_t) p` ->
    `c_ptr_addr(p)` (symbolic base address + offset)
  * `for(init; c; step)` -> init; while c: body; step   (a `continue` in such a body is unsupported)
  * `switch` -> if/elif chain (every case must end in break/return)
  * SSE2 intrinsics -> `c_mm_*` builtins over 16-tuples of octets (see models_c)
"""
import os
import subprocess
import tempfile

STUBS = os.path.join(os.path.dirname(os.path.abspath(__file__)), "cstub")

INT_TYPES = {"int": (-(2 ** 31), 2 ** 31 - 1), "unsigned int": (0, 2 ** 32 - 1), "size_t": (0, 2 ** 64 - 1),
             "uint8_t": (0, 255), "uintptr_t": (0, 2 ** 64 - 1), "uint32_t": (0, 2 ** 32 - 1),
             "uint64_t": (0, 2 ** 64 - 1), "long": (-(2 ** 63), 2 ** 63 - 1), "char": (-128, 127),
             "unsigned char": (0, 255), "int32_t": (-(2 ** 31), 2 ** 31 - 1), "int64_t": (-(2 ** 63), 2 ** 63 - 1)}


class CUnsupported(Exception):
    pass


def preprocess(path, defines=("__SSE2__",), undefs=("__SSE4_1__",)):
    cmd = ["gcc", "-E", "-P", "-nostdinc", "-I", STUBS, "-D__attribute__(x)=", "-D__declspec(x)="]
    for d in defines:
        cmd.append("-D" + d)
    for u in undefs:
        cmd.append("-U" + u)
    cmd.append(path)
    p = subprocess.run(cmd, capture_output=True, text=True)
    if p.returncode != 0:
        raise CUnsupported("gcc -E failed: " + p.stderr[:500])
    return p.stdout


def translate_file(path, **kw):
    """returns python source text of the translated C translation unit"""
    from pycparser import c_parser
    text = preprocess(path, **kw)
    ast_ = c_parser.CParser().parse(text, filename=path)
    return Translator().unit(ast_)


class Translator:
    def __init__(self):
        self.lines = []
        self.types = {}          # variable name -> ctype string (per function)
        self.struct_fields = {}  # typedef name -> {field: ctype}
        self.array_locals = set()
        self.tmp = 0

    # ---- helpers
    def ctype(self, t):
        from pycparser import c_ast
        if isinstance(t, c_ast.TypeDecl):
            return self.ctype(t.type)
        if isinstance(t, c_ast.IdentifierType):
            return " ".join(t.names)
        if isinstance(t, c_ast.PtrDecl):
            return self.ctype(t.type) + "*"
        if isinstance(t, c_ast.ArrayDecl):
            return self.ctype(t.type) + "[]"
        if isinstance(t, c_ast.Struct):
            return "struct"
        if isinstance(t, c_ast.FuncDecl):
            return "func"
        return "?"

    def emit(self, ind, s):
        self.lines.append("    " * ind + s)

    # ---- translation unit
    def unit(self, node):
        from pycparser import c_ast
        out = ["# translated mechanically from C by pyvc.cfront on this run; do not edit", ""]
        for ext in node.ext:
            if isinstance(ext, c_ast.Typedef):
                if isinstance(ext.type, c_ast.TypeDecl) and isinstance(ext.type.type, c_ast.Struct) and ext.type.type.decls:
                    self.struct_fields[ext.name] = {d.name: self.ctype(d.type) for d in ext.type.type.decls}
                continue
            if isinstance(ext, c_ast.Decl):
                if isinstance(ext.type, c_ast.ArrayDecl) and ext.init is not None:
                    vals = [self.expr(e) for e in ext.init.exprs]
                    out.append("%s = (%s,)" % (ext.name, ", ".join(vals)))
                    out.append("")
                continue
            if isinstance(ext, c_ast.FuncDef):
                self.lines = []
                self.func(ext)
                out.extend(self.lines)
                out.append("")
        out.append("C_STRUCTS = %r" % (self.struct_fields,))
        return "\n".join(out) + "\n"

    def func(self, fd):
        from pycparser import c_ast
        self.types = {}
        self.array_locals = set()
        params = []
        if fd.decl.type.args is not None:
            for p in fd.decl.type.args.params:
                if isinstance(p, c_ast.Typename) or p.name is None:
                    continue
                params.append(p.name)
                self.types[p.name] = self.ctype(p.type)
        self.emit(0, "def %s(%s):" % (fd.decl.name, ", ".join(params)))
        n0 = len(self.lines)
        self.block(fd.body, 1)
        if len(self.lines) == n0:
            self.emit(1, "pass")

    def block(self, node, ind):
        from pycparser import c_ast
        if node is None:
            self.emit(ind, "pass")
            return
        if not isinstance(node, c_ast.Compound):
            self.stmt(node, ind)
            return
        if not node.block_items:
            self.emit(ind, "pass")
            return
        for it in node.block_items:
            self.stmt(it, ind)

    def assign(self, lhs_c, rhs_py, ind, lhs_node=None):
        ct = self.lvalue_type(lhs_node) if lhs_node is not None else None
        if ct in INT_TYPES:
            rhs_py = 'c_chk(%s, "%s")' % (rhs_py, ct)
        self.emit(ind, "%s = %s" % (lhs_c, rhs_py))

    def lvalue_type(self, node):
        from pycparser import c_ast
        if isinstance(node, c_ast.ID):
            return self.types.get(node.name)
        if isinstance(node, c_ast.StructRef):
            bt = self.lvalue_type(node.name)
            if bt:
                st = bt.rstrip("*").strip()
                return self.struct_fields.get(st, {}).get(node.field.name)
            return None
        if isinstance(node, c_ast.ArrayRef):
            bt = self.lvalue_type(node.name)
            if bt and (bt.endswith("*") or bt.endswith("[]")):
                return bt[:-1].strip() if bt.endswith("*") else bt[:-2].strip()
            return None
        if isinstance(node, c_ast.Cast):
            return self.ctype(node.to_type.type)
        return None

    def stmt(self, s, ind):
        from pycparser import c_ast
        if isinstance(s, c_ast.Decl):
            ct = self.ctype(s.type)
            self.types[s.name] = ct
            if isinstance(s.type, c_ast.ArrayDecl):
                n = self.expr(s.type.dim)
                self.array_locals.add(s.name)
                self.emit(ind, "%s = c_local_array(%s)" % (s.name, n))
                return
            if s.init is None:
                self.emit(ind, "%s = c_uninit()" % s.name)
            else:
                self.assign(s.name, self.expr(s.init), ind, c_ast.ID(s.name))
            return
        if isinstance(s, c_ast.Assignment):
            lhs = self.expr(s.lvalue)
            rhs = self.expr(s.rvalue)
            if s.op == "=":
                self.assign(lhs, rhs, ind, s.lvalue)
            else:
                op = s.op[:-1]
                lt = self.lvalue_type(s.lvalue)
                if lt and lt.endswith("*") and op in ("+", "-"):
                    self.emit(ind, "%s = c_ptr_add(%s, %s%s, %d)" % (lhs, lhs, "-" if op == "-" else "", rhs,
                                                                     self.elem_size(lt)))
                    return
                pyop = {"/": "//"}.get(op, op)
                self.assign(lhs, "%s %s (%s)" % (lhs, pyop, rhs), ind, s.lvalue)
            return
        if isinstance(s, c_ast.UnaryOp) and s.op in ("p++", "++", "p--", "--"):
            lhs = self.expr(s.expr)
            d = "+" if "+" in s.op else "-"
            lt = self.lvalue_type(s.expr)
            if lt and lt.endswith("*"):
                self.emit(ind, "%s = c_ptr_add(%s, %s1, %d)" % (lhs, lhs, "" if d == "+" else "-", self.elem_size(lt)))
                return
            self.assign(lhs, "%s %s 1" % (lhs, d), ind, s.expr)
            return
        if isinstance(s, c_ast.FuncCall):
            self.emit(ind, self.expr(s))
            return
        if isinstance(s, c_ast.Return):
            self.emit(ind, "return" + (" " + self.expr(s.expr) if s.expr is not None else ""))
            return
        if isinstance(s, c_ast.If):
            self.emit(ind, "if %s:" % self.cond(s.cond))
            self.block(s.iftrue, ind + 1)
            if s.iffalse is not None:
                if isinstance(s.iffalse, c_ast.If):
                    self.emit(ind, "else:")
                    self.stmt(s.iffalse, ind + 1)
                else:
                    self.emit(ind, "else:")
                    self.block(s.iffalse, ind + 1)
            return
        if isinstance(s, c_ast.While):
            self.emit(ind, "while %s:" % self.cond(s.cond))
            self.block(s.stmt, ind + 1)
            return
        if isinstance(s, c_ast.For):
            if _contains(s.stmt, "Continue"):
                raise CUnsupported("continue inside for")
            if s.init is not None:
                if isinstance(s.init, c_ast.DeclList):
                    for d in s.init.decls:
                        self.stmt(d, ind)
                else:
                    self.stmt(s.init, ind)
            self.emit(ind, "while %s:" % (self.cond(s.cond) if s.cond is not None else "True"))
            self.block(s.stmt, ind + 1)
            if s.next is not None:
                self.stmt(s.next, ind + 1)
            return
        if isinstance(s, c_ast.Compound):
            self.block(s, ind)
            return
        if isinstance(s, c_ast.Break):
            self.emit(ind, "break")
            return
        if isinstance(s, c_ast.Continue):
            self.emit(ind, "continue")
            return
        if isinstance(s, c_ast.Switch):
            self.switch(s, ind)
            return
        if isinstance(s, c_ast.EmptyStatement):
            self.emit(ind, "pass")
            return
        raise CUnsupported("C statement %s" % type(s).__name__)

    def switch(self, s, ind):
        from pycparser import c_ast
        val = self.expr(s.cond)
        first = True
        default = None
        for c in s.stmt.block_items:
            if isinstance(c, c_ast.Default):
                default = c
                continue
            if not isinstance(c, c_ast.Case):
                raise CUnsupported("switch body")
            stmts = list(c.stmts or [])
            if not stmts or not isinstance(stmts[-1], (c_ast.Break, c_ast.Return)):
                raise CUnsupported("switch fallthrough")
            self.emit(ind, "%s %s == %s:" % ("if" if first else "elif", val, self.expr(c.expr)))
            first = False
            body = [x for x in stmts if not isinstance(x, c_ast.Break)]
            if not body:
                self.emit(ind + 1, "pass")
            for x in body:
                self.stmt(x, ind + 1)
        if default is not None:
            stmts = [x for x in (default.stmts or []) if not isinstance(x, c_ast.Break)]
            if first:
                for x in stmts:
                    self.stmt(x, ind)
            else:
                self.emit(ind, "else:")
                if not stmts:
                    self.emit(ind + 1, "pass")
                for x in stmts:
                    self.stmt(x, ind + 1)

    def elem_size(self, ptr_type):
        base = ptr_type.rstrip("*").strip()
        return {"__m128i": 16, "uint8_t": 1, "char": 1, "unsigned char": 1}.get(base, 1)

    def cond(self, e):
        return self.expr(e, boolean=True)

    def expr(self, e, boolean=False):
        from pycparser import c_ast
        if isinstance(e, c_ast.Constant):
            if e.type in ("int", "long int", "unsigned int", "unsigned long int", "long long int",
                          "unsigned long long int"):
                v = e.value.rstrip("uUlL")
                return str(int(v, 0))
            if e.type == "char":
                return str(ord(eval(e.value)))
            raise CUnsupported("constant type " + e.type)
        if isinstance(e, c_ast.ID):
            return e.name
        if isinstance(e, c_ast.StructRef):
            return "%s.%s" % (self.expr(e.name), e.field.name)
        if isinstance(e, c_ast.ArrayRef):
            return "%s[%s]" % (self.expr(e.name), self.expr(e.subscript))
        if isinstance(e, c_ast.Cast):
            to = self.ctype(e.to_type.type)
            inner = self.expr(e.expr)
            if to.endswith("*"):
                src_t = self.lvalue_type(e.expr)
                if e.expr.__class__.__name__ == "ID" and e.expr.name in self.array_locals:
                    return "c_ptr_of(%s)" % inner
                return inner
            if to == "uintptr_t":
                return "c_ptr_addr(%s)" % inner
            if to in INT_TYPES:
                return 'c_cast(%s, "%s")' % (inner, to)
            raise CUnsupported("cast to " + to)
        if isinstance(e, c_ast.BinaryOp):
            a, b = self.expr(e.left), self.expr(e.right)
            if e.op == "&&":
                return "(%s and %s)" % (a, b)
            if e.op == "||":
                return "(%s or %s)" % (a, b)
            if e.op in ("+", "-"):
                lt = self.lvalue_type(e.left)
                if lt and lt.endswith("*"):
                    return "c_ptr_add(%s, %s%s, %d)" % (a, "-" if e.op == "-" else "", b, self.elem_size(lt))
            if e.op == "/":
                return "c_div(%s, %s)" % (a, b)
            if e.op == "%":
                return "c_mod(%s, %s)" % (a, b)
            return "(%s %s %s)" % (a, e.op, b)
        if isinstance(e, c_ast.UnaryOp):
            if e.op == "!":
                return "(not %s)" % self.expr(e.expr)
            if e.op == "-":
                return "(-%s)" % self.expr(e.expr)
            if e.op == "~":
                return "(~%s)" % self.expr(e.expr)
            if e.op == "sizeof":
                return "c_sizeof(%r)" % self.ctype(e.expr.type if hasattr(e.expr, "type") else e.expr)
            if e.op == "*":
                return "%s[0]" % self.expr(e.expr)
            raise CUnsupported("unary %s in expression" % e.op)
        if isinstance(e, c_ast.TernaryOp):
            return "(%s if %s else %s)" % (self.expr(e.iftrue), self.expr(e.cond), self.expr(e.iffalse))
        if isinstance(e, c_ast.FuncCall):
            args = [self.expr(a) for a in (e.args.exprs if e.args else [])]
            name = self.expr(e.name)
            if name.startswith("_mm_") or name in ("malloc", "free", "memcpy", "__builtin_prefetch", "__builtin_expect"):
                name = "c_" + name.lstrip("_")
            return "%s(%s)" % (name, ", ".join(args))
        raise CUnsupported("C expression %s" % type(e).__name__)


def _contains(node, clsname):
    if node is None:
        return False
    if type(node).__name__ == clsname:
        return True
    for _, c in node.children():
        if _contains(c, clsname):
            return True
    return False
