"""Uninterpreted / axiomatised functions shared by models and specs.  AXIOMS maps a function name to
quantified axioms; the solver front end adds the axioms of exactly the functions a VC mentions."""
import z3
from .values import BytesSort, fresh_name

SeqBytes = z3.SeqSort(BytesSort)
AXIOMS = {}

# ---- b"".join(list of bytes)
join = z3.Function("join_bytes", SeqBytes, BytesSort)
_s = z3.Const("ax_s", SeqBytes)
_x = z3.Const("ax_x", BytesSort)
_t = z3.Const("ax_t", SeqBytes)
AXIOMS["join_bytes"] = [
    join(z3.Empty(SeqBytes)) == z3.Empty(BytesSort),
    z3.ForAll([_s, _x], join(z3.Concat(_s, z3.Unit(_x))) == z3.Concat(join(_s), _x),
              patterns=[join(z3.Concat(_s, z3.Unit(_x)))]),
    z3.ForAll([_x], join(z3.Unit(_x)) == _x, patterns=[join(z3.Unit(_x))]),
    # lemma (structural induction over the second list, proved in join_lemma_obligations): join distributes over ++
    z3.ForAll([_s, _t], join(z3.Concat(_s, _t)) == z3.Concat(join(_s), join(_t)), patterns=[join(z3.Concat(_s, _t))]),
]


def join_lemma_obligations():
    """(hypotheses, goal) pairs proving  join(s ++ t) == join(s) ++ join(t)  by structural induction on t
    from the two defining axioms of join (empty, snoc)"""
    defs = AXIOMS["join_bytes"][:2]
    s, t1 = z3.Consts("jl_s jl_t1", SeqBytes)
    x = z3.Const("jl_x", BytesSort)
    base = (defs, join(z3.Concat(s, z3.Empty(SeqBytes))) == z3.Concat(join(s), join(z3.Empty(SeqBytes))))
    ih = join(z3.Concat(s, t1)) == z3.Concat(join(s), join(t1))
    u = z3.Const("jl_u", SeqBytes)
    t = z3.Concat(t1, z3.Unit(x))
    # instances of the snoc axiom at (u, x) and (t1, x), with u naming s ++ t1 (sequence concatenation is
    # associative in the sequence theory: s ++ (t1 ++ [x]) == u ++ [x])
    step = ([u == z3.Concat(s, t1), ih,
             join(z3.Concat(u, z3.Unit(x))) == z3.Concat(join(u), x),
             join(z3.Concat(t1, z3.Unit(x))) == z3.Concat(join(t1), x)],
            z3.And(z3.Concat(s, t) == z3.Concat(u, z3.Unit(x)),
                   join(z3.Concat(u, z3.Unit(x))) == z3.Concat(join(s), join(t))))
    return [("join-distributes/induction-base", base), ("join-distributes/induction-step", step)]


def join_bytes(seq):
    return join(seq)


# ---- text codecs (uninterpreted; the UTF-8 *validator* of the repo is verified against its own spec in C09)
utf8_valid_f = z3.Function("utf8_valid", BytesSort, z3.BoolSort())
utf8_decode_f = z3.Function("utf8_decode", BytesSort, z3.StringSort())
utf8_encode_f = z3.Function("utf8_encode", z3.StringSort(), BytesSort)
latin1_decode_f = z3.Function("latin1_decode", BytesSort, z3.StringSort())
latin1_encode_f = z3.Function("latin1_encode", z3.StringSort(), BytesSort)
has_surrogate_f = z3.Function("has_surrogate", z3.StringSort(), z3.BoolSort())
is_ascii_f = z3.Function("is_ascii", BytesSort, z3.BoolSort())
str_is_ascii_f = z3.Function("str_is_ascii", z3.StringSort(), z3.BoolSort())
str_is_latin1_f = z3.Function("str_is_latin1", z3.StringSort(), z3.BoolSort())
hexlify_f = z3.Function("hexlify", BytesSort, z3.StringSort())
_u = z3.Const("ax_u", z3.StringSort())
_b = z3.Const("ax_b", BytesSort)
AXIOMS["utf8_encode"] = [
    z3.ForAll([_u], z3.Implies(z3.Not(has_surrogate_f(_u)), z3.And(utf8_valid_f(utf8_encode_f(_u)),
                                                                  utf8_decode_f(utf8_encode_f(_u)) == _u)),
              patterns=[utf8_encode_f(_u)]),
    z3.ForAll([_u], z3.Length(utf8_encode_f(_u)) >= z3.Length(_u), patterns=[utf8_encode_f(_u)]),
]
AXIOMS["latin1_decode"] = [
    z3.ForAll([_b], z3.Length(latin1_decode_f(_b)) == z3.Length(_b), patterns=[latin1_decode_f(_b)]),
]


def utf8_valid(t):
    return utf8_valid_f(t)


def utf8_decode(t):
    return utf8_decode_f(t)


def utf8_encode(t):
    return utf8_encode_f(t)


def latin1_decode(t):
    return latin1_decode_f(t)


def latin1_encode(t):
    return latin1_encode_f(t)


def has_surrogate(t):
    return has_surrogate_f(t)


def is_ascii(t):
    return is_ascii_f(t)


def str_is_ascii(t):
    return str_is_ascii_f(t)


def str_is_latin1(t):
    return str_is_latin1_f(t)


def hexlify(t):
    return hexlify_f(t)


def latin1_encode_of_hex(t):
    return latin1_encode_f(hexlify_f(t))


_strfns = {}


def str_fn(ex, state, name, sv, args):
    """deterministic but uninterpreted string function (lower/strip/...): equal inputs give equal outputs"""
    from .values import VStr
    key = (name, len(args))
    if not all(isinstance(a, VStr) for a in args):
        return z3.String(fresh_name("str_" + name))
    if key not in _strfns:
        _strfns[key] = z3.Function("str_%s_%d" % key, *([z3.StringSort()] * (len(args) + 2)))
    return _strfns[key](sv.t, *[a.t for a in args])


_split_fns = {}


def str_split(ex, state, sv, args, kind="split"):
    """s.split() / s.split(sep[, n]) / s.rsplit(sep[, n]) / s.splitlines() on text (str only): a *sound over-approximation*.
    The result is a function of the arguments (equal calls give equal lists) about which only the length facts that
    callers rely on are known: at least one piece when a separator is given, at most n+1 pieces for a split limit n, and
    with a limit of one exactly two pieces iff the separator occurs.  Nothing is known about the pieces themselves."""
    from .values import VStr, VInt, Unsupported, simp
    from .engine import HObj
    if not isinstance(sv, VStr):
        raise Unsupported("split on bytes (needs a contract-level model)")
    SS = z3.SeqSort(z3.StringSort())
    sep = args[0] if args and isinstance(args[0], VStr) else None
    lim = args[1] if len(args) > 1 and isinstance(args[1], VInt) else None
    key = (kind, sep is not None, lim is not None)
    if key not in _split_fns:
        sig = [z3.StringSort()] + ([z3.StringSort()] if sep is not None else []) + ([z3.IntSort()] if lim is not None else [])
        _split_fns[key] = z3.Function("str_%s_%d%d" % (kind, int(sep is not None), int(lim is not None)), *(sig + [SS]))
    fargs = [sv.t] + ([sep.t] if sep is not None else []) + ([lim.t] if lim is not None else [])
    seq = _split_fns[key](*fargs)
    n = z3.Length(seq)
    if sep is not None:
        state.assume(n >= 1)
        ex.raise_if(state, z3.Length(sep.t) == 0, "ValueError")
        if lim is not None:
            state.assume(z3.Implies(lim.t >= 0, n <= lim.t + 1))
            state.assume(z3.Implies(lim.t == 1, (n == 2) == z3.Contains(sv.t, sep.t)))
        state.assume(z3.Implies(z3.Not(z3.Contains(sv.t, sep.t)), n == 1))
    o = HObj("list")
    o.items, o.seq, o.elem = None, seq, "str"
    ex.notes["assumed"].add("str.%s is over-approximated (only length facts are modelled)" % kind)
    return state.alloc(o)


# ---- octet-wide bit operations between two symbolic operands (defined functions; the definition is only
#      needed by the spec-level lemmas, e.g. involution, which are proved over bit-vectors)
bxor8 = z3.Function("bxor8", z3.IntSort(), z3.IntSort(), z3.IntSort())
band8 = z3.Function("band8", z3.IntSort(), z3.IntSort(), z3.IntSort())
bor8 = z3.Function("bor8", z3.IntSort(), z3.IntSort(), z3.IntSort())


def bit8_definitions():
    """definitional axioms (exact bitwise semantics on octets), for lemma proofs"""
    a, b = z3.Ints("ax_a ax_b")
    rng = z3.And(a >= 0, a <= 255, b >= 0, b <= 255)
    A, B = z3.Int2BV(a, 8), z3.Int2BV(b, 8)
    return [z3.ForAll([a, b], z3.Implies(rng, bxor8(a, b) == z3.BV2Int(A ^ B)), patterns=[bxor8(a, b)]),
            z3.ForAll([a, b], z3.Implies(rng, band8(a, b) == z3.BV2Int(A & B)), patterns=[band8(a, b)]),
            z3.ForAll([a, b], z3.Implies(rng, bor8(a, b) == z3.BV2Int(A | B)), patterns=[bor8(a, b)])]


# ---- bytes <-> array('B')   (elements are octets 0..255 in both representations)
def bytes_to_array(ex, state, t):
    arr = z3.Array(fresh_name("arr_of_bytes"), z3.IntSort(), z3.IntSort())
    i = z3.Int(fresh_name("ax_i"))
    state.assume(z3.ForAll([i], z3.Implies(z3.And(i >= 0, i < z3.Length(t)), z3.Select(arr, i) == t[i]),
                           patterns=[z3.Select(arr, i)]))
    return arr


def array_to_bytes(ex, state, arr, n):
    t = z3.Const(fresh_name("bytes_of_arr"), BytesSort)
    i = z3.Int(fresh_name("ax_i"))
    state.assume(z3.Length(t) == n)
    state.assume(z3.ForAll([i], z3.Implies(z3.And(i >= 0, i < n), t[i] == z3.Select(arr, i)), patterns=[t[i]]))
    return t


py_int_ok_f = z3.Function("py_int_ok", z3.StringSort(), z3.BoolSort())
py_int_f = z3.Function("py_int", z3.StringSort(), z3.IntSort())
fmt06d_f = z3.Function("fmt06d", z3.IntSort(), z3.StringSort())


def fmt06d(v):
    """f"{v:06d}" for v >= 0 (decimal digits left-padded with zeros to 6 characters) as a defined function symbol:
    equal numbers give equal strings by congruence; the padding definition is only an axiom"""
    return fmt06d_f(v)


def fmt06d_definition():
    v = z3.Int("ax_v")
    s = z3.IntToStr(v)
    n = z3.Length(s)
    pad = z3.StringVal("")
    for k, z in ((5, "0"), (4, "00"), (3, "000"), (2, "0000"), (1, "00000")):
        pad = z3.If(n == k, z3.StringVal(z), pad)
    return z3.ForAll([v], z3.Implies(v >= 0, fmt06d_f(v) == z3.Concat(pad, s)), patterns=[fmt06d_f(v)])
