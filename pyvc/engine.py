"""pyvc engine: forward symbolic execution of real Python source (ast) with contracts.

* state merging at joins (one VC per obligation instead of one per path)
* calls are never inlined silently: contract > catalog external > explicit inline > havoc
* partial operations fork an exceptional outcome guarded by their raising condition
"""
import ast
import z3

from . import loader
from .values import *  # noqa


class Obligation:
    def __init__(self, name, kind, pc, goal, info=None):
        self.name = name
        self.kind = kind
        self.pc = list(pc)
        self.goal = goal
        self.info = info or {}
        self.status = None      # proved | refuted | unknown
        self.model = None
        self.backend = None
        self.time = 0.0


class HObj:
    def __init__(self, kind, cls=None, shape=None):
        self.kind = kind        # inst | list | ulist | dict | barray | exc
        self.cls = cls          # VClass (inst/exc)
        self.shape = shape      # shape name for declared symbolic objects
        self.fields = {}
        self.items = None       # list: python list of V (concrete length)
        self.seq = None         # list: z3 Seq term (symbolic length), elem type in .elem
        self.elem = None
        self.d = None           # dict: python dict const-key -> V   (concrete key set)
        self.arr = None         # barray: z3 Array Int->BV8 ; length in .n (z3 Int)
        self.n = None
        self.sym = None         # dict: symbolic table {ktype, vtype, has: Array K->Bool, val: Array K->V}
        self.frozen = False

    def copy(self):
        o = HObj(self.kind, self.cls, self.shape)
        o.fields = dict(self.fields)
        o.items = list(self.items) if self.items is not None else None
        o.seq, o.elem = self.seq, self.elem
        o.d = dict(self.d) if self.d is not None else None
        o.arr, o.n = self.arr, self.n
        o.sym = dict(self.sym) if self.sym is not None else None
        o.frozen = self.frozen
        if getattr(self, "opt", None) is not None:
            o.opt = dict(self.opt)      # dict with optional keys: key -> presence guard
        for k in ("uctx", "open", "other", "other_key", "alien"):      # untrusted containers (types ulist: / udict:), immutable
            if hasattr(self, k):
                setattr(o, k, getattr(self, k))
        if hasattr(self, "cache"):
            o.cache = dict(self.cache)      # ulist: elements already materialised (index term -> value)
        return o


class Frame:
    def __init__(self, finfo, locs=None, closure=None, self_cls=None):
        self.finfo = finfo              # loader.FuncInfo or None (spec / clause frames)
        self.locals = locs if locs is not None else {}
        self.closure = closure          # enclosing Frame (for nested defs) or None
        self.module = finfo.module if finfo is not None else None
        self.self_cls = self_cls

    def copy(self, memo):
        if id(self) in memo:
            return memo[id(self)]
        f = Frame(self.finfo, dict(self.locals), None, self.self_cls)
        f.module = self.module
        memo[id(self)] = f
        if self.closure is not None:
            f.closure = self.closure.copy(memo)
        return f


class State:
    def __init__(self):
        self.frames = []
        self.heap = {}
        self.pc = []
        self.pending = []       # (State, exc V) raised while evaluating an expression
        self.sheap = {}         # (shape, field) -> z3 array (symbolic-record heap)
        self.next_oid = [1000]
        self.notes = None
        self.paths = {}         # oid -> access path from the unit's parameters ("self.factory")
        self.ghost = None
        self._chk = (0, None)   # (n, id of pc[n-1]): pc[:n] is known to contain no literal False

    def copy(self):
        s = State()
        memo = {}
        s.frames = [f.copy(memo) for f in self.frames]
        s.heap = {k: v.copy() for k, v in self.heap.items()}
        s.pc = list(self.pc)
        s.sheap = dict(self.sheap)
        s.next_oid = self.next_oid
        s.notes = self.notes
        s.paths = self.paths
        s.ghost = self.ghost
        s._chk = self._chk
        return s

    def become(self, other):
        self.frames, self.heap, self.pc, self.sheap = other.frames, other.heap, other.pc, other.sheap
        self._chk = other._chk

    @property
    def frame(self):
        return self.frames[-1]

    def assume(self, t):
        t = simp(t) if z3.is_bool(t) else t
        if not is_true(t):
            self.pc.append(t)

    def alloc(self, hobj):
        oid = self.next_oid[0]
        self.next_oid[0] += 1
        self.heap[oid] = hobj
        return VRef(oid)

    def dead(self):
        # incremental scan: the checked prefix is identified by its length and its last element
        n, last = self._chk
        pc = self.pc
        if n > len(pc) or (n > 0 and pc[n - 1].get_id() != last):
            n = 0
        for i in range(n, len(pc)):
            if is_false(pc[i]):
                return True
        self._chk = (len(pc), pc[-1].get_id() if pc else None)
        return False


class Outcome:
    def __init__(self, kind, state, val=None):
        self.kind = kind        # normal | return | raise | break | continue
        self.state = state
        self.val = val


def common_prefix(pcs):
    n = min(len(p) for p in pcs)
    i = 0
    while i < n and all(p[i].eq(pcs[0][i]) for p in pcs[1:]):
        i += 1
    return i


def merge_states(states):
    """Merge states that diverged from a common ancestor into one (ITE on differing values)."""
    states = [s for s in states if not s.dead()]
    if not states:
        return None
    if len(states) == 1:
        return states[0]
    k = common_prefix([s.pc for s in states])
    raw = [simp(conj(s.pc[k:])) for s in states]
    out = states[0].copy()
    out.pc = states[0].pc[:k] + [simp(disj(raw))]
    out.pc = [t for t in out.pc if not is_true(t)]
    # name the branch guards (keeps merged ITE terms small: the guard formula occurs once, in its definition)
    guards = []
    for g in raw:
        if not NAMING[0]:
            guards.append(g)
        elif z3.is_const(g) or (z3.is_not(g) and z3.is_const(g.arg(0))) or is_true(g) or is_false(g):
            guards.append(g)
        else:
            b = z3.Bool(fresh_name("br"))
            out.pc.append(b == g)
            guards.append(b)
    out._naming = True
    # frames: same depth & same functions by construction
    for fi, fr in enumerate(out.frames):
        _merge_frame(fr, [s.frames[fi] for s in states], guards, set())
    # heap
    oids = set()
    for s in states:
        oids.update(s.heap.keys())
    for oid in oids:
        objs = [(g, s.heap[oid]) for g, s in zip(guards, states) if oid in s.heap]
        if len(objs) < len(states):
            out.heap[oid] = objs[0][1].copy()   # allocated on some branches only: reachable only under their guards
            if len(objs) == 1:
                continue
        out.heap[oid] = _merge_objs(objs)
    keys = set()
    for s in states:
        keys.update(s.sheap.keys())
    for key in keys:
        alts = [(g, s.sheap[key]) for g, s in zip(guards, states) if key in s.sheap]
        t = alts[-1][1]
        for g, a in reversed(alts[:-1]):
            if not a.eq(t):
                t = z3.If(g, a, t)
        out.sheap[key] = t
    _name_merged(out)
    return out


def _name_value(out, v, hint):
    """replace a merged ITE term by a fresh constant defined in the path condition"""
    if isinstance(v, (VInt, VBool, VReal, VBytes, VStr)) and z3.is_app(v.t) and v.t.decl().kind() == z3.Z3_OP_ITE:
        c = z3.Const(fresh_name("m_" + hint), v.t.sort())
        out.pc.append(c == v.t)
        return type(v)(c)
    if isinstance(v, VPtr) and z3.is_app(v.off) and v.off.decl().kind() == z3.Z3_OP_ITE:
        c = z3.Int(fresh_name("m_" + hint))
        out.pc.append(c == v.off)
        return VPtr(v.base, c)
    return v


NAMING = [True]     # spec_term() needs closed terms: it switches naming of merged values off


def _name_merged(out):
    if not NAMING[0]:
        return
    seen = set()
    for fr in out.frames:
        f = fr
        while f is not None and id(f) not in seen:
            seen.add(id(f))
            for n, v in list(f.locals.items()):
                nv = _name_value(out, v, n)
                if nv is not v:
                    f.locals[n] = nv
            f = f.closure
    for oid, o in out.heap.items():
        for n, v in list(o.fields.items()):
            nv = _name_value(out, v, n)
            if nv is not v:
                o.fields[n] = nv


def _merge_frame(fr, frames, guards, seen):
    if id(fr) in seen:
        return
    seen.add(id(fr))
    names = set()
    for f in frames:
        names.update(f.locals.keys())
    for n in names:
        vals = [(g, f.locals[n]) for g, f in zip(guards, frames) if n in f.locals]
        if len(vals) < len(frames):
            # defined on some branches only: keep guarded (reading it elsewhere would be NameError)
            fr.locals[n] = mk_union(vals) if len(vals) > 1 else vals[0][1]
            continue
        first = vals[0][1]
        if all(same_value(first, v) for _, v in vals[1:]):
            fr.locals[n] = first
        else:
            fr.locals[n] = mk_union(vals)
    if fr.closure is not None:
        _merge_frame(fr.closure, [f.closure for f in frames], guards, seen)


def _ite_term(alts):
    t = alts[-1][1]
    for g, a in reversed(alts[:-1]):
        if not a.eq(t):
            t = z3.If(g, a, t)
    return t


def _merge_objs(objs):
    o = objs[0][1].copy()
    names = set()
    for _, ob in objs:
        names.update(ob.fields.keys())
    for n in names:
        vals = [(g, ob.fields[n]) for g, ob in objs if n in ob.fields]
        first = vals[0][1]
        if len(vals) == len(objs) and all(same_value(first, v) for _, v in vals[1:]):
            o.fields[n] = first
        else:
            o.fields[n] = mk_union(vals)
    if o.kind == "ulist":
        # elements are functions of the index: whichever branch materialised one, it is *the* element (its heap objects
        # exist in the merged heap); an index materialised differently on two branches is dropped and re-read on demand
        o.cache = {}
        bad = set()
        for _, ob in objs:
            for k, v in ob.cache.items():
                if k in o.cache and not same_value(v, o.cache[k]):
                    bad.add(k)
                o.cache.setdefault(k, v)
        for k in bad:
            del o.cache[k]
    if o.kind == "list" and any(ob.kind == "alist" for _, ob in objs):
        raise Unsupported("merge of list and array-list")
    if o.kind == "list":
        if all(ob.items is not None for _, ob in objs):
            lens = {len(ob.items) for _, ob in objs}
            if len(lens) == 1:
                o.items = [mk_union([(g, ob.items[i]) for g, ob in objs]) if not all(
                    same_value(objs[0][1].items[i], ob.items[i]) for _, ob in objs[1:]) else objs[0][1].items[i]
                    for i in range(lens.pop())]
            else:
                # differing concrete lengths: go symbolic
                seqs = []
                for g, ob in objs:
                    seqs.append((g, list_to_seq(ob)))
                o.items = None
                o.elem = seqs[0][1][1]
                o.seq = _ite_term([(g, s[0]) for g, s in seqs])
        else:
            seqs = [(g, list_to_seq(ob)) for g, ob in objs]
            o.items = None
            o.elem = seqs[0][1][1]
            o.seq = _ite_term([(g, s[0]) for g, s in seqs])
    if o.kind == "dict" and o.d is not None and o.sym is None:
        keys = set()
        for _, ob in objs:
            keys.update(ob.d.keys())
        opt = {}
        for k in keys:
            vals = [(g, ob.d[k]) for g, ob in objs if k in ob.d]
            # presence of the key after the merge: present on a branch iff it is in that branch's dict (and, for a
            # branch that already carries optional keys, its own presence guard holds)
            pres = []
            for g, ob in objs:
                if k in ob.d:
                    og = (getattr(ob, "opt", None) or {}).get(k)
                    pres.append(g if og is None else z3.And(g, og))
            if len(vals) < len(objs) or any((getattr(ob, "opt", None) or {}).get(k) is not None for _, ob in objs):
                opt[k] = simp(z3.Or(*pres)) if pres else z3.BoolVal(False)
            first = vals[0][1]
            o.d[k] = first if all(same_value(first, v) for _, v in vals[1:]) else mk_union(vals)
        if opt:
            o.opt = opt         # a dict with optional keys (see type odict): key -> presence guard
    if o.kind == "dict" and any(ob.sym is not None for _, ob in objs):
        tmpl = [ob.sym for _, ob in objs if ob.sym is not None][0]
        for _, ob in objs:
            if ob.sym is None:
                if ob.d:
                    raise Unsupported("merge of concrete-key dict and symbolic table")
                # an empty literal dict on this branch: the empty table
                ob.sym = {"ktype": tmpl["ktype"], "vtype": tmpl["vtype"],
                          "has": z3.K(tmpl["has"].sort().domain(), z3.BoolVal(False)), "val": tmpl["val"]}
                ob.d = None
        o.d = None
        o.sym = dict(tmpl)
        o.sym["has"] = _ite_term([(g, ob.sym["has"]) for g, ob in objs])
        o.sym["val"] = _ite_term([(g, ob.sym["val"]) for g, ob in objs])
    if o.kind == "alist":
        o.arr = _ite_term([(g, ob.arr) for g, ob in objs])
        o.n = _ite_term([(g, ob.n) for g, ob in objs])
    if o.kind == "barray":
        o.arr = _ite_term([(g, ob.arr) for g, ob in objs])
        o.n = _ite_term([(g, ob.n) for g, ob in objs])
    return o


ELEM_SORT = {"int": z3.IntSort(), "bytes": BytesSort, "str": z3.StringSort(), "bool": z3.BoolSort()}


def elem_sort(elem):
    if elem in ELEM_SORT:
        return ELEM_SORT[elem]
    if elem.startswith("sym:") or elem.startswith("ref"):
        return z3.IntSort()
    raise Unsupported("list element type " + str(elem))


def elem_of_value(v):
    if isinstance(v, VInt):
        return "int", v.t
    if isinstance(v, VBytes):
        return "bytes", v.t
    if isinstance(v, VStr):
        return "str", v.t
    if isinstance(v, VBool):
        return "bool", v.t
    if isinstance(v, VSym):
        return "sym:" + v.shape, v.t
    raise Unsupported("list element %r in symbolic list" % (v,))


def value_of_elem(elem, t):
    if elem == "int":
        return VInt(t)
    if elem == "bytes":
        return VBytes(t)
    if elem == "str":
        return VStr(t)
    if elem == "bool":
        return VBool(t)
    if elem.startswith("sym:"):
        return VSym(elem[4:], t)
    raise Unsupported("elem " + elem)


def list_to_seq(ob):
    """(seq term, elem) for a list object, converting a concrete-length list if needed."""
    if ob.items is None:
        return ob.seq, ob.elem
    if not ob.items:
        elem = ob.elem or "int"
        return z3.Empty(z3.SeqSort(elem_sort(elem))), elem
    pairs = [elem_of_value(v) for v in ob.items]
    elem = pairs[0][0]
    units = [z3.Unit(t) for _, t in pairs]
    return (units[0] if len(units) == 1 else z3.Concat(*units)), elem
