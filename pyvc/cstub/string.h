void* memcpy(void* d, const void* s, unsigned long n);
