typedef unsigned long size_t;
