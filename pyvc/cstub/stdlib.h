typedef unsigned long size_t;
void* malloc(size_t n);
void free(void* p);
