"""Driver: ./check <property> [--tier quick|thorough] [--replay file]

exit 0  every obligation discharged (only listed known findings refuted)
exit 1  an obligation refuted -> VIOLATION line
exit 2  undecided (unknown / timeout / unsupported construct / unknown callee)
exit 3  engine crash or hygiene failure (vacuity, zero obligations, cross-check disagreement)
"""
import argparse
import importlib
import json
import multiprocessing as mp
import os
import sys
import time
import traceback

VERIF = os.path.dirname(os.path.dirname(os.path.abspath(__file__)))


def load_property_module(pid):
    mod = importlib.import_module("contracts.%s" % pid.lower())
    return mod


def _verify_one(args):
    """worker: verify one unit (symbolic execution + solving), return a picklable summary"""
    pid, idx, tier, timeout_ms, overrides, width = args
    import z3
    from . import verify, loader
    from .contracts import Registry
    for m, text in (overrides or {}).items():
        loader.set_source_override(m, text)
    t0 = time.time()
    try:
        mod = load_property_module(pid)
        reg = Registry()
        mod.build(reg)
        reg.units = [c for c in reg.units if pid in c.props]
        contract = reg.units[idx]
        from . import values as _values
        import itertools as _it
        # VERIF_SEED perturbs the fresh-name numbering (and hence solver heuristics): verdicts must not depend on it
        _values._counter = _it.count(100000 + 1000 * (int(os.environ.get("VERIF_SEED", "0") or 0) % 50))
        res, ex = verify.verify_unit(reg, contract, tier)
        out = {"unit": res.name, "addr": res.addr, "status": res.status, "message": res.message, "notes": res.notes,
               "obligations": [], "covers": [], "exec_time": res.time, "digest": res.source_digest,
               "props": contract.props, "raises_only": contract.raises_only}
        if res.status == "ok":
            for name, pc in res.covers:
                out["covers"].append((name, verify.check_cover(pc)))
            hv = sorted(ex.notes.get("havoc_calls") or [])
            if hv:
                for ob in ex.obls:
                    # a callee without contract was havocked: nothing in this unit can be decided ("needs contract")
                    ob.status, ob.backend, ob.time = "unknown", "-", 0.0
                    ob.reason = "unit calls functions without contract (havocked): " + ", ".join(hv)
            else:
                verify.solve_all(ex.obls, timeout_ms, ex, width)
            for ob in ex.obls:
                d = {"name": ob.name, "kind": ob.kind, "status": ob.status, "backend": ob.backend,
                     "time": round(ob.time, 4), "info": _jsonable(ob.info)}
                if ob.status == "refuted":
                    d["inputs"] = getattr(ob, "inputs", None)
                if ob.status == "unknown":
                    d["reason"] = getattr(ob, "reason", "")
                    d["candidate_inputs"] = getattr(ob, "candidate_inputs", None)
                out["obligations"].append(d)
        out["wall"] = time.time() - t0
        return out
    except Exception:
        return {"unit": "%s[%d]" % (pid, idx), "addr": "?", "status": "crash", "message": traceback.format_exc(),
                "notes": {}, "obligations": [], "covers": [], "wall": time.time() - t0, "props": []}


def _jsonable(x):
    try:
        json.dumps(x)
        return x
    except TypeError:
        return {k: str(v) for k, v in x.items()} if isinstance(x, dict) else str(x)


def run_units(pid, tier, timeout_ms, overrides=None, only=None, jobs=None):
    from .contracts import Registry
    mod = load_property_module(pid)
    reg = Registry()
    mod.build(reg)
    reg.units = [c for c in reg.units if pid in c.props]
    idxs = [i for i, c in enumerate(reg.units) if only is None or any(o in c.name for o in only)]
    jobs = jobs or min(16, max(1, len(idxs)))
    width = max(4, 16 // max(1, min(jobs, len(idxs))))     # obligations solved concurrently inside one unit
    args = [(pid, i, tier, timeout_ms, overrides, width) for i in idxs]
    if jobs == 1 or len(args) <= 1:
        return [_verify_one(a) for a in args], reg, mod
    ctx = mp.get_context("fork")
    # a fresh worker per unit (forked from this parent): the z3 context and the fresh-name counter of a unit do not
    # depend on which units the worker handled before, so verdicts and timings are reproducible run to run
    with ctx.Pool(jobs, maxtasksperchild=1) as pool:
        res = pool.map(_verify_one, args, chunksize=1)
    return res, reg, mod


def main(argv=None):
    ap = argparse.ArgumentParser()
    ap.add_argument("property")
    ap.add_argument("--tier", default=os.environ.get("VERIF_TIER", "quick"))
    ap.add_argument("--replay", default=None)
    ap.add_argument("--only", action="append")
    ap.add_argument("--jobs", type=int, default=None)
    ap.add_argument("-v", "--verbose", action="store_true")
    a = ap.parse_args(argv)
    sys.path.insert(0, VERIF)
    from . import report
    if a.replay:
        return report.replay_file(a.property, a.replay)
    return report.check_property(a.property, a.tier, only=a.only, jobs=a.jobs, verbose=a.verbose)


if __name__ == "__main__":
    sys.exit(main())
