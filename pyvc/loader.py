"""Loader: re-reads the real source of /repo on every run and finds functions / classes by
qualified name.  Nothing is cached across runs; nothing in /repo is edited.

Address syntax:  "autobahn.websocket.protocol:WebSocketProtocol.sendCloseFrame"
                 "autobahn.wamp.protocol:ApplicationSession.onMessage/success"   (nested def, by name path)
Definitions nested in module-level `if/else/try` blocks are found too (the pure-Python maskers and
the UTF-8 validator live under `else:` of `if USES_NVX:`).  When a name is defined more than once on
alternative module-level branches, `prefer` selects the branch ("else" picks the non-NVX branch).
"""
import ast
import os

REPO = os.environ.get("PYVC_REPO", "/repo")
SRC = os.path.join(REPO, "src")

_overrides = {}   # module -> source text (mutation self-test applies patches in memory)
_virtual = {}     # module -> source text generated on this run (C translation units: "cnvx.*")


def set_virtual_module(module, text):
    _virtual[module] = text
    _mod_cache.pop(module, None)


def set_source_override(module, text):
    _overrides[module] = text
    _mod_cache.pop(module, None)


def clear_overrides():
    _overrides.clear()
    _mod_cache.clear()


VERIF = os.path.dirname(os.path.dirname(os.path.abspath(__file__)))


def module_path(module):
    if module == "specs" or module.startswith("specs."):
        p = os.path.join(VERIF, *module.split("."))
    else:
        p = os.path.join(SRC, *module.split("."))
    if os.path.isdir(p):
        return os.path.join(p, "__init__.py")
    return p + ".py"


_mod_cache = {}


class ModuleInfo:
    def __init__(self, name, tree, text):
        self.name = name
        self.tree = tree
        self.text = text
        self.defs = {}      # name -> list of ast nodes (FunctionDef/ClassDef/Assign value), all branches
        self.imports = {}   # local name -> dotted target ("struct", "autobahn.util.encode_truncate", ...)
        self._scan(tree.body, branch="")

    def _scan(self, body, branch):
        for st in body:
            if isinstance(st, (ast.FunctionDef, ast.AsyncFunctionDef, ast.ClassDef)):
                self.defs.setdefault(st.name, []).append((branch, st))
            elif isinstance(st, ast.Assign):
                for t in st.targets:
                    if isinstance(t, ast.Name):
                        self.defs.setdefault(t.id, []).append((branch, st))
                    elif isinstance(t, ast.Tuple) and isinstance(st.value, ast.Tuple) and len(t.elts) == len(st.value.elts):
                        for te, ve in zip(t.elts, st.value.elts):
                            if isinstance(te, ast.Name):
                                fake = ast.Assign(targets=[te], value=ve)
                                self.defs.setdefault(te.id, []).append((branch, fake))
            elif isinstance(st, ast.AnnAssign) and isinstance(st.target, ast.Name) and st.value is not None:
                self.defs.setdefault(st.target.id, []).append((branch, st))
            elif isinstance(st, ast.Import):
                for a in st.names:
                    self.imports[a.asname or a.name.split(".")[0]] = a.name if a.asname else a.name.split(".")[0]
            elif isinstance(st, ast.ImportFrom):
                mod = st.module or ""
                if st.level:
                    base = self.name.split(".")
                    # a module file: level 1 = its package
                    pkg = base[:-1] if not module_path(self.name).endswith("__init__.py") else base
                    pkg = pkg[: len(pkg) - (st.level - 1)]
                    mod = ".".join(pkg + ([mod] if mod else []))
                for a in st.names:
                    self.imports[a.asname or a.name] = mod + "." + a.name
            elif isinstance(st, ast.If):
                self._scan(st.body, branch + "if/")
                self._scan(st.orelse, branch + "else/")
            elif isinstance(st, ast.Try):
                self._scan(st.body, branch + "try/")
                for h in st.handlers:
                    self._scan(h.body, branch + "except/")
                self._scan(st.orelse, branch + "tryelse/")
                self._scan(st.finalbody, branch)

    def lookup(self, name, prefer="else"):
        """Return the ast node defining `name` at module level (or None)."""
        cands = self.defs.get(name)
        if not cands:
            return None
        if len(cands) == 1:
            return cands[0][1]
        for br, node in cands:
            if prefer and br.startswith(prefer):
                return node
        return cands[-1][1]


def load_module(module):
    if module in _mod_cache:
        return _mod_cache[module]
    if module in _virtual:
        text = _virtual[module]
    elif module in _overrides:
        text = _overrides[module]
    else:
        path = module_path(module)
        if not os.path.exists(path):
            return None
        with open(path, encoding="utf8") as f:
            text = f.read()
    tree = ast.parse(text)
    mi = ModuleInfo(module, tree, text)
    _mod_cache[module] = mi
    return mi


def is_repo_module(module):
    if module in _virtual:
        return True
    return (module.startswith("autobahn") or module.startswith("specs")) and os.path.exists(module_path(module))


class ClassInfo:
    def __init__(self, module, node):
        self.module = module
        self.node = node
        self.name = node.name
        self.qual = module + ":" + node.name
        self.methods = {}
        self.attrs = {}     # class-level assignments name -> ast expr
        for st in node.body:
            if isinstance(st, (ast.FunctionDef, ast.AsyncFunctionDef)):
                # keep the last definition that is not an @overload
                if any(isinstance(d, ast.Name) and d.id == "overload" for d in st.decorator_list):
                    continue
                if any(isinstance(d, ast.Attribute) and d.attr in ("setter", "deleter") for d in st.decorator_list):
                    # @x.setter / @x.deleter keep the property x (its getter is what reading the attribute runs)
                    self.setters = getattr(self, "setters", {})
                    self.setters[st.name] = st
                    continue
                self.methods[st.name] = st
            elif isinstance(st, ast.Assign):
                for t in st.targets:
                    if isinstance(t, ast.Name):
                        self.attrs[t.id] = st.value
            elif isinstance(st, ast.AnnAssign) and isinstance(st.target, ast.Name) and st.value is not None:
                self.attrs[st.target.id] = st.value

    def bases(self):
        out = []
        mi = load_module(self.module)
        for b in self.node.bases:
            ci = resolve_class_expr(mi, b)
            if ci is not None:
                out.append(ci)
        return out

    def mro(self):
        # simple depth-first left-to-right (sufficient for the single-inheritance + mixin chains here)
        seen, out = set(), []

        def rec(c):
            if c.qual in seen:
                return
            seen.add(c.qual)
            out.append(c)
            for b in c.bases():
                rec(b)
        rec(self)
        return out

    def find_method(self, name):
        for c in self.mro():
            if name in c.methods:
                return c, c.methods[name]
        return None, None

    def find_attr(self, name):
        for c in self.mro():
            if name in c.attrs:
                return c, c.attrs[name]
        return None, None

    def base_names(self):
        """All ancestor class names incl. non-repo ones (by simple name)."""
        names = set()
        for c in self.mro():
            names.add(c.name)
            for b in c.node.bases:
                if isinstance(b, ast.Name):
                    names.add(b.id)
                elif isinstance(b, ast.Attribute):
                    names.add(b.attr)
        return names


_class_cache = {}


def get_class(module, name, prefer="else"):
    key = (module, name)
    if key in _class_cache and module not in _overrides:
        return _class_cache[key]
    mi = load_module(module)
    if mi is None:
        return None
    node = mi.lookup(name, prefer)
    if isinstance(node, ast.ClassDef):
        ci = ClassInfo(module, node)
        _class_cache[key] = ci
        return ci
    # re-exported?
    tgt = mi.imports.get(name)
    if tgt and "." in tgt:
        m, n = tgt.rsplit(".", 1)
        if is_repo_module(m):
            return get_class(m, n)
    return None


def resolve_class_expr(mi, expr):
    if isinstance(expr, ast.Name):
        node = mi.lookup(expr.id)
        if isinstance(node, ast.ClassDef):
            return get_class(mi.name, expr.id)
        tgt = mi.imports.get(expr.id)
        if tgt and "." in tgt:
            m, n = tgt.rsplit(".", 1)
            if is_repo_module(m):
                return get_class(m, n)
    elif isinstance(expr, ast.Attribute) and isinstance(expr.value, ast.Name):
        tgt = mi.imports.get(expr.value.id)
        if tgt and is_repo_module(tgt):
            return get_class(tgt, expr.attr)
        if tgt and "." in tgt:
            m, n = tgt.rsplit(".", 1)
            if is_repo_module(tgt):
                return get_class(tgt, expr.attr)
    return None


class FuncInfo:
    def __init__(self, module, qualpath, node, cls=None, outer=None):
        self.module = module
        self.qualpath = qualpath      # "Class.method" or "func" or "Class.method/inner"
        self.node = node
        self.cls = cls                # ClassInfo or None
        self.outer = outer            # enclosing FuncInfo for nested defs

    @property
    def addr(self):
        return self.module + ":" + self.qualpath


def _find_nested(fnode, name):
    """nested def by name; `name@marker` selects the def that lies inside an `if` arm whose test text contains
    `marker` (the big dispatch functions define many closures with the same name, one per arm)"""
    marker = None
    if "@" in name:
        name, marker = name.split("@", 1)
    found = []

    def rec(node, tests):
        for ch in ast.iter_child_nodes(node):
            if isinstance(ch, (ast.FunctionDef, ast.AsyncFunctionDef)) and ch.name == name and ch is not fnode:
                found.append((ch, list(tests)))
            if isinstance(ch, ast.If):
                t = ast.unparse(ch.test)
                for b in ch.body:
                    rec_stmt(b, tests + [t])
                for b in ch.orelse:
                    rec_stmt(b, tests)      # elif chains: the test of an earlier arm does not hold here
            else:
                rec(ch, tests)

    def rec_stmt(st, tests):
        if isinstance(st, (ast.FunctionDef, ast.AsyncFunctionDef)) and st.name == name:
            found.append((st, list(tests)))
        if isinstance(st, ast.If):
            t = ast.unparse(st.test)
            for b in st.body:
                rec_stmt(b, tests + [t])
            for b in st.orelse:
                rec_stmt(b, tests)
        else:
            rec(st, tests)
    rec(fnode, [])
    if marker is None:
        return found[0][0] if found else None
    for node, tests in found:
        if any(marker in t for t in tests):
            return node
    return None


def get_function(addr, prefer="else"):
    """addr = 'module:Class.method[/nested[/nested]]' or 'module:func[/nested]'."""
    module, rest = addr.split(":", 1)
    parts = rest.split("/")
    head = parts[0].split(".")
    mi = load_module(module)
    if mi is None:
        raise KeyError("no such module " + module)
    cls = None
    if len(head) == 2:
        cls = get_class(module, head[0], prefer)
        if cls is None:
            raise KeyError("no such class " + addr)
        node = cls.methods.get(head[1])
        if node is None:
            raise KeyError("no such method " + addr)
    else:
        node = mi.lookup(head[0], prefer)
        if not isinstance(node, (ast.FunctionDef, ast.AsyncFunctionDef)):
            raise KeyError("no such function " + addr)
    fi = FuncInfo(module, parts[0], node, cls)
    for p in parts[1:]:
        sub = _find_nested(fi.node, p)
        if sub is None:
            raise KeyError("no nested def %s in %s" % (p, addr))
        fi = FuncInfo(module, fi.qualpath + "/" + p, sub, cls, outer=fi)
    return fi


def source_segment(module, node):
    mi = load_module(module)
    return ast.get_source_segment(mi.text, node)
