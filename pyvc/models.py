"""Exact definitions of the builtins / stdlib functions the verified code uses (DESIGN 2.3), and the
container models.  Anything not listed here is an unknown callee (havoc)."""
import ast
import z3

from .values import *  # noqa
from .engine import *  # noqa
from . import pyval
from .ops import ival, norm_index

BUILTINS = {}
OPTKW_MODELS = set()      # class models that resolve OptKw keywords themselves
CLASS_MODELS = {}
EXTERNAL_CLASSES = set()


def exc_names():
    from .executor import BUILTIN_EXC
    return BUILTIN_EXC


def builtin(*names):
    def deco(fn):
        for n in names:
            BUILTINS[n] = fn
        return fn
    return deco


def _type_error(ex, state):
    ex.raise_if(state, z3.BoolVal(True), "TypeError")


# ------------------------------------------------------------------------------------------ basics

@builtin("len")
def b_len(ex, state, args, kwargs, sv):
    return ex.length(state, args[0])


@builtin("isinstance")
def b_isinstance(ex, state, args, kwargs, sv):
    v, tv = args
    types = tv.items if isinstance(tv, VTuple) else [tv]
    res = []
    for g, a in alts_of(v):
        res.append(z3.And(g, disj([isinstance_atom(ex, state, a, t) for t in types])))
    return VBool(simp(disj(res)))


KIND_TYPES = {"abytes": {"bytes", "object"}, "int": {"int", "object"}, "bool": {"bool", "int", "object"}, "real": {"float", "object"},
              "bytes": {"bytes", "object"}, "str": {"str", "object"}, "none": {"NoneType", "object"},
              "tuple": {"tuple", "object"}}


def isinstance_atom(ex, state, a, t):
    if isinstance(t, VOpaque):
        return z3.Bool(fresh_name("isinst_opq"))
    from . import loader as _ld
    if isinstance(t, VModule) and not _ld.is_repo_module(t.name.rsplit(".", 1)[0]) and isinstance(a, VOpaque):
        # a class imported from outside the repository tested against an opaque value: unknown outcome
        return z3.Bool(fresh_name("isinst_ext"))
    if not isinstance(t, VClass):
        raise Unsupported("isinstance against %r" % (t,))
    tn = t.name.split(".")[-1]
    if isinstance(a, VDyn):
        return pyval.isinstance_(a, tn)
    if a.kind in KIND_TYPES:
        return z3.BoolVal(tn in KIND_TYPES[a.kind])
    if isinstance(a, VRef):
        o = ex.obj(state, a)
        if o.kind in ("list", "ulist"):
            return z3.BoolVal(tn in ("list", "object"))
        if o.kind in ("dict", "udict"):
            return z3.BoolVal(tn in ("dict", "object", "Mapping"))
        if o.kind == "barray":
            return z3.BoolVal(tn in ("array", "object"))
        if o.cls is None and o.kind == "inst" and o.shape is not None:
            # a shape without a repository class: an instance of some class outside the repository
            return z3.BoolVal(tn in ("object",) + tuple(getattr(ex.reg.shapes[o.shape], "isa", ())))
        if o.cls is not None:
            names = ex.class_bases(o.cls)
            if tn in names or tn == "object":
                return z3.BoolVal(True)
            if o.kind == "exc" and not o.fields.get("__exact__", True) and o.cls.name in ex.class_bases(t):
                return z3.Bool(fresh_name("isinst_sub"))
            return z3.BoolVal(False)
    if isinstance(a, VSym):
        sh = ex.reg.shapes.get(a.shape)
        if sh is not None and sh.cls:
            from . import loader
            mod, cn = sh.cls.split(":")
            ci = loader.get_class(mod, cn)
            return z3.BoolVal(tn in ci.base_names() or tn == "object")
    if isinstance(a, VOpaque):
        return z3.Bool(fresh_name("isinst_opq"))
    if isinstance(a, (VFunc, VClass, VModule)):
        return z3.BoolVal(tn == "object")
    raise Unsupported("isinstance of %r" % (a,))


@builtin("type")
def b_type(ex, state, args, kwargs, sv):
    def f(a):
        if isinstance(a, VDyn):
            return pyval.type_of(a)
        m = {"int": "int", "bool": "bool", "real": "float", "bytes": "bytes", "abytes": "bytes", "str": "str", "none": "NoneType",
             "tuple": "tuple"}
        if a.kind in m:
            return VClass(m[a.kind])
        if isinstance(a, VRef):
            o = ex.obj(state, a)
            if o.kind in ("list", "dict"):
                return VClass(o.kind)
            if o.kind == "ulist":
                return VClass("list")
            if o.kind == "udict":
                return VClass("dict")
            if o.cls is not None:
                return o.cls
        if isinstance(a, VOpaque):
            return VOpaque()
        raise Unsupported("type() of %r" % (a,))
    return ex.dist(state, args[:1], f)


@builtin("callable")
def b_callable(ex, state, args, kwargs, sv):
    def f(a):
        if isinstance(a, (VFunc, VClass)):
            return VBool(True)
        if isinstance(a, VOpaque):
            return VBool(z3.Bool(fresh_name("callable_" + a.tag.split("!")[0])))
        return VBool(False)
    return ex.dist(state, args[:1], f)


@builtin("hasattr")
def b_hasattr(ex, state, args, kwargs, sv):
    o, n = args
    if isinstance(o, VUnion):
        return ex.dist(state, [o], lambda x: b_hasattr(ex, state, [x, n], kwargs, sv))
    if isinstance(o, VOpaque):
        return VBool(z3.Bool(fresh_name("hasattr")))
    if isinstance(o, VRef) and isinstance(n, VStr) and z3.is_string_value(n.t):
        ob = ex.obj(state, o)
        name = n.t.as_string()
        if name in ob.fields and ob.shape is not None and name in getattr(ex.reg.shapes[ob.shape], "absent_none", ()):
            return VBool(simp(z3.Not(ex.is_(state, ob.fields[name], VNone))))
        if name in ob.fields:
            return VBool(True)
        if ob.shape is not None and name in ex.reg.shapes[ob.shape].methods:
            return VBool(True)
        if ob.cls is not None and ob.cls.info is not None:
            c, m = ob.cls.info.find_method(name)
            c2, a2 = ob.cls.info.find_attr(name)
            if m is not None or a2 is not None:
                return VBool(True)
        if ob.shape is not None and ob.kind == "inst":
            if name in getattr(ex.reg.shapes[ob.shape], "absent", ()):
                return VBool(False)         # the shape *declares* the object not to carry this attribute
            if getattr(ex.reg.shapes[ob.shape], "open_attrs", False):
                # an instance of a class the contract knows nothing about (a user's exception class ...): either answer
                return VBool(z3.Bool(fresh_name("hasattr_" + name)))
            raise Unsupported("hasattr(obj, %r): attribute not declared in shape %s (absence cannot be concluded)"
                              % (name, ob.shape))
        return VBool(False)
    if isinstance(o, VFunc):
        return VBool(z3.Bool(fresh_name("hasattr_func")))
    if isinstance(o, VNoneT) and isinstance(n, VStr) and z3.is_string_value(n.t) and not n.t.as_string().startswith("__"):
        return VBool(False)
    raise Unsupported("hasattr on %r" % (o,))


@builtin("getattr")
def b_getattr(ex, state, args, kwargs, sv):
    o, n = args[0], args[1]
    if isinstance(n, VStr) and z3.is_string_value(n.t):
        name = n.t.as_string()
        if len(args) == 3:
            if isinstance(o, VRef):
                ob = ex.obj(state, o)
                if name in ob.fields:
                    return ob.fields[name]
                if ob.cls is not None and ob.cls.info is not None:
                    c, m = ob.cls.info.find_method(name)
                    c2, a2 = ob.cls.info.find_attr(name)
                    if m is not None or a2 is not None:
                        return ex.getattr_atom(state, o, name)
                if ob.shape is not None and ob.kind == "inst":
                    # an object *declared* by the contract (its shape lists the fields the contract talks about, not all
                    # the attributes the real object may carry): "absent" cannot be concluded for an undeclared name
                    raise Unsupported("getattr(%s, %r, default): attribute not declared in shape %s" % ("obj", name, ob.shape))
                return args[2]
            if isinstance(o, VOpaque):
                return VOpaque()
            if isinstance(o, VFunc):
                return VOpaque()
        return ex.getattr_(state, o, name)
    raise Unsupported("getattr with symbolic name")


@builtin("setattr")
def b_setattr(ex, state, args, kwargs, sv):
    o, n, v = args
    if isinstance(n, VStr) and z3.is_string_value(n.t):
        ex.setattr_(state, o, n.t.as_string(), v)
        return VNone
    raise Unsupported("setattr with symbolic name")


@builtin("id")
def b_id(ex, state, args, kwargs, sv):
    return VInt(z3.Int(fresh_name("id")))


@builtin("print", "repr", "traceback.format_exc", "traceback.print_exc", "pprint", "pprint.pformat", "pformat", "hltype", "hlval", "hlid",
         "autobahn.util.hltype", "autobahn.util.hlval", "autobahn.util.hlid", "autobahn.util.hl", "hl",
         "autobahn.util.hluserid", "hluserid", "autobahn.util._maybe_tls_reason", "autobahn.util._is_tls_error")
def b_ignored_str(ex, state, args, kwargs, sv):
    return VStr(z3.String(fresh_name("s")))


@builtin("int")
def b_int(ex, state, args, kwargs, sv):
    if not args:
        return VInt(0)

    def f(a):
        if isinstance(a, VInt):
            return a
        if isinstance(a, VBool):
            return VInt(ex.num(a))
        if isinstance(a, VReal):
            return VInt(z3.If(a.t >= 0, z3.ToInt(a.t), -z3.ToInt(-a.t)))
        if isinstance(a, VStr):
            # decimal grammar: optional sign, digits (surrounding whitespace / underscores not modelled: they
            # are treated as raising, which is the conservative direction for "no exception escapes")
            digits = z3.Plus(z3.Range("0", "9"))
            ok = z3.InRe(a.t, digits)
            okneg = z3.InRe(a.t, z3.Concat(z3.Re("-"), digits))
            strict = z3.Or(ok, okneg)
            # int() is a function of the text: py_int_ok(s) says whether it parses (inputs like " 12", "+1", "1_0"
            # may or may not -- left open), py_int(s) is its value (pinned for plain digit strings)
            from . import natives
            okf, r = natives.py_int_ok_f(a.t), natives.py_int_f(a.t)
            state.assume(z3.Implies(strict, okf))
            ex.raise_if(state, z3.Not(okf), "ValueError")
            state.assume(z3.Implies(ok, r == z3.StrToInt(a.t)))
            state.assume(z3.Implies(ok, r >= 0))
            state.assume(z3.Implies(okneg, r <= 0))
            return VInt(r)
        if isinstance(a, VDyn):
            return pyval.to_int(ex, state, a)
        if isinstance(a, VOpaque):
            ex.raise_if(state, z3.Bool(fresh_name("int_raises")), "ValueError")
            return VInt(z3.Int(fresh_name("int_of_opq")))
        _type_error(ex, state)
    return ex.dist(state, args[:1], f)


@builtin("bool")
def b_bool(ex, state, args, kwargs, sv):
    return VBool(ex.truthy(state, args[0])) if args else VBool(False)


@builtin("float")
def b_float(ex, state, args, kwargs, sv):
    def f(a):
        if isinstance(a, (VInt, VBool)):
            return VReal(z3.ToReal(ex.num(a)))
        if isinstance(a, VReal):
            return a
        if isinstance(a, (VStr, VOpaque)):
            ex.raise_if(state, z3.Bool(fresh_name("float_raises")), "ValueError")
            return VReal(z3.Real(fresh_name("float")))
        _type_error(ex, state)
    return ex.dist(state, args[:1], f)


@builtin("str")
def b_str(ex, state, args, kwargs, sv):
    if not args:
        return VStr("")
    a = args[0]
    if isinstance(a, VStr):
        return a
    if isinstance(a, VInt):
        t = z3.String(fresh_name("str_of_int"))
        state.assume(z3.Implies(a.t >= 0, t == z3.IntToStr(a.t)))
        return VStr(t)
    return VStr(z3.String(fresh_name("str")))


@builtin("abs")
def b_abs(ex, state, args, kwargs, sv):
    def f(a):
        if isinstance(a, (VInt, VBool)):
            t = ex.num(a)
            return VInt(z3.If(t >= 0, t, -t))
        if isinstance(a, VReal):
            return VReal(z3.If(a.t >= 0, a.t, -a.t))
        _type_error(ex, state)
    return ex.dist(state, args[:1], f)


def _minmax(ex, state, args, is_min):
    items = args
    if len(args) == 1:
        items = ex.iter_concrete(state, args[0])
    cur = items[0]
    from . import ops
    for x in items[1:]:
        c = ops.compare(ex, state, ast.Lt() if is_min else ast.Gt(), x, cur)
        cur = merge2(simp(c), x, cur)
    return cur


@builtin("min")
def b_min(ex, state, args, kwargs, sv):
    return _minmax(ex, state, args, True)


@builtin("max")
def b_max(ex, state, args, kwargs, sv):
    return _minmax(ex, state, args, False)


@builtin("ord")
def b_ord(ex, state, args, kwargs, sv):
    a = args[0]
    if isinstance(a, VBytes):
        from .ops import seq_len, seq_nth
        ex.raise_if(state, seq_len(ex, state, a.t) != 1, "TypeError")
        e = seq_nth(ex, state, a.t, z3.IntVal(0))
        state.assume(z3.And(e >= 0, e <= 255))
        return VInt(e)
    if isinstance(a, VStr):
        ex.raise_if(state, z3.Length(a.t) != 1, "TypeError")
        return VInt(z3.StrToCode(a.t))
    if isinstance(a, VInt):
        _type_error(ex, state)
    raise Unsupported("ord of %r" % (a,))


@builtin("chr")
def b_chr(ex, state, args, kwargs, sv):
    t = ex.num(args[0])
    ex.raise_if(state, z3.Or(t < 0, t > 0x10FFFF), "ValueError")
    return VStr(z3.StrFromCode(t))


@builtin("tuple")
def b_tuple(ex, state, args, kwargs, sv):
    if not args:
        return VTuple([])
    return VTuple(ex.iter_concrete(state, args[0]))


@builtin("list")
def b_list(ex, state, args, kwargs, sv):
    o = HObj("list")
    if not args:
        o.items = []
        return state.alloc(o)
    a = args[0]
    if isinstance(a, VUnion):
        a = ex.narrow(state, a)
        if isinstance(a, VUnion):
            return ex.dist(state, [a], lambda x: b_list(ex, state, [x], kwargs, sv))
    if isinstance(a, VNoneT):
        ex.raise_if(state, z3.BoolVal(True), "TypeError")
    if isinstance(a, VListView):
        # list(d[k]): a snapshot of the list stored in the table
        o.items, o.elem, o.seq = None, a.elem, lv_seq(ex, state, a)
        return state.alloc(o)
    if isinstance(a, VRef):
        src = ex.obj(state, a)
        if src.kind == "list":
            o.items = list(src.items) if src.items is not None else None
            o.seq, o.elem = src.seq, src.elem
            return state.alloc(o)
    if isinstance(a, VDyn):
        return pyval.to_list(ex, state, a)
    o.items = ex.iter_concrete(state, a)
    return state.alloc(o)


@builtin("dict")
def b_dict(ex, state, args, kwargs, sv):
    o = HObj("dict")
    o.d = {}
    if args:
        a = args[0]
        if isinstance(a, VUnion):
            return ex.dist(state, [a], lambda x: b_dict(ex, state, [x], kwargs, sv))
        if isinstance(a, VRef) and ex.obj(state, a).kind == "dict" and ex.obj(state, a).d is not None:
            o.d.update(ex.obj(state, a).d)
        elif isinstance(a, VRef) and ex.obj(state, a).kind == "dict" and ex.obj(state, a).sym is not None and not kwargs:
            o.d = None
            o.sym = dict(ex.obj(state, a).sym)      # dict(table): an independent copy
            return state.alloc(o)
        elif isinstance(a, VNoneT):
            _type_error(ex, state)
        else:
            raise Unsupported("dict() of %r" % (a,))
    o.d.update(kwargs)
    return state.alloc(o)


@builtin("set", "frozenset")
def b_set(ex, state, args, kwargs, sv):
    if not args:
        return VTuple([])
    return VTuple(ex.iter_concrete(state, args[0]))


@builtin("bytes")
def b_bytes(ex, state, args, kwargs, sv):
    if not args:
        return VBytes(b"")
    a = args[0]
    if isinstance(a, VUnion):
        return ex.dist(state, [a], lambda x: b_bytes(ex, state, [x] + list(args[1:]), kwargs, sv))
    if isinstance(a, (VBytes, VABytes)):
        return a
    if ex.spec_mode and isinstance(a, VRef) and ex.obj(state, a).kind == "list" and ex.obj(state, a).items is None \
            and ex.obj(state, a).seq is not None:
        return VBytes(ex.obj(state, a).seq)     # spec language only: the sequence of a symbolic int list
    if isinstance(a, VTuple) or (isinstance(a, VRef) and ex.obj(state, a).kind == "list"):
        items = ex.iter_concrete(state, a)
        ts = []
        for it in items:
            t = ex.num(it)
            ex.raise_if(state, z3.Or(t < 0, t > 255), "ValueError")
            ts.append(z3.Unit(t))
        if not ts:
            return VBytes(b"")
        return VBytes(ts[0] if len(ts) == 1 else z3.Concat(*ts))
    if isinstance(a, VRef) and ex.obj(state, a).kind == "barray":
        return barray_tobytes(ex, state, [], {}, a)
    if ex.spec_mode and isinstance(a, VRef) and ex.obj(state, a).kind == "list" and ex.obj(state, a).seq is not None:
        return VBytes(ex.obj(state, a).seq)     # spec language only: the sequence of a symbolic int list
    if ex.spec_mode and isinstance(a, (VOpaque, VNoneT)):
        ex.raise_if(state, z3.BoolVal(True), "TypeError")       # clause undefined for this alternative
    raise Unsupported("bytes() of %r" % (a,))


@builtin("range", "xrange")
def b_range(ex, state, args, kwargs, sv):
    vals = [simp(ex.num(a)) for a in args]
    if all(z3.is_int_value(v) for v in vals):
        return VTuple([VInt(i) for i in range(*[v.as_long() for v in vals])])
    raise Unsupported("range() as a value with symbolic bounds")


@builtin("enumerate")
def b_enumerate(ex, state, args, kwargs, sv):
    items = ex.iter_concrete(state, args[0])
    return VTuple([VTuple([VInt(i), x]) for i, x in enumerate(items)])


@builtin("zip")
def b_zip(ex, state, args, kwargs, sv):
    lists = [ex.iter_concrete(state, a) for a in args]
    return VTuple([VTuple(list(t)) for t in zip(*lists)])


@builtin("sorted", "reversed")
def b_sorted(ex, state, args, kwargs, sv):
    a = args[0]
    if isinstance(a, VRef) and ex.obj(state, a).kind == "list" and ex.obj(state, a).items is None and not kwargs:
        # a permutation of a list of unknown content: same length and element kind, order unknown (over-approximation)
        src = ex.obj(state, a)
        o = HObj("list")
        o.items, o.elem = None, src.elem
        o.seq = z3.Const(fresh_name("sorted"), src.seq.sort())
        state.assume(z3.Length(o.seq) == z3.Length(src.seq))
        return state.alloc(o)
    raise Unsupported("sorted/reversed")


@builtin("list.reverse")
def b_list_reverse(ex, state, args, kwargs, sv):
    o = state.heap[sv.oid]
    if o.items is not None:
        o.items = list(reversed(o.items))
    else:
        n = z3.Length(o.seq)
        o.seq = z3.Const(fresh_name("reversed"), o.seq.sort())
        state.assume(z3.Length(o.seq) == n)
    return VNone


@builtin("any")
def b_any(ex, state, args, kwargs, sv):
    return VBool(simp(disj([ex.truthy(state, x) for x in ex.iter_concrete(state, args[0])])))


@builtin("all")
def b_all(ex, state, args, kwargs, sv):
    return VBool(simp(conj([ex.truthy(state, x) for x in ex.iter_concrete(state, args[0])])))


# ------------------------------------------------------------------------------------------ struct

_FMT = {"!H": 2, "!I": 4, "!L": 4, "!Q": 8, ">Q": 8, ">I": 4, ">L": 4, ">H": 2, "!B": 1, ">B": 1, "B": 1}


def be_value(t, n):
    """big-endian integer of the n-octet sequence t"""
    return z3.Sum([t[i] * (256 ** (n - 1 - i)) for i in range(n)]) if n > 1 else t[0]


def be_bytes(v, n):
    units = [z3.Unit((v / (256 ** (n - 1 - i))) % 256) for i in range(n)]
    return units[0] if n == 1 else z3.Concat(*units)


@builtin("struct.unpack")
def b_struct_unpack(ex, state, args, kwargs, sv):
    fmt, data = args
    if not (isinstance(fmt, VStr) and z3.is_string_value(fmt.t)) or fmt.t.as_string() not in _FMT:
        raise Unsupported("struct.unpack format")
    n = _FMT[fmt.t.as_string()]
    if not isinstance(data, VBytes):
        _type_error(ex, state)
    from .ops import seq_len, seq_nth
    ex.raise_if(state, seq_len(ex, state, data.t) != n, "struct.error")
    t = data.t
    # read the octets through slices / concatenations from the underlying sequences (same values, simpler terms)
    elems = [seq_nth(ex, state, t, z3.IntVal(i)) for i in range(n)]
    for e in elems:
        state.assume(z3.And(e >= 0, e <= 255))
    val = z3.Sum([e * (256 ** (n - 1 - i)) for i, e in enumerate(elems)]) if n > 1 else elems[0]
    return VTuple([VInt(val)])


@builtin("struct.pack")
def b_struct_pack(ex, state, args, kwargs, sv):
    fmt = args[0]
    if not (isinstance(fmt, VStr) and z3.is_string_value(fmt.t)):
        raise Unsupported("struct.pack format")
    f = fmt.t.as_string()
    if f in _FMT and len(args) == 2:
        n = _FMT[f]

        def one(a):
            v = ex.num(a)
            if v is None or isinstance(a, VReal):
                ex.raise_if(state, z3.BoolVal(True), "struct.error")
            ex.raise_if(state, z3.Or(v < 0, v >= 256 ** n), "struct.error")
            return VBytes(be_bytes(v, n))
        return ex.dist(state, [args[1]], one)
    if f in ("!BBBB", ">BBBB", "BBBB"):
        ts = []
        for a in args[1:]:
            v = ex.num(a)
            ex.raise_if(state, z3.Or(v < 0, v > 255), "struct.error")
            ts.append(z3.Unit(v))
        return VBytes(z3.Concat(*ts))
    raise Unsupported("struct.pack format %s" % f)


@builtin("int.to_bytes")
def b_int_to_bytes(ex, state, args, kwargs, sv):
    n = ival(ex.num(args[0])) if args else ival(ex.num(kwargs["length"]))
    if n is None:
        raise Unsupported("to_bytes symbolic length")
    order = args[1] if len(args) > 1 else kwargs.get("byteorder")
    if order is not None and not (isinstance(order, VStr) and order.t.as_string() == "big"):
        raise Unsupported("to_bytes byteorder")
    ex.raise_if(state, z3.Or(sv.t < 0, sv.t >= 256 ** n), "OverflowError")
    return VBytes(be_bytes(sv.t, n))


@builtin("int.from_bytes")
def b_int_from_bytes(ex, state, args, kwargs, sv):
    raise Unsupported("int.from_bytes")


# ------------------------------------------------------------------------------------------ bytes / str

@builtin("bytes.isascii")
def b_bytes_isascii(ex, state, args, kwargs, sv):
    """b.isascii(): every octet is below 128 (true for the empty string)"""
    if not isinstance(sv, VBytes):
        raise Unsupported("isascii on %r" % (sv,))
    i = z3.Int(fresh_name("asc_i"))
    n = z3.Length(sv.t)
    # bytes are sequences of Int octets in this encoding
    elem = sv.t[i]
    body = z3.Implies(z3.And(i >= 0, i < n), (elem < 128) if elem.sort() == z3.IntSort() else z3.ULT(elem, 128))
    return VBool(z3.ForAll([i], body))


@builtin("bytes.find")
def b_bytes_find(ex, state, args, kwargs, sv):
    sub = args[0]
    if len(args) > 1:
        start = ex.num(args[1])
    else:
        start = z3.IntVal(0)
    return VInt(z3.IndexOf(sv.t, sub.t, start))


@builtin("str.find")
def b_str_find(ex, state, args, kwargs, sv):
    start = ex.num(args[1]) if len(args) > 1 else z3.IntVal(0)
    return VInt(z3.IndexOf(sv.t, args[0].t, start))


@builtin("bytes.join")
def b_bytes_join(ex, state, args, kwargs, sv):
    if isinstance(args[0], VUnion):
        return ex.dist(state, [args[0]], lambda x: b_bytes_join(ex, state, [x], kwargs, sv))
    a = args[0]
    if isinstance(a, VNoneT):
        _type_error(ex, state)
    sepv = simp(sv.t)
    if isinstance(a, VRef):
        o = ex.obj(state, a)
        if o.kind == "list" and o.items is None:
            if not (z3.is_app(sepv) and simp(z3.Length(sepv)).eq(z3.IntVal(0))):
                raise Unsupported("join of symbolic list with separator")
            from . import natives
            return VBytes(natives.join_bytes(o.seq))
    items = ex.iter_concrete(state, a)
    ts = []
    for k, it in enumerate(items):
        if isinstance(it, VUnion):
            it = ex.narrow(state, it)
        if isinstance(it, VUnion):
            # an item that is bytes on every feasible alternative: the guarded choice of its alternatives; an
            # alternative of another kind is the TypeError of the real join under that alternative's guard
            t = None
            for g, a in reversed(it.alts):
                if isinstance(a, VBytes):
                    t = a.t if t is None else z3.If(g, a.t, t)
                else:
                    ex.raise_if(state, g, "TypeError")
            if t is None:
                raise Unsupported("join of union items")
            it = VBytes(t)
        if not isinstance(it, VBytes):
            _type_error(ex, state)
        if k:
            ts.append(sv.t)
        ts.append(it.t)
    if not ts:
        return VBytes(b"")
    return VBytes(simp(z3.Concat(*ts)) if len(ts) > 1 else ts[0])


@builtin("str.join")
def b_str_join(ex, state, args, kwargs, sv):
    try:
        items = ex.iter_concrete(state, args[0])
    except Unsupported:
        return VStr(z3.String(fresh_name("joined")))
    ts = []
    for k, it in enumerate(items):
        if not isinstance(it, VStr):
            return VStr(z3.String(fresh_name("joined")))
        if k:
            ts.append(sv.t)
        ts.append(it.t)
    if not ts:
        return VStr("")
    return VStr(z3.Concat(*ts) if len(ts) > 1 else ts[0])


@builtin("bytes.decode")
def b_bytes_decode(ex, state, args, kwargs, sv):
    enc = args[0] if args else kwargs.get("encoding", VStr("utf-8"))
    errors = args[1] if len(args) > 1 else kwargs.get("errors")
    encs = enc.t.as_string().lower().replace("-", "").replace("_", "") if z3.is_string_value(enc.t) else None
    from . import natives
    if encs in ("utf8",):
        if errors is None:
            ex.raise_if(state, z3.Not(natives.utf8_valid(sv.t)), "UnicodeDecodeError")
        return VStr(natives.utf8_decode(sv.t))
    if encs in ("ascii",):
        if errors is None:
            ex.raise_if(state, z3.Not(natives.is_ascii(sv.t)), "UnicodeDecodeError")
        return VStr(natives.latin1_decode(sv.t))
    if encs in ("latin1", "iso88591"):
        return VStr(natives.latin1_decode(sv.t))
    raise Unsupported("decode(%s)" % encs)


@builtin("str.encode")
def b_str_encode(ex, state, args, kwargs, sv):
    enc = args[0] if args else kwargs.get("encoding", VStr("utf-8"))
    encs = enc.t.as_string().lower().replace("-", "").replace("_", "") if z3.is_string_value(enc.t) else None
    from . import natives
    if encs == "utf8":
        # lone surrogates raise UnicodeEncodeError: modelled as a possible exception
        ex.raise_if(state, natives.has_surrogate(sv.t), "UnicodeEncodeError")
        return VBytes(natives.utf8_encode(sv.t))
    if encs == "ascii":
        ex.raise_if(state, z3.Not(natives.str_is_ascii(sv.t)), "UnicodeEncodeError")
        return VBytes(natives.latin1_encode(sv.t))
    if encs in ("latin1", "iso88591"):
        ex.raise_if(state, z3.Not(natives.str_is_latin1(sv.t)), "UnicodeEncodeError")
        return VBytes(natives.latin1_encode(sv.t))
    raise Unsupported("encode(%s)" % encs)


@builtin("str.startswith", "bytes.startswith")
def b_startswith(ex, state, args, kwargs, sv):
    a = args[0]
    if isinstance(a, VTuple):
        return VBool(disj([z3.PrefixOf(x.t, sv.t) for x in a.items]))
    return VBool(z3.PrefixOf(a.t, sv.t))


@builtin("str.endswith", "bytes.endswith")
def b_endswith(ex, state, args, kwargs, sv):
    a = args[0]
    if isinstance(a, VTuple):
        return VBool(disj([z3.SuffixOf(x.t, sv.t) for x in a.items]))
    return VBool(z3.SuffixOf(a.t, sv.t))


@builtin("str.lower", "str.upper", "str.strip", "str.lstrip", "str.rstrip", "str.title", "str.format",
         "str.replace", "str.zfill", "str.ljust", "str.rjust", "str.capitalize")
def b_str_opaque(ex, state, args, kwargs, sv):
    from . import natives
    return VStr(natives.str_fn(ex, state, "str_" + ex_name(ex), sv, args))


def ex_name(ex):
    return "fn"


def _mk_str_fn(name):
    def fn(ex, state, args, kwargs, sv):
        from . import natives
        if z3.is_string_value(sv.t) and not args and name in ("lower", "upper", "strip", "lstrip", "rstrip", "title",
                                                                "capitalize"):
            return VStr(getattr(sv.t.as_string(), name)())
        return VStr(natives.str_fn(ex, state, name, sv, args))
    return fn


for _n in ("lower", "upper", "strip", "lstrip", "rstrip", "title", "format", "replace", "zfill", "capitalize"):
    BUILTINS["str." + _n] = _mk_str_fn(_n)


def _str_format_exact(ex, state, args, kwargs, sv):
    """"constant template".format(name=value, ...) with plain {name} fields and str / int / None values: the exact
    string; everything else stays a function of its arguments"""
    import re as _re
    opaque = _mk_str_fn("format")
    if not z3.is_string_value(sv.t) or args or not kwargs or "**" in kwargs:
        return opaque(ex, state, args, kwargs, sv)
    tmpl = sv.t.as_string()
    pieces = _re.split(r"\{([A-Za-z_][A-Za-z_0-9]*)\}", tmpl)
    if any("{" in p_ or "}" in p_ for p_ in pieces[0::2]) or any(n not in kwargs for n in pieces[1::2]):
        return opaque(ex, state, args, kwargs, sv)

    def text(v):
        outs = []
        for g, a in alts_of(v):
            if isinstance(a, VStr):
                outs.append((g, a.t))
            elif isinstance(a, VNoneT):
                outs.append((g, z3.StringVal("None")))
            elif isinstance(a, VInt) and not isinstance(a, VBool):
                outs.append((g, z3.If(a.t >= 0, z3.IntToStr(a.t), z3.Concat(z3.StringVal("-"), z3.IntToStr(-a.t)))))
            else:
                return None
        t = outs[-1][1]
        for g, x in reversed(outs[:-1]):
            t = z3.If(g, x, t)
        return t
    parts = []
    for i, p_ in enumerate(pieces):
        if i % 2 == 0:
            if p_:
                parts.append(z3.StringVal(p_))
        else:
            t = text(kwargs[p_])
            if t is None:
                return opaque(ex, state, args, kwargs, sv)
            parts.append(t)
    return VStr(parts[0] if len(parts) == 1 else z3.Concat(*parts))


BUILTINS["str.format"] = _str_format_exact


def _mk_split(kind):
    def f(ex, state, args, kwargs, sv):
        from . import natives
        return natives.str_split(ex, state, sv, args, kind)
    return f


for _k in ("split", "rsplit", "splitlines"):
    BUILTINS["str." + _k] = _mk_split(_k)
BUILTINS["bytes.split"] = _mk_split("split")


@builtin("str.isdigit", "str.isalnum", "str.isalpha", "str.isspace")
def b_str_pred(ex, state, args, kwargs, sv):
    return VBool(z3.Bool(fresh_name("strpred")))


@builtin("bytes.hex", "binascii.b2a_hex", "binascii.hexlify")
def b_hex(ex, state, args, kwargs, sv):
    from . import natives
    src = sv if sv is not None else args[0]
    r = natives.hexlify(src.t)
    return VStr(r) if sv is not None else VBytes(natives.latin1_encode_of_hex(src.t))


# ------------------------------------------------------------------------------------------ lists

@builtin("list.append")
def list_append(ex, state, args, kwargs, sv):
    o = state.heap[sv.oid]
    if o.frozen:
        raise Unsupported("append to module-level list")
    v = args[0]
    if o.items is not None:
        o.items.append(v)
    else:
        el, t = elem_of_value(v)
        if el != o.elem:
            raise Unsupported("append of %s to list:%s" % (el, o.elem))
        o.seq = z3.Concat(o.seq, z3.Unit(t))
    return VNone


def to_alist(ex, state, o):
    """convert a list object (in place) to the array-list representation"""
    if o.kind == "alist":
        return
    if o.items is None:
        raise Unsupported("sequence-list to array-list conversion")
    arr = z3.K(z3.IntSort(), z3.IntVal(0))
    el = o.elem
    for i, it in enumerate(o.items):
        el, t = elem_of_value(it)
        arr = z3.Store(arr, i, t)
    o.kind, o.arr, o.n, o.elem, o.items = "alist", arr, z3.IntVal(len(o.items)), el, None


def list_extend(ex, state, a, b):
    oa, ob = state.heap[a.oid], ex.obj(state, b)
    if ob.kind == "alist" or oa.kind == "alist":
        to_alist(ex, state, oa)
        if ob.kind != "alist":
            ob = ob.copy()
            to_alist(ex, state, ob)
        k = z3.Int(fresh_name("ext_k"))
        a_arr, a_n = oa.arr, oa.n
        # the extended list is a *named* array defined element-wise in the forward direction (triggers on reads of the
        # old list and of the appended list), so positions of appended elements are found by E-matching
        new = z3.Array(fresh_name("extended"), z3.IntSort(), z3.IntSort())
        state.assume(z3.ForAll([k], z3.Implies(z3.And(k >= 0, k < a_n), z3.Select(new, k) == z3.Select(a_arr, k)),
                               patterns=[z3.Select(a_arr, k), z3.Select(new, k)]))
        state.assume(z3.ForAll([k], z3.Implies(z3.And(k >= 0, k < ob.n), z3.Select(new, a_n + k) == z3.Select(ob.arr, k)),
                               patterns=[z3.Select(ob.arr, k)]))
        oa.arr = new
        oa.n = simp(a_n + ob.n)
        oa.elem = oa.elem or ob.elem
        if oa.elem == "int" and ob.elem:
            oa.elem = ob.elem
        return VNone
    if oa.items is not None and ob.items is not None:
        oa.items.extend(ob.items)
    else:
        was_empty = oa.items == []
        sa, ea = list_to_seq(oa)
        sb, eb = list_to_seq(ob)
        if was_empty:
            oa.items, oa.seq, oa.elem = None, sb, eb
        else:
            oa.items, oa.seq, oa.elem = None, z3.Concat(sa, sb), ea
    return VNone


@builtin("list.extend")
def b_list_extend(ex, state, args, kwargs, sv):
    b = args[0]
    if isinstance(b, VTuple):
        for it in b.items:
            list_append(ex, state, [it], {}, sv)
        return VNone
    return list_extend(ex, state, sv, b)


@builtin("list.pop")
def b_list_pop(ex, state, args, kwargs, sv):
    o = state.heap[sv.oid]
    idx = ival(ex.num(args[0])) if args else -1
    if o.items is not None:
        if idx is None:
            raise Unsupported("pop at symbolic index")
        if not o.items or idx >= len(o.items) or idx < -len(o.items):
            ex.raise_if(state, z3.BoolVal(True), "IndexError")
        return o.items.pop(idx)
    n = z3.Length(o.seq)
    ex.raise_if(state, n == 0, "IndexError")
    if idx == -1:
        v = value_of_elem(o.elem, o.seq[n - 1])
        o.seq = z3.Extract(o.seq, 0, n - 1)
        return v
    if idx == 0:
        v = value_of_elem(o.elem, o.seq[0])
        o.seq = z3.Extract(o.seq, 1, n - 1)
        return v
    raise Unsupported("pop(%r) on symbolic list" % idx)


@builtin("list.remove")
def b_list_remove(ex, state, args, kwargs, sv):
    o = state.heap[sv.oid]
    v = args[0]
    if o.items is not None:
        # first element equal to v
        conds = [ex.eq(state, it, v) for it in o.items]
        ex.raise_if(state, z3.Not(disj(conds)), "ValueError")
        n = len(o.items)
        if n == 0:
            return VNone
        if all(is_true(simp(c)) or is_false(simp(c)) for c in conds):
            for i, c in enumerate(conds):
                if is_true(simp(c)):
                    del o.items[i]
                    break
            return VNone
        raise Unsupported("remove with symbolic position on concrete list")
    el, t = elem_of_value(v)
    i = z3.IndexOf(o.seq, z3.Unit(t), 0)
    ex.raise_if(state, i < 0, "ValueError")
    n = z3.Length(o.seq)
    o.seq = z3.Concat(z3.Extract(o.seq, 0, i), z3.Extract(o.seq, i + 1, n - i - 1))
    return VNone


@builtin("list.clear")
def b_list_clear(ex, state, args, kwargs, sv):
    o = state.heap[sv.oid]
    if o.items is not None:
        o.items = []
    else:
        o.seq = z3.Empty(o.seq.sort())
    return VNone


@builtin("list.insert")
def b_list_insert(ex, state, args, kwargs, sv):
    o = state.heap[sv.oid]
    idx = ival(ex.num(args[0]))
    if o.items is not None and idx is not None:
        o.items.insert(idx, args[1])
        return VNone
    if idx == 0:
        el, t = elem_of_value(args[1])
        o.seq = z3.Concat(z3.Unit(t), o.seq)
        return VNone
    raise Unsupported("list.insert")


@builtin("list.index")
def b_list_index(ex, state, args, kwargs, sv):
    o = ex.obj(state, sv)
    if o.items is None:
        el, t = elem_of_value(args[0])
        i = z3.IndexOf(o.seq, z3.Unit(t), 0)
        ex.raise_if(state, i < 0, "ValueError")
        return VInt(i)
    raise Unsupported("list.index on concrete list")


@builtin("list.copy")
def b_list_copy(ex, state, args, kwargs, sv):
    return b_list(ex, state, [sv], {}, None)


# deque modelled as list
BUILTINS["list.popleft"] = lambda ex, state, args, kwargs, sv: b_list_pop(ex, state, [VInt(0)], {}, sv)
BUILTINS["list.appendleft"] = lambda ex, state, args, kwargs, sv: b_list_insert(ex, state, [VInt(0), args[0]], {}, sv)


def m_deque(ex, state, args, kwargs):
    o = HObj("list")
    o.items = list(ex.iter_concrete(state, args[0])) if args else []
    return state.alloc(o)


CLASS_MODELS["deque"] = m_deque
CLASS_MODELS["collections.deque"] = m_deque
EXTERNAL_CLASSES.update({"collections.deque", "array.array"})
EXTERNAL_CONSTS = {"zlib.MAX_WBITS": 15, "zlib.DEFLATED": 8, "zlib.Z_DEFAULT_COMPRESSION": -1, "zlib.Z_SYNC_FLUSH": 2}


# ------------------------------------------------------------------------------------------ array('B')

def m_array(ex, state, args, kwargs):
    tc = args[0]
    if not (isinstance(tc, VStr) and tc.t.as_string() == "B"):
        raise Unsupported("array typecode")
    o = HObj("barray")
    if len(args) == 1:
        o.arr = z3.K(z3.IntSort(), z3.IntVal(0))
        o.n = z3.IntVal(0)
        return state.alloc(o)
    src = args[1]
    if isinstance(src, VABytes):
        o.arr, o.n = src.arr, src.n
        return state.alloc(o)
    if isinstance(src, VBytes):
        from . import natives
        o.arr = natives.bytes_to_array(ex, state, src.t)
        o.n = z3.Length(src.t)
        return state.alloc(o)
    if isinstance(src, VRef) and ex.obj(state, src).kind == "barray":
        so = ex.obj(state, src)
        o.arr, o.n = so.arr, so.n
        return state.alloc(o)
    raise Unsupported("array('B', %r)" % (src,))


CLASS_MODELS["array"] = m_array
CLASS_MODELS["array.array"] = m_array


@builtin("barray.tobytes", "barray.tostring")
def barray_tobytes(ex, state, args, kwargs, sv):
    o = ex.obj(state, sv)
    return VABytes(o.arr, o.n)


@builtin("barray.append")
def barray_append(ex, state, args, kwargs, sv):
    o = state.heap[sv.oid]
    t = ex.num(args[0])
    ex.raise_if(state, z3.Or(t < 0, t > 255), "OverflowError")
    o.arr = z3.Store(o.arr, o.n, t)
    o.n = simp(o.n + 1)
    return VNone


# ------------------------------------------------------------------------------------------ dicts
# concrete key set:  o.d (python dict const -> V)
# symbolic int-keyed table: o.sym = dict(has=Array Int->Bool, val=Array Int->Int|..., vtype=...)

def fresh_dict(ex, state, spec, name, path):
    # spec "int->sym:Shape" | "int->int" | "str->dyn" ...
    ktype, vtype = spec.split("->")
    o = HObj("dict")
    o.sym = {"ktype": ktype, "vtype": vtype,
             "has": z3.Array(fresh_name(name + "_has"), _ksort(ktype), z3.BoolSort()),
             "val": z3.Array(fresh_name(name + "_val"), _ksort(ktype), _vsort(vtype))}
    r = state.alloc(o)
    if path:
        state.paths[r.oid] = path
    return r


def _ksort(kt):
    return {"int": z3.IntSort(), "str": z3.StringSort(), "bytes": BytesSort}[kt]


def _vsort(vt):
    from .contracts import _sym_sort
    return _sym_sort(vt)


def _key_term(ex, k, kt):
    if kt == "int" and isinstance(k, (VInt,)):
        return k.t
    if kt == "str" and isinstance(k, VStr):
        return k.t
    if kt == "bytes" and isinstance(k, VBytes):
        return k.t
    return None


def havoc_dict(ex, state, ref):
    o = state.heap[ref.oid]
    sym = getattr(o, "sym", None)
    if sym is None:
        raise Unsupported("havoc of concrete-key dict")
    o.sym = dict(sym)
    o.sym["has"] = z3.Const(fresh_name("hv_has"), sym["has"].sort())
    o.sym["val"] = z3.Const(fresh_name("hv_val"), sym["val"].sort())


def dict_has(ex, state, ref, k):
    o = ex.obj(state, ref)
    sym = getattr(o, "sym", None)
    if sym is not None:
        res = []
        for g, ka in alts_of(k):
            t = _key_term(ex, ka, sym["ktype"])
            if t is None:
                res.append(z3.BoolVal(False))     # key of another type is never present
            else:
                res.append(z3.And(g, z3.Select(sym["has"], t)))
        return simp(disj(res))
    res = []
    for g, ka in alts_of(k):
        if isinstance(ka, VDyn):
            res.append(z3.And(g, disj([ex.eq(state, ka, ex.const(ck)) for ck in o.d if not isinstance(ck, tuple)])))
            continue
        try:
            ck = ex.const_key(ka)
        except Unsupported:
            if getattr(o, "open", False):
                raise Unsupported("untrusted dict asked for a key that is not a constant")
            res.append(z3.And(g, disj([ex.eq(state, ka, ex.const(c)) for c in o.d if not isinstance(c, tuple)])))
            continue
        if getattr(o, "open", False) and ck not in o.d:
            raise Unsupported("untrusted dict asked for the key %r, which its declared type does not list" % (ck,))
        pres = (getattr(o, "opt", None) or {}).get(ck)
        res.append(z3.And(g, pres if (ck in o.d and pres is not None) else z3.BoolVal(ck in o.d)))
    return simp(disj(res))


def dict_getitem(ex, state, ref, k):
    o = ex.obj(state, ref)
    sym = getattr(o, "sym", None)
    if sym is not None:
        t = _key_term(ex, k, sym["ktype"])
        if t is None:
            ex.raise_if(state, z3.BoolVal(True), "KeyError")
        ex.raise_if(state, z3.Not(z3.Select(sym["has"], t)), "KeyError")
        if sym["vtype"].startswith("seq:"):
            return VListView(ref, t, sym["vtype"][4:])
        from .contracts import _wrap_sym
        return _wrap_sym(sym["vtype"], z3.Select(sym["val"], t))
    try:
        ck = ex.const_key(k)
    except Unsupported:
        if getattr(o, "open", False):
            raise Unsupported("untrusted dict asked for a key that is not a constant")
        # symbolic key against concrete key set
        alts = [(simp(ex.eq(state, k, ex.const(c))), v) for c, v in o.d.items() if not isinstance(c, tuple)]
        ex.raise_if(state, z3.Not(disj([g for g, _ in alts])), "KeyError")
        if not alts:
            from .executor import _Abort
            raise _Abort()
        return mk_union(alts)
    if ck not in o.d:
        if getattr(o, "open", False):
            raise Unsupported("untrusted dict asked for the key %r, which its declared type does not list" % (ck,))
        ex.raise_if(state, z3.BoolVal(True), "KeyError")
    g = (getattr(o, "opt", None) or {}).get(ck)
    if g is not None:
        ex.raise_if(state, z3.Not(g), "KeyError")       # optional key of an odict
    return o.d[ck]


def dict_setitem(ex, state, ref, k, v):
    o = state.heap[ref.oid]
    sym = getattr(o, "sym", None)
    if sym is not None:
        t = _key_term(ex, k, sym["ktype"])
        if t is None:
            raise Unsupported("store of foreign key type into typed table")
        from .contracts import _unwrap_sym
        o.sym = dict(sym)
        o.sym["has"] = z3.Store(sym["has"], t, z3.BoolVal(True))
        if sym["vtype"].startswith("seq:"):
            src = ex.obj(state, v) if isinstance(v, VRef) else None
            if src is not None and src.kind == "list":
                seq, el = list_to_seq(src)
                if src.items == []:
                    seq = z3.Empty(sym["val"].sort().range())
                o.sym["val"] = z3.Store(sym["val"], t, seq)     # the list is stored by value (see VListView)
                return
            raise Unsupported("store of %r into a table of lists" % (v,))
        o.sym["val"] = z3.Store(sym["val"], t, _unwrap_sym(sym["vtype"], ex.narrow(state, v)))
        return
    if o.d == {} and not (isinstance(k, VStr) and z3.is_string_value(k.t)) and isinstance(k, (VStr, VInt)):
        # an empty dict receiving a symbolic key becomes a symbolic table (key sort from the key, values by kind)
        kt = "str" if isinstance(k, VStr) else "int"
        vt = "int" if isinstance(v, VInt) else ("str" if isinstance(v, VStr) else ("bool" if isinstance(v, VBool) else None))
        if vt is None:
            raise Unsupported("symbolic-key store of %r into a dict literal" % (v,))
        o.d = None
        o.sym = {"ktype": kt, "vtype": vt,
                 "has": z3.Store(z3.K(_ksort(kt), z3.BoolVal(False)), k.t, z3.BoolVal(True)),
                 "val": z3.Store(z3.K(_ksort(kt), v.t if vt != "bool" else v.t), k.t, v.t)}
        return
    o.d[ex.const_key(k)] = v


def dict_delitem(ex, state, ref, k):
    o = state.heap[ref.oid]
    sym = getattr(o, "sym", None)
    if sym is not None:
        t = _key_term(ex, k, sym["ktype"])
        if t is None:
            ex.raise_if(state, z3.BoolVal(True), "KeyError")
        ex.raise_if(state, z3.Not(z3.Select(sym["has"], t)), "KeyError")
        o.sym = dict(sym)
        o.sym["has"] = z3.Store(sym["has"], t, z3.BoolVal(False))
        return
    ck = ex.const_key(k)
    if ck not in o.d:
        ex.raise_if(state, z3.BoolVal(True), "KeyError")
    del o.d[ck]


@builtin("dict.get", "udict.get")
def b_dict_get(ex, state, args, kwargs, sv):
    default = args[1] if len(args) > 1 else VNone
    has = dict_has(ex, state, sv, args[0])
    if is_false(has):
        return default
    if is_true(has):
        return dict_getitem(ex, state, sv, args[0])
    return ex.guarded_choice(state, has, lambda: dict_getitem(ex, state, sv, args[0]), lambda: default)


@builtin("dict.pop")
def b_dict_pop(ex, state, args, kwargs, sv):
    has = dict_has(ex, state, sv, args[0])
    if len(args) > 1:
        if is_false(has):
            return args[1]
        v = ex.guarded_choice(state, has, lambda: dict_getitem(ex, state, sv, args[0]), lambda: args[1])
        o = state.heap[sv.oid]
        sym = getattr(o, "sym", None)
        if sym is not None:
            t = _key_term(ex, args[0], sym["ktype"])
            o.sym = dict(sym)
            o.sym["has"] = z3.Store(sym["has"], t, z3.BoolVal(False))
        elif is_true(has):
            del o.d[ex.const_key(args[0])]
        else:
            raise Unsupported("dict.pop with symbolic presence on concrete dict")
        return v
    v = dict_getitem(ex, state, sv, args[0])
    dict_delitem(ex, state, sv, args[0])
    return v


@builtin("dict.keys", "dict.values", "dict.items")
def b_dict_views(ex, state, args, kwargs, sv):
    raise Unsupported("dict views (use contract-level handling)")


def _dv(kind):
    def fn(ex, state, args, kwargs, sv):
        o = ex.obj(state, sv)
        if o.d is None and kind == "values" and o.sym is not None and o.sym["vtype"].startswith("sym:"):
            # values() of a symbolic table: some sequence that contains the value of every present key
            # (position given by a Skolem function); nothing else is assumed about order or multiplicity
            shape = o.sym["vtype"][4:]
            sh = ex.reg.shapes.get(shape)
            el = "sym:" + (sh.heap_base if sh is not None and sh.heap_base else shape)
            lst = HObj("alist")         # array-list: (Array Int -> Int, length); indexing is a plain select
            lst.elem = el
            lst.arr = z3.Array(fresh_name("values"), z3.IntSort(), z3.IntSort())
            lst.n = z3.Int(fresh_name("values_n"))
            state.assume(lst.n >= 0)
            idx = z3.Function(fresh_name("values_idx"), z3.IntSort(), z3.IntSort())
            k = z3.Int(fresh_name("vk"))
            has, val = o.sym["has"], o.sym["val"]
            state.assume(z3.ForAll([k], z3.Implies(z3.Select(has, k), z3.And(
                idx(k) >= 0, idx(k) < lst.n, z3.Select(lst.arr, idx(k)) == z3.Select(val, k))),
                patterns=[z3.Select(val, k)]))
            return state.alloc(lst)
        if o.d is None:
            if kind == "keys":
                # the keys view of a table stands for the table itself (membership, length); other uses of a view
                # (set algebra, comparison) are outside the modelled subset
                return sv
            # items() of a table: an opaque view (only fit for logging / passing on; iterating it is unsupported)
            return VOpaque(fresh_name("dict_" + kind))
        if kind == "keys":
            return VTuple([ex.const(k) for k in o.d])
        if kind == "values":
            return VTuple(list(o.d.values()))
        return VTuple([VTuple([ex.const(k), v]) for k, v in o.d.items()])
    return fn


for _k in ("keys", "values", "items"):
    BUILTINS["dict." + _k] = _dv(_k)
# untrusted dict (type udict:): the keys view stands for the dict (iteration: loops.unroll, membership: dict_has)
BUILTINS["udict.keys"] = lambda ex, state, args, kwargs, sv: sv


@builtin("dict.update")
def b_dict_update(ex, state, args, kwargs, sv):
    o = state.heap[sv.oid]
    if args:
        src = ex.obj(state, args[0])
        if src.d is None or o.d is None:
            raise Unsupported("dict.update symbolic")
        o.d.update(src.d)
    o.d.update(kwargs)
    return VNone


@builtin("dict.copy")
def b_dict_copy(ex, state, args, kwargs, sv):
    src = ex.obj(state, sv)
    o = HObj("dict")
    o.d = dict(src.d) if src.d is not None else None
    if getattr(src, "sym", None) is not None:
        o.sym = dict(src.sym)
    return state.alloc(o)


@builtin("dict.clear")
def b_dict_clear(ex, state, args, kwargs, sv):
    o = state.heap[sv.oid]
    sym = getattr(o, "sym", None)
    if sym is not None:
        o.sym = dict(sym)
        o.sym["has"] = z3.K(sym["has"].sort().domain(), z3.BoolVal(False))
    else:
        o.d = {}
    return VNone


@builtin("dict.setdefault")
def b_dict_setdefault(ex, state, args, kwargs, sv):
    has = dict_has(ex, state, sv, args[0])
    if is_true(has):
        return dict_getitem(ex, state, sv, args[0])
    if is_false(has):
        dict_setitem(ex, state, sv, args[0], args[1])
        return args[1]
    raise Unsupported("setdefault with symbolic presence")


# ------------------------------------------------------------------------------------------ misc stdlib

@builtin("time.time", "time.perf_counter", "time.monotonic", "autobahn.util.rtime", "rtime", "time.perf_counter_ns",
         "time.time_ns", "time_ns", "autobahn.util.time_ns")
def b_time(ex, state, args, kwargs, sv):
    t = z3.Real(fresh_name("now"))
    state.assume(t >= 0)
    return VReal(t)


@builtin("random.getrandbits")
def b_getrandbits(ex, state, args, kwargs, sv):
    n = ival(ex.num(args[0]))
    t = z3.Int(fresh_name("rand"))
    state.assume(z3.And(t >= 0, t < 2 ** n))
    return VInt(t)


@builtin("os.urandom")
def b_urandom(ex, state, args, kwargs, sv):
    n = ex.num(args[0])
    t = z3.Const(fresh_name("urandom"), BytesSort)
    state.assume(z3.Length(t) == n)
    return VBytes(t)


from . import models_c  # noqa: E402,F401  (registers the builtins of translated C code)


# ------------------------------------------------------------------------------------------ list views (lists inside tables)

def lv_seq(ex, state, lv):
    o = ex.obj(state, lv.dict_ref)
    return z3.Select(o.sym["val"], lv.key)


def lv_set(ex, state, lv, seq):
    o = state.heap[lv.dict_ref.oid]
    o.sym = dict(o.sym)
    o.sym["val"] = z3.Store(o.sym["val"], lv.key, seq)


@builtin("listview.append")
def lv_append(ex, state, args, kwargs, sv):
    el, t = elem_of_value(args[0])
    lv_set(ex, state, sv, z3.Concat(lv_seq(ex, state, sv), z3.Unit(t)))
    return VNone


@builtin("listview.remove")
def lv_remove(ex, state, args, kwargs, sv):
    el, t = elem_of_value(args[0])
    s = lv_seq(ex, state, sv)
    i = z3.IndexOf(s, z3.Unit(t), 0)
    ex.raise_if(state, i < 0, "ValueError")
    n = z3.Length(s)
    lv_set(ex, state, sv, z3.Concat(z3.Extract(s, 0, i), z3.Extract(s, i + 1, n - i - 1)))
    return VNone


BUILTINS["alist.extend"] = BUILTINS["list.extend"]


@builtin("Exception.__init__")
def b_exception_init(ex, state, args, kwargs, sv):
    """Exception.__init__(self, *args): the instance's args become the tuple of the given arguments (a sequence of
    unknown length passed with * is kept as a read-only view)"""
    from .executor import StarArgs
    self_ref, rest = args[0], list(args[1:])
    o = ex.obj(state, self_ref)
    if len(rest) == 1 and isinstance(rest[0], StarArgs):
        v = ex.narrow(state, rest[0].v)
        if isinstance(v, VNoneT):
            ex.raise_if(state, z3.BoolVal(True), "TypeError")
        o.fields["args"] = v
    elif any(isinstance(x, StarArgs) for x in rest):
        raise Unsupported("Exception.__init__ with mixed explicit and * arguments")
    else:
        o.fields["args"] = VTuple(rest)
    return VNone


@builtin("bytearray")
def b_bytearray(ex, state, args, kwargs, sv):
    """bytearray(iterable of ints | bytes) used as a read-only octet sequence (construction checks the 0..255 range like
    CPython; item assignment on the result is outside the modelled subset and reported as unsupported)"""
    ex.notes["assumed"].add("bytearray values are only read (modelled as immutable octet sequences)")
    return b_bytes(ex, state, args, kwargs, sv)


# ------------------------------------------------------------------------------------------ re (constant patterns)
@builtin("re.compile")
def b_re_compile(ex, state, args, kwargs, sv):
    from .regex import Compiled
    p = args[0]
    if len(args) != 1 or kwargs or not (isinstance(p, VStr) and z3.is_string_value(p.t)):
        raise Unsupported("re.compile of a non-constant pattern / with flags")
    return VRegex(Compiled(p.t.as_string()))


def _re_test(which):
    def f(ex, state, args, kwargs, sv):
        """match object (opaque, truthy) or None; only acceptance is modelled (no groups)"""
        v = args[0]

        def one(a):
            if not isinstance(a, VStr):
                ex.raise_if(state, z3.BoolVal(True), "TypeError")
            lang = sv.compiled.match_lang if which == "match" else sv.compiled.full_lang
            ok = z3.InRe(a.t, lang)
            return mk_union([(ok, VOpaque(fresh_name("matchobj"))), (z3.Not(ok), VNone)])
        return ex.dist(state, [v], one)
    return f


BUILTINS["regex.match"] = _re_test("match")
BUILTINS["regex.fullmatch"] = _re_test("fullmatch")
