"""Python `re` patterns as z3 regular expressions (the subset used for validators: literals, classes, categories \\d \\s
\\w, groups, alternation, bounded/unbounded repetition, ^ at the start, $ / \\Z at the end).

The translation follows CPython's own parse tree (re._parser) so that the verified language is the one the real
`re` module implements, including its corner cases:
  * `$` matches at the end of the string *and* before a trailing newline;
  * for str patterns \\d and \\s are the Unicode classes (all Nd digits, all characters with str.isspace());
  * `pattern.match(s)` anchors at the start only.
Code points are limited to z3's character range (<= 0x2FFFF).
"""
import re._constants as C
import re._parser as P
import unicodedata

import z3

from .values import Unsupported

_MAXC = 0x2FFFF
RS = z3.ReSort(z3.StringSort())


def _ch(c):
    return z3.StringVal(chr(c))


def _range(lo, hi):
    hi = min(hi, _MAXC)
    if lo == hi:
        return z3.Re(_ch(lo))
    return z3.Range(_ch(lo), _ch(hi))


def _runs(pred):
    runs = []
    for c in range(_MAXC + 1):
        if pred(chr(c)):
            if runs and runs[-1][1] == c - 1:
                runs[-1][1] = c
            else:
                runs.append([c, c])
    return runs


_cat_cache = {}


def _category(cat):
    if cat in _cat_cache:
        return _cat_cache[cat]
    if cat in (C.CATEGORY_DIGIT, C.CATEGORY_NOT_DIGIT):
        base = _union([_range(a, b) for a, b in _runs(lambda ch: unicodedata.category(ch) == "Nd")])
        neg = cat == C.CATEGORY_NOT_DIGIT
    elif cat in (C.CATEGORY_SPACE, C.CATEGORY_NOT_SPACE):
        base = _union([_range(a, b) for a, b in _runs(lambda ch: ch.isspace())])
        neg = cat == C.CATEGORY_NOT_SPACE
    elif cat in (C.CATEGORY_WORD, C.CATEGORY_NOT_WORD):
        base = _union([_range(a, b) for a, b in _runs(lambda ch: ch.isalnum() or ch == "_")])
        neg = cat == C.CATEGORY_NOT_WORD
    else:
        raise Unsupported("regex category %s" % cat)
    r = _not_char(base) if neg else base
    _cat_cache[cat] = r
    return r


def _union(rs):
    if not rs:
        return z3.Empty(RS)
    return rs[0] if len(rs) == 1 else z3.Union(*rs)


def _not_char(r):
    return z3.Intersect(z3.AllChar(RS), z3.Complement(r))


def _seq(items):
    parts = [_node(op, av) for op, av in items]
    if not parts:
        return z3.Re(z3.StringVal(""))
    return parts[0] if len(parts) == 1 else z3.Concat(*parts)


def _node(op, av):
    if op is C.LITERAL:
        if av > _MAXC:
            raise Unsupported("regex literal beyond z3's character range")
        return z3.Re(_ch(av))
    if op is C.NOT_LITERAL:
        return _not_char(z3.Re(_ch(av)))
    if op is C.ANY:
        return _not_char(z3.Re(z3.StringVal("\n")))
    if op is C.IN:
        neg = False
        alts = []
        for o, a in av:
            if o is C.NEGATE:
                neg = True
            elif o is C.LITERAL:
                alts.append(z3.Re(_ch(a)))
            elif o is C.RANGE:
                alts.append(_range(a[0], a[1]))
            elif o is C.CATEGORY:
                alts.append(_category(a))
            else:
                raise Unsupported("regex class item %s" % o)
        r = _union(alts)
        return _not_char(r) if neg else r
    if op is C.SUBPATTERN:
        return _seq(av[3])
    if op is C.BRANCH:
        return _union([_seq(alt) for alt in av[1]])
    if op in (C.MAX_REPEAT, C.MIN_REPEAT):
        lo, hi, sub = av
        r = _seq(sub)
        if hi == C.MAXREPEAT:
            if lo == 0:
                return z3.Star(r)
            if lo == 1:
                return z3.Plus(r)
            return z3.Concat(z3.Loop(r, lo, lo), z3.Star(r))
        return z3.Loop(r, lo, hi)
    raise Unsupported("regex construct %s" % op)


class Compiled:
    """language of `re.compile(pattern).match` / `.fullmatch` as z3 regular expressions"""

    def __init__(self, pattern):
        self.pattern = pattern
        items = list(P.parse(pattern))
        if items and items[0] == (C.AT, C.AT_BEGINNING):
            items = items[1:]
        end = None
        if items and items[-1][0] is C.AT and items[-1][1] in (C.AT_END, C.AT_END_STRING):
            end = items[-1][1]
            items = items[:-1]
        if any(op is C.AT for op, _ in items):
            raise Unsupported("regex anchor inside the pattern")
        self.core = _seq(items)
        nl = z3.Re(z3.StringVal("\n"))
        if end is C.AT_END:
            self.match_lang = z3.Union(self.core, z3.Concat(self.core, nl))      # `$`: also before a final newline
            self.full_lang = self.match_lang
        elif end is C.AT_END_STRING:
            self.match_lang = self.core
            self.full_lang = self.core
        else:
            self.match_lang = z3.Concat(self.core, z3.Star(z3.AllChar(RS)))
            self.full_lang = self.core
