"""Helpers for spec-level obligations: turning a Python spec function into a z3 term, lemmas by
induction (two SMT obligations), finite-domain lemmas."""
import time
import z3

from . import loader, calls
from .values import *  # noqa
from .engine import *  # noqa
from .executor import Executor
from .contracts import Registry


def wrap(t):
    if isinstance(t, V):
        return t
    if z3.is_int(t):
        return VInt(t)
    if z3.is_bool(t):
        return VBool(t)
    if z3.is_seq(t) and not z3.is_string(t):
        return VBytes(t)
    if z3.is_string(t):
        return VStr(t)
    if z3.is_real(t):
        return VReal(t)
    raise Unsupported("wrap %r" % (t,))


def unwrap(v):
    if isinstance(v, (VInt, VBool, VBytes, VStr, VReal)):
        return v.t
    if isinstance(v, VUnion):
        # union of same-sorted atoms cannot occur (they fuse); anything else is not a term
        raise Unsupported("spec function returned a union %r" % (v,))
    raise Unsupported("spec function returned %r" % (v,))


def spec_term(module, fname, args, reg=None):
    """symbolically execute a (non-recursive) Python spec function on z3 arguments; returns a z3 term"""
    reg = reg or Registry()
    ex = Executor(reg, unit_name="spec:" + fname)
    ex.spec_mode = 1
    state = State()
    fr = Frame(None, {})
    fr.module = module
    state.frames.append(fr)
    fv = ex.module_attr(state, module, fname)
    from . import engine
    engine.NAMING[0] = False
    try:
        r = calls.inline_call(ex, state, fv, [wrap(a) for a in args], {})
    finally:
        engine.NAMING[0] = True
    return z3.simplify(unwrap(r))


def solve(name, hyps, goal, timeout_ms=20000, kind="lemma", axioms=(), auto_axioms=False):
    """spec-level obligation.  Lemmas are proved from explicitly listed axioms only (auto_axioms=False),
    so a lemma can never be discharged by the axiom that states it."""
    from . import verify
    t0 = time.time()
    s = z3.Solver()
    s.set("timeout", timeout_ms)
    terms = list(hyps) + [z3.Not(goal)]
    for ax in list(axioms) + (verify.axioms_for(terms) if auto_axioms else []):
        s.add(ax)
    for t in terms:
        s.add(t)
    r = verify.guarded_check(s, timeout_ms)
    status = "proved" if r == "unsat" else ("refuted" if r == "sat" else "unknown")
    backend = "z3"
    out = {"name": name, "kind": kind, "status": status, "backend": backend, "time": round(time.time() - t0, 4),
           "info": {}}
    if status == "unknown":
        r2 = verify.run_cvc5(s.to_smt2(), timeout_ms)
        if r2 in ("sat", "unsat"):
            out["status"] = "proved" if r2 == "unsat" else "refuted"
            out["backend"] = "cvc5"
        else:
            out["reason"] = "timeout/unknown"
    return out


def induction_lemma(name, var, base_value, hyps, prop, timeout_ms=20000, axioms=()):
    """prove  forall var >= base_value. hyps => prop(var)  by induction on var:
         base:  hyps[var:=base] => prop(base)
         step:  var >= base and hyps(var), hyps(var+1), prop(var) => prop(var+1)
       `hyps` and `prop` are callables from a z3 Int term to a list of / a z3 Bool."""
    k = z3.Int(fresh_name("ind_k"))
    res = []
    res.append(solve(name + "/induction-base", hyps(base_value), prop(base_value), timeout_ms, axioms=axioms))
    res.append(solve(name + "/induction-step", [k >= base_value] + hyps(k) + hyps(k + 1) + [prop(k)], prop(k + 1),
                     timeout_ms, axioms=axioms))
    return res


def finite_lemma(name, hyps, goal, timeout_ms=60000, axioms=()):
    """loop-free obligation over a finite symbolic domain, decided symbolically (complete)"""
    r = solve(name, hyps, goal, timeout_ms, kind="lemma-finite", axioms=axioms)
    return r
