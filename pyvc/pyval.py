"""Dynamically typed values (deserialized WAMP structures, *args/**kwargs): uninterpreted sort PyVal
with a tag and projections (Boogie-style encoding of a dynamic language).  Filled in by pyval_impl."""
import z3
from .values import *  # noqa

PyVal = z3.DeclareSort("PyVal")


def _nyi(*a, **k):
    raise Unsupported("PyVal operation not modelled")


truthy = eq = is_ = length = unpack = getattr_ = binop = order = contains = get_item = get_slice = _nyi
isinstance_ = type_of = to_int = to_list = to_dyn = _nyi
