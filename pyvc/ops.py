"""Operators on atoms: arithmetic (exact: Python ints are mathematical integers), bit operations
(rewritten to div/mod — linear when one operand is constant), comparisons, indexing, slicing."""
import ast
import z3

from .values import *  # noqa
from .engine import *  # noqa
from . import pyval


def ival(t):
    t = simp(t)
    return t.as_long() if z3.is_int_value(t) else None


def py_floordiv(a, b):
    """Python floor division for z3 ints (SMT-LIB div is floor only for positive divisors)."""
    bv = ival(b)
    if bv is not None and bv > 0:
        return a / b
    return _fd(a, b)


def _fd(a, b):
    # z3: a = b*(a div b) + (a mod b), 0 <= a mod b < |b|.  Python: floor(a/b), remainder has sign of b.
    q = a / b
    r = a % b
    return z3.If(z3.Or(b > 0, r == 0), q, q - 1)


def py_mod(a, b):
    bv = ival(b)
    if bv is not None and bv > 0:
        return a % b
    r = a % b
    return z3.If(z3.Or(b > 0, r == 0), r, r + b)


def bit_and_const(x, c):
    """x & c for constant c >= 0 (exact for every Python int x: two's complement, infinite sign ext.)"""
    if c == 0:
        return z3.IntVal(0)
    terms = []
    i = 0
    while (1 << i) <= c:
        if c >> i & 1:
            j = i
            while c >> j & 1:
                j += 1
            # bits i..j-1 set
            lo = 1 << i
            width = 1 << (j - i)
            part = (x / lo) % width if i > 0 else x % width
            terms.append(part * lo if i > 0 else part)
            i = j
        else:
            i += 1
    return terms[0] if len(terms) == 1 else z3.Sum(terms)


def bit_and_sym(ex, state, a, b, width=8):
    """a & b for symbolic operands via bit decomposition; only valid for 0 <= a,b < 2^width, which is
    emitted as a proof obligation at this point."""
    ex.oblige("bitwidth", state, z3.And(a >= 0, a < (1 << width), b >= 0, b < (1 << width)))
    terms = []
    for i in range(width):
        ba = (a / (1 << i)) % 2
        bb = (b / (1 << i)) % 2
        terms.append(z3.If(z3.And(ba == 1, bb == 1), 1 << i, 0))
    return z3.Sum(terms)


def binop(ex, state, op, a, b, inplace=False):
    if isinstance(a, VDyn) or isinstance(b, VDyn):
        return pyval.binop(ex, state, op, a, b)
    if isinstance(a, VOpaque) or isinstance(b, VOpaque):
        ex.raise_if(state, z3.Bool(fresh_name("opq_binop_raises")), "TypeError")
        return VOpaque()
    ka, kb = a.kind, b.kind
    num = ("int", "bool")
    if ka in num and kb in num:
        # in-place ^= on barray elements etc. handled by caller through assign
        x, y = ex.num(a), ex.num(b)
        if isinstance(op, ast.Add):
            return VInt(x + y)
        if isinstance(op, ast.Sub):
            return VInt(x - y)
        if isinstance(op, ast.Mult):
            return VInt(x * y)
        if isinstance(op, ast.FloorDiv):
            ex.raise_if(state, y == 0, "ZeroDivisionError")
            return VInt(py_floordiv(x, y))
        if isinstance(op, ast.Mod):
            ex.raise_if(state, y == 0, "ZeroDivisionError")
            return VInt(py_mod(x, y))
        if isinstance(op, ast.Div):
            ex.raise_if(state, y == 0, "ZeroDivisionError")
            return VReal(z3.ToReal(x) / z3.ToReal(y))
        if isinstance(op, ast.Pow):
            xv, yv = ival(x), ival(y)
            if xv is not None and yv is not None and yv >= 0:
                return VInt(xv ** yv)
            if yv is not None and 0 <= yv <= 4:
                r = z3.IntVal(1)
                for _ in range(yv):
                    r = r * x
                return VInt(r)
            if xv == 2:
                return VInt(pow2(ex, state, y))
            if xv == 10:
                return VInt(pow10(ex, state, y))
            raise Unsupported("symbolic power")
        if isinstance(op, ast.LShift):
            yv = ival(y)
            if yv is not None:
                return VInt(x * (1 << yv))
            return VInt(x * pow2(ex, state, y))
        if isinstance(op, ast.RShift):
            yv = ival(y)
            if yv is not None:
                return VInt(x / (1 << yv))
            return VInt(x / pow2(ex, state, y))
        if isinstance(op, (ast.BitAnd, ast.BitOr, ast.BitXor)):
            if ka == "bool" and kb == "bool":
                if isinstance(op, ast.BitAnd):
                    return VBool(z3.And(a.t, b.t))
                if isinstance(op, ast.BitOr):
                    return VBool(z3.Or(a.t, b.t))
                return VBool(z3.Xor(a.t, b.t))
            xv, yv = ival(x), ival(y)
            if xv is not None and yv is not None:
                r = xv & yv if isinstance(op, ast.BitAnd) else (xv | yv if isinstance(op, ast.BitOr) else xv ^ yv)
                return VInt(r)
            if yv is None and xv is not None:
                x, y, xv, yv = y, x, yv, xv
            if yv is not None and yv >= 0:
                andc = bit_and_const(x, yv)
            elif yv is not None:
                raise Unsupported("bit op with negative constant")
            elif isinstance(op, ast.BitOr) and _disjoint_or(ex, state, x, y) is not None:
                # (t << k) | u with 0 <= u < 2**k: the operands share no bit, so the result is their sum
                return VInt(_disjoint_or(ex, state, x, y))
            else:
                # both operands symbolic: octet-wide bit operation as an application of the defined function
                # bxor8/band8/bor8 (natives); operands must be octets (obligation), result is an octet
                from . import natives
                ex.oblige("bitwidth", state, z3.And(x >= 0, x <= 255, y >= 0, y <= 255))
                fn = natives.band8 if isinstance(op, ast.BitAnd) else (natives.bor8 if isinstance(op, ast.BitOr) else natives.bxor8)
                r = fn(x, y)
                state.assume(z3.And(r >= 0, r <= 255))
                return VInt(r)
            if isinstance(op, ast.BitAnd):
                return VInt(andc)
            if isinstance(op, ast.BitOr):
                return VInt(x + y - andc)
            return VInt(x + y - 2 * andc)
    if (ka in num or ka == "real") and (kb in num or kb == "real"):
        x, y = ex.num(a), ex.num(b)
        x = z3.ToReal(x) if x.sort() == z3.IntSort() else x
        y = z3.ToReal(y) if y.sort() == z3.IntSort() else y
        if isinstance(op, ast.Add):
            return VReal(x + y)
        if isinstance(op, ast.Sub):
            return VReal(x - y)
        if isinstance(op, ast.Mult):
            return VReal(x * y)
        if isinstance(op, ast.Div):
            ex.raise_if(state, y == 0, "ZeroDivisionError")
            return VReal(x / y)
        raise Unsupported("float op %s" % type(op).__name__)
    if ka == kb == "bytes" and isinstance(op, ast.Add):
        return VBytes(z3.Concat(a.t, b.t))
    if ka == kb == "abytes" and isinstance(op, ast.Add):
        k = z3.Int(fresh_name("cat_k"))
        return VABytes(z3.Lambda([k], z3.If(k < a.n, z3.Select(a.arr, k), z3.Select(b.arr, k - a.n))), simp(a.n + b.n))
    if ka == kb == "str" and isinstance(op, ast.Add):
        return VStr(z3.Concat(a.t, b.t))
    if ka == "str" and isinstance(op, ast.Mod):
        ex.notes["dropped"].add("%-format contents (opaque str)")
        return VStr(z3.String(fresh_name("fmt")))
    if ka == "bytes" and kb in num and isinstance(op, ast.Mult):
        n = ival(ex.num(b))
        if n is not None and n <= 64:
            if n <= 0:
                return VBytes(b"")
            return VBytes(z3.Concat(*([a.t] * n))) if n > 1 else a
        raise Unsupported("bytes * symbolic")
    if ka == kb == "tuple" and isinstance(op, ast.Add):
        return VTuple(a.items + b.items)
    if ka == "ref" and kb == "ref" and isinstance(op, ast.Add):
        oa, ob = ex.obj(state, a), ex.obj(state, b)
        if oa.kind == ob.kind == "list":
            if inplace:
                from . import models
                models.list_extend(ex, state, a, b)
                return None
            o = HObj("list")
            if oa.items is not None and ob.items is not None:
                o.items = oa.items + ob.items
            else:
                sa, ea = list_to_seq(oa)
                sb, eb = list_to_seq(ob)
                o.seq, o.elem = z3.Concat(sa, sb), (ea if oa.items != [] else eb)
            return state.alloc(o)
    if ka == "ref" and isinstance(op, ast.Add) and kb == "tuple" and ex.obj(state, a).kind == "list":
        ex.raise_if(state, z3.BoolVal(True), "TypeError")
    if ka == "tuple" and kb == "ref" and isinstance(op, ast.Add):
        ex.raise_if(state, z3.BoolVal(True), "TypeError")
    if "none" in (ka, kb) or {ka, kb} in ({"str", "int"}, {"bytes", "int"}, {"str", "bytes"}):
        ex.raise_if(state, z3.BoolVal(True), "TypeError")
    raise Unsupported("binop %s on %s,%s" % (type(op).__name__, ka, kb))


def _pow2_multiple(t, depth=0):
    """largest c = 2**k (k <= 62) that syntactically divides the linear term t (1 if none)"""
    if z3.is_int_value(t):
        v = abs(t.as_long())
        return (v & -v) if v else (1 << 62)
    if depth > 8 or not z3.is_app(t):
        return 1
    k = t.decl().kind()
    if k == z3.Z3_OP_MUL:
        c = 1
        for ch in t.children():
            c = min(c * _pow2_multiple(ch, depth + 1), 1 << 62)
        return c
    if k in (z3.Z3_OP_ADD, z3.Z3_OP_SUB):
        return min(_pow2_multiple(ch, depth + 1) for ch in t.children())
    if k == z3.Z3_OP_UMINUS:
        return _pow2_multiple(t.arg(0), depth + 1)
    return 1


def _disjoint_or(ex, state, x, y):
    for p, q in ((x, y), (y, x)):
        c = _pow2_multiple(p)
        if c > 1 and ex.prove_quick(state, z3.And(p >= 0, q >= 0, q < c), timeout_ms=2000):
            return p + q
    # semantic variant for octets whose structure is hidden behind named (merged) terms: p a multiple of 2**k, q below
    if ex.prove_quick(state, z3.And(x >= 0, x <= 255, y >= 0, y <= 255), timeout_ms=500):
        for p, q in ((x, y), (y, x)):
            for k in (7, 6, 5, 4, 3, 2, 1):
                c = 1 << k
                if ex.prove_quick(state, z3.And(p % c == 0, q < c), timeout_ms=300):
                    return p + q
    return None


_pow2 = z3.Function("pow2", z3.IntSort(), z3.IntSort())
_pow10 = z3.Function("pow10", z3.IntSort(), z3.IntSort())


def pow2(ex, state, y, lo=0, hi=64):
    """2**y for symbolic y: exact table over [lo, hi] with the range emitted as an obligation."""
    ex.oblige("pow-range", state, z3.And(y >= lo, y <= hi))
    t = z3.IntVal(1 << hi)
    for k in range(hi - 1, lo - 1, -1):
        t = z3.If(y == k, z3.IntVal(1 << k), t)
    return t


def pow10(ex, state, y, lo=0, hi=20):
    ex.oblige("pow-range", state, z3.And(y >= lo, y <= hi))
    t = z3.IntVal(10 ** hi)
    for k in range(hi - 1, lo - 1, -1):
        t = z3.If(y == k, z3.IntVal(10 ** k), t)
    return t


# ------------------------------------------------------------------------------------------ compare

def compare(ex, state, op, a, b):
    if isinstance(op, ast.Is):
        return ex.is_(state, a, b)
    if isinstance(op, ast.IsNot):
        return simp(z3.Not(ex.is_(state, a, b)))
    if isinstance(op, ast.Eq):
        return ex.eq(state, a, b)
    if isinstance(op, ast.NotEq):
        return simp(z3.Not(ex.eq(state, a, b)))
    if isinstance(op, (ast.In, ast.NotIn)):
        r = contains(ex, state, b, a)
        return simp(z3.Not(r)) if isinstance(op, ast.NotIn) else r
    # ordering
    res = ex.dist(state, [a, b], lambda x, y: VBool(order(ex, state, op, x, y)))
    return res.t if isinstance(res, VBool) else ex.truthy(state, res)


def order(ex, state, op, a, b):
    if isinstance(a, VDyn) or isinstance(b, VDyn):
        return pyval.order(ex, state, op, a, b)
    ka, kb = a.kind, b.kind
    if ka in ("int", "bool", "real") and kb in ("int", "bool", "real"):
        x, y = ex.num(a), ex.num(b)
        if x.sort() != y.sort():
            x = z3.ToReal(x) if x.sort() == z3.IntSort() else x
            y = z3.ToReal(y) if y.sort() == z3.IntSort() else y
        if isinstance(op, ast.Lt):
            return x < y
        if isinstance(op, ast.LtE):
            return x <= y
        if isinstance(op, ast.Gt):
            return x > y
        if isinstance(op, ast.GtE):
            return x >= y
    if ka == kb == "str":
        if isinstance(op, ast.Lt):
            return a.t < b.t
        if isinstance(op, ast.LtE):
            return a.t <= b.t
        if isinstance(op, ast.Gt):
            return b.t < a.t
        if isinstance(op, ast.GtE):
            return b.t <= a.t
    if "opaque" in (ka, kb):
        ex.raise_if(state, z3.Bool(fresh_name("opq_cmp_raises")), "TypeError")
        return z3.Bool(fresh_name("opq_cmp"))
    if "none" in (ka, kb) or {ka, kb} & {"str", "bytes", "tuple", "ref"}:
        if ka != kb:
            ex.raise_if(state, z3.BoolVal(True), "TypeError")
    raise Unsupported("ordering on %s,%s" % (ka, kb))


def contains(ex, state, container, x):
    """z3 Bool for `x in container`."""
    if isinstance(container, VUnion):
        # alternatives that cannot be searched (None ...) raise TypeError under their guard only
        r = ex.dist(state, [container], lambda c: VBool(contains_atom(ex, state, c, x)))
        return simp(ex.truthy(state, r))
    return simp(contains_atom(ex, state, container, x))


def contains_atom(ex, state, c, x):
    if isinstance(c, VTuple):
        return disj([ex.eq(state, x, it) for it in c.items])
    if isinstance(c, VRef):
        o = ex.obj(state, c)
        if o.kind == "list":
            if o.items is not None:
                return disj([ex.eq(state, x, it) for it in o.items])
            res = []
            for g, xa in alts_of(x):
                try:
                    el, t = elem_of_value(xa)
                except Unsupported:
                    res.append(z3.BoolVal(False))
                    continue
                if el != o.elem:
                    continue
                res.append(z3.And(g, z3.Contains(o.seq, z3.Unit(t))))
            return disj(res)
        if o.kind in ("dict", "udict"):
            from . import models
            return models.dict_has(ex, state, c, x)
    if isinstance(c, VListView):
        from . import models
        res = []
        for g, xa in alts_of(x):
            try:
                el, t = elem_of_value(xa)
            except Unsupported:
                continue
            if el == c.elem:
                res.append(z3.And(g, z3.Contains(models.lv_seq(ex, state, c), z3.Unit(t))))
        return disj(res)
    if isinstance(c, VStr):
        res = []
        for g, xa in alts_of(x):
            if isinstance(xa, VStr):
                res.append(z3.And(g, z3.Contains(c.t, xa.t)))
            else:
                ex.raise_if(state, g, "TypeError")
        return disj(res)
    if isinstance(c, VBytes):
        res = []
        for g, xa in alts_of(x):
            if isinstance(xa, VBytes):
                res.append(z3.And(g, z3.Contains(c.t, xa.t)))
            elif isinstance(xa, VInt):
                res.append(z3.And(g, z3.Contains(c.t, z3.Unit(xa.t))))
            else:
                ex.raise_if(state, g, "TypeError")
        return disj(res)
    if isinstance(c, VDyn):
        return pyval.contains(ex, state, c, x)
    if isinstance(c, VOpaque):
        return z3.Bool(fresh_name("in_opq"))
    if isinstance(c, VNoneT):
        ex.raise_if(state, z3.BoolVal(True), "TypeError")
    raise Unsupported("in on %r" % (c,))


# ------------------------------------------------------------------------------------------ indexing

_const_seq_cache = {}
_const_tab_cache = {}


def const_seq(t):
    """python list of ints if `t` is a literal byte sequence, else None (cached by term id)"""
    key = t.get_id()
    if key in _const_seq_cache:
        return _const_seq_cache[key][1]
    out = []

    def rec(x):
        k = x.decl().kind() if z3.is_app(x) else None
        if k == z3.Z3_OP_SEQ_UNIT and z3.is_int_value(x.arg(0)):
            out.append(x.arg(0).as_long())
            return True
        if k == z3.Z3_OP_SEQ_CONCAT:
            return all(rec(c) for c in x.children())
        if k == z3.Z3_OP_SEQ_EMPTY:
            return True
        return False
    res = out if rec(t) else None
    _const_seq_cache[key] = (t, res)
    return res


def const_table(vals):
    """constant lookup table as a z3 array (store chain over K(0))"""
    key = tuple(vals)
    if key not in _const_tab_cache:
        a = z3.K(z3.IntSort(), z3.IntVal(0))
        for i, v in enumerate(vals):
            if v != 0:
                a = z3.Store(a, i, v)
        _const_tab_cache[key] = a
    return _const_tab_cache[key]


def norm_index(i, n):
    return z3.If(i < 0, i + n, i)


def seq_len(ex, state, t, depth=0):
    """length of a sequence term with slices / concatenations resolved structurally where the bounds are provable
    (an equal but much smaller term than Length(t) for the sequence solver)"""
    if z3.is_app(t) and depth < 6:
        k = t.decl().kind()
        if k == z3.Z3_OP_SEQ_UNIT:
            return z3.IntVal(1)
        if k == z3.Z3_OP_SEQ_EMPTY:
            return z3.IntVal(0)
        if k == z3.Z3_OP_SEQ_CONCAT:
            return simp(z3.Sum([seq_len(ex, state, c, depth + 1) for c in t.children()]))
        if k == z3.Z3_OP_SEQ_EXTRACT:
            base, lo, n = t.arg(0), t.arg(1), t.arg(2)
            if ex.prove_quick(state, z3.And(lo >= 0, n >= 0, lo + n <= seq_len(ex, state, base, depth + 1))):
                return simp(n)
    return z3.Length(t)


def seq_nth(ex, state, t, i, depth=0):
    """element i of t for an index known to be in range: slices and concatenations are looked through"""
    i = simp(i)
    if z3.is_app(t) and depth < 6:
        k = t.decl().kind()
        if k == z3.Z3_OP_SEQ_UNIT:
            return t.arg(0)
        if k == z3.Z3_OP_SEQ_EXTRACT:
            base, lo = t.arg(0), t.arg(1)
            if ex.prove_quick(state, lo >= 0):
                return seq_nth(ex, state, base, simp(lo + i), depth + 1)
        if k == z3.Z3_OP_SEQ_CONCAT:
            off = z3.IntVal(0)
            for c in t.children():
                lc = seq_len(ex, state, c, depth + 1)
                if ex.prove_quick(state, i < simp(off + lc)):
                    return seq_nth(ex, state, c, simp(i - off), depth + 1)
                if not ex.prove_quick(state, i >= simp(off + lc)):
                    # undecided which side of a two-part concatenation (xs ++ [x], the shape list.append builds) the
                    # index falls on: an explicit case distinction instead of nth over a concatenation
                    kids = t.children()
                    pos = [j for j, c2 in enumerate(kids) if c2.eq(c)][0]
                    last = kids[-1]
                    if pos == len(kids) - 2 and z3.is_app(last) and last.decl().kind() == z3.Z3_OP_SEQ_UNIT:
                        return z3.If(i < simp(off + lc), seq_nth(ex, state, c, simp(i - off), depth + 1),
                                     seq_nth(ex, state, last, simp(i - off - lc), depth + 1))
                    break
                off = simp(off + lc)
    return t[i]


def seq_slice(ex, state, t, lo, n):
    """t[lo:lo+n] for provably valid bounds (0 <= lo, 0 <= n, lo+n <= len t): a slice of a slice is taken from the
    underlying sequence directly"""
    if z3.is_app(t) and t.decl().kind() == z3.Z3_OP_SEQ_EXTRACT:
        base, lo0, n0 = t.arg(0), t.arg(1), t.arg(2)
        if ex.prove_quick(state, z3.And(lo0 >= 0, n0 >= 0, lo0 + n0 <= seq_len(ex, state, base), lo >= 0, n >= 0,
                                        lo + n <= n0)):
            return seq_slice(ex, state, base, simp(lo0 + lo), n)
    return z3.Extract(t, lo, n)


def get_item(ex, state, v, k):
    if isinstance(v, VPtr):
        return get_item(ex, state, v.base, VInt(simp(v.off + ex.num(k))))
    if isinstance(v, VDyn) or (isinstance(k, VDyn) and not isinstance(v, VRef)):
        return pyval.get_item(ex, state, v, k)
    if isinstance(v, VBytes) or isinstance(v, VStr):
        if not isinstance(k, (VInt, VBool)):
            ex.raise_if(state, z3.BoolVal(True), "TypeError")
        i = ex.num(k)
        n = seq_len(ex, state, v.t) if isinstance(v, VBytes) else z3.Length(v.t)
        ex.raise_if(state, z3.Or(i >= n, i < -n), "IndexError")
        j = ex.index_term(state, i, n)
        if isinstance(v, VBytes):
            cb = const_seq(v.t)
            if cb is not None and len(cb) > 8 and not z3.is_int_value(j):
                return VInt(z3.Select(const_table(cb), j))
            e = seq_nth(ex, state, v.t, j)
            state.assume(z3.And(e >= 0, e <= 255))
            return VInt(e)
        return VStr(z3.SubString(v.t, j, 1))
    if isinstance(v, VListView):
        from . import models
        s_ = models.lv_seq(ex, state, v)
        i = ex.num(k)
        n = z3.Length(s_)
        ex.raise_if(state, z3.Or(i >= n, i < -n), "IndexError")
        return value_of_elem(v.elem, s_[ex.index_term(state, i, n)])
    if isinstance(v, VABytes):
        if not isinstance(k, (VInt, VBool)):
            ex.raise_if(state, z3.BoolVal(True), "TypeError")
        i = ex.num(k)
        ex.raise_if(state, z3.Or(i >= v.n, i < -v.n), "IndexError")
        j = ex.index_term(state, i, v.n)
        e = z3.Select(v.arr, j)
        state.assume(z3.And(e >= 0, e <= 255))
        return VInt(e)
    if isinstance(v, VTuple):
        if isinstance(k, (VInt, VBool)):
            iv = ival(ex.num(k))
            n = len(v.items)
            if iv is not None:
                if iv >= n or iv < -n:
                    ex.raise_if(state, z3.BoolVal(True), "IndexError")
                return v.items[iv]
            i = ex.num(k)
            ex.raise_if(state, z3.Or(i >= n, i < -n), "IndexError")
            j = simp(norm_index(i, n))
            if n > 8 and all(isinstance(it, VInt) and z3.is_int_value(it.t) for it in v.items):
                return VInt(z3.Select(const_table([it.t.as_long() for it in v.items]), j))
            return mk_union([(simp(j == idx), it) for idx, it in enumerate(v.items)])
        ex.raise_if(state, z3.BoolVal(True), "TypeError")
    if isinstance(v, VRef):
        o = ex.obj(state, v)
        if o.kind == "ulist":
            if not isinstance(k, (VInt, VBool)):
                ex.raise_if(state, z3.BoolVal(True), "TypeError")
            i = ex.num(k)
            ex.raise_if(state, z3.Or(i >= o.n, i < -o.n), "IndexError")
            i = simp(i)
            if not ((z3.is_int_value(i) and i.as_long() >= 0) or ex.prove_quick(state, i >= 0)):
                i = simp(z3.If(i >= 0, i, i + o.n))
            return ex.reg.ulist_get(ex, state, o, i)
        if o.kind == "list":
            if not isinstance(k, (VInt, VBool)):
                ex.raise_if(state, z3.BoolVal(True), "TypeError")
            i = ex.num(k)
            if o.items is not None:
                n = len(o.items)
                iv = ival(i)
                if iv is not None:
                    if iv >= n or iv < -n:
                        ex.raise_if(state, z3.BoolVal(True), "IndexError")
                    return o.items[iv]
                ex.raise_if(state, z3.Or(i >= n, i < -n), "IndexError")
                j = norm_index(i, n)
                if n == 0:
                    raise _abort()
                return mk_union([(simp(j == idx), it) for idx, it in enumerate(o.items)])
            n = z3.Length(o.seq)
            ex.raise_if(state, z3.Or(i >= n, i < -n), "IndexError")
            j = ex.index_term(state, i, n)
            return value_of_elem(o.elem, seq_nth(ex, state, o.seq, j))
        if o.kind in ("dict", "udict"):
            from . import models
            return models.dict_getitem(ex, state, v, k)
        if o.kind == "alist":
            i = ex.num(k)
            ex.raise_if(state, z3.Or(i >= o.n, i < -o.n), "IndexError")
            return value_of_elem(o.elem, z3.Select(o.arr, ex.index_term(state, i, o.n)))
        if o.kind == "barray":
            i = ex.num(k)
            ex.raise_if(state, z3.Or(i >= o.n, i < -o.n), "IndexError")
            j = ex.index_term(state, i, o.n)
            e = z3.Select(o.arr, j)
            state.assume(z3.And(e >= 0, e <= 255))      # type invariant of array('B') / uint8_t[]
            return VInt(e)
        if o.kind == "inst":
            m = ex.getattr_atom(state, v, "__getitem__")
            return ex.call(state, m, [k], {})
    if isinstance(v, VNoneT):
        ex.raise_if(state, z3.BoolVal(True), "TypeError")
    if isinstance(v, VOpaque):
        ex.raise_if(state, z3.Bool(fresh_name("opq_getitem_raises")), "Exception")
        return VOpaque()
    raise Unsupported("subscript on %r" % (v,))


def _abort():
    from .executor import _Abort
    return _Abort()


def clamp_slice(lo, hi, n):
    """Python slice index normalisation for step 1."""
    def clamp(i, default):
        if i is None:
            return default
        i = z3.If(i < 0, i + n, i)
        return z3.If(i < 0, z3.IntVal(0), z3.If(i > n, n, i))
    lo2 = clamp(lo, z3.IntVal(0))
    hi2 = clamp(hi, n)
    return simp(lo2), simp(hi2)


def get_slice(ex, state, v, lo, hi, step):
    if step is not None:
        sv = ival(ex.num(step)) if isinstance(step, (VInt, VBool)) else None
        if sv != 1:
            raise Unsupported("slice with step")

    def f(a, l, h):
        for b in (l, h):
            if b is not None and not isinstance(b, (VInt, VBool, VNoneT)):
                if isinstance(b, VDyn):
                    raise Unsupported("slice bound dyn")
                ex.raise_if(state, z3.BoolVal(True), "TypeError")
        lt = ex.num(l) if l is not None and not isinstance(l, VNoneT) else None
        ht = ex.num(h) if h is not None and not isinstance(h, VNoneT) else None
        if isinstance(a, (VBytes, VStr)):
            n = seq_len(ex, state, a.t) if isinstance(a, VBytes) else z3.Length(a.t)
            # bounds that are provably inside [0, n] need no clamping (keeps the terms small)
            if lt is not None and not z3.is_int_value(simp(lt)) and ex.prove_quick(state, z3.And(lt >= 0, lt <= n)):
                l2 = lt
            else:
                l2 = clamp_slice(lt, None, n)[0]
            if ht is not None and not z3.is_int_value(simp(ht)) and ex.prove_quick(state, z3.And(ht >= 0, ht <= n)):
                h2 = ht
            else:
                h2 = clamp_slice(None, ht, n)[1]
            if ex.prove_quick(state, h2 >= l2):
                ln = simp(h2 - l2)
            else:
                ln = simp(z3.If(h2 > l2, h2 - l2, z3.IntVal(0)))
            if isinstance(a, VBytes) and ex.prove_quick(state, z3.And(l2 >= 0, ln >= 0, l2 + ln <= n)):
                return VBytes(seq_slice(ex, state, a.t, simp(l2), ln))
            t = z3.Extract(a.t, l2, ln)
            return type(a)(t)
        if isinstance(a, VTuple):
            lv = ival(lt) if lt is not None else None
            hv = ival(ht) if ht is not None else None
            if (lt is None or lv is not None) and (ht is None or hv is not None):
                return VTuple(a.items[lv:hv])
        if isinstance(a, VRef):
            o = ex.obj(state, a)
            if o.kind == "list":
                lv = ival(lt) if lt is not None else None
                hv = ival(ht) if ht is not None else None
                no = HObj("list")
                if o.items is not None and (lt is None or lv is not None) and (ht is None or hv is not None):
                    no.items = o.items[lv:hv]
                else:
                    s, el = list_to_seq(o)
                    n = z3.Length(s)
                    l2, h2 = clamp_slice(lt, ht, n)
                    no.seq = simp(z3.Extract(s, l2, z3.If(h2 > l2, h2 - l2, z3.IntVal(0))))
                    no.elem = el
                return state.alloc(no)
        if isinstance(a, VDyn):
            return pyval.get_slice(ex, state, a, lt, ht)
        if isinstance(a, VNoneT):
            ex.raise_if(state, z3.BoolVal(True), "TypeError")
        if isinstance(a, VOpaque):
            return VOpaque()
        raise Unsupported("slice of %r" % (a,))
    vals = [v, lo if lo is not None else VNone, hi if hi is not None else VNone]
    return ex.dist(state, vals, f)


def set_item(ex, state, obj, key, v):
    if isinstance(obj, VPtr):
        return set_item(ex, state, obj.base, VInt(simp(obj.off + ex.num(key))), v)
    if isinstance(obj, VRef):
        o = state.heap.get(obj.oid)
        if o is None:
            raise Unsupported("store into module-level constant container")
        if o.frozen:
            raise Unsupported("store into frozen container")
        if o.kind == "list":
            i = ex.num(key)
            if o.items is not None:
                iv = ival(i)
                n = len(o.items)
                if iv is not None:
                    if iv >= n or iv < -n:
                        ex.raise_if(state, z3.BoolVal(True), "IndexError")
                    o.items[iv] = v
                    return
                ex.raise_if(state, z3.Or(i >= n, i < -n), "IndexError")
                j = norm_index(i, n)
                o.items = [merge2(simp(j == idx), v, it) for idx, it in enumerate(o.items)]
                return
            raise Unsupported("store into symbolic list")
        if o.kind == "dict":
            from . import models
            return models.dict_setitem(ex, state, obj, key, v)
        if o.kind == "barray":
            i = ex.num(key)
            ex.raise_if(state, z3.Or(i >= o.n, i < -o.n), "IndexError")
            j = ex.index_term(state, i, o.n)
            t = ex.num(v)
            ex.raise_if(state, z3.Or(t < 0, t > 255), "OverflowError")
            o.arr = z3.Store(o.arr, j, t)
            return
    if isinstance(obj, VOpaque):
        return
    if isinstance(obj, VNoneT):
        ex.raise_if(state, z3.BoolVal(True), "TypeError")
    raise Unsupported("subscript store on %r" % (obj,))


def set_item_guarded(ex, state, obj, key, v, g):
    """obj[key] = v  under guard g (other alternatives of a union-typed container / key are untouched)"""
    if isinstance(obj, VRef) and state.heap[obj.oid].kind == "dict":
        o = state.heap[obj.oid]
        from . import models
        before = (dict(o.sym) if o.sym is not None else None, dict(o.d) if o.d is not None else None)
        models.dict_setitem(ex, state, obj, key, v)
        if o.sym is not None and before[0] is not None:
            o.sym["has"] = z3.If(g, o.sym["has"], before[0]["has"])
            o.sym["val"] = z3.If(g, o.sym["val"], before[0]["val"])
            return
        if o.sym is not None and before[0] is None:
            # an empty literal dict that just became a symbolic table
            o.sym["has"] = z3.If(g, o.sym["has"], z3.K(o.sym["has"].sort().domain(), z3.BoolVal(False)))
            return
        raise Unsupported("guarded store into a concrete-key dict")
    raise Unsupported("guarded subscript store on %r" % (obj,))


def del_item(ex, state, obj, key):
    if isinstance(obj, VRef):
        o = state.heap[obj.oid]
        if o.kind == "dict":
            from . import models
            return models.dict_delitem(ex, state, obj, key)
    if isinstance(obj, VUnion):
        raise Unsupported("del through union")
    raise Unsupported("del item on %r" % (obj,))
