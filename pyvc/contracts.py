"""Contract registry: sidecar contracts keyed by qualified function name, shapes (type declarations
of the objects contracts talk about), spec-language special forms, fresh symbolic values."""
import ast
import z3

from . import loader
from .values import *  # noqa
from .engine import *  # noqa


class Contract:
    def __init__(self, addr, **kw):
        self.addr = addr
        self.props = kw.pop("props", [])
        self.params = kw.pop("params", {})          # param name -> type
        self.returns = kw.pop("returns", "none")
        self.requires = kw.pop("requires", [])
        self.ensures = kw.pop("ensures", [])
        self.modifies = kw.pop("modifies", [])
        self.raises = kw.pop("raises", {})          # exc class name -> condition over the pre-state ("True" = any time)
        self.raises_ensures = kw.pop("raises_ensures", {})
        self.loops = kw.pop("loops", {})            # ordinal -> {"invariant": [...], "vars": {...}}
        self.spec_module = kw.pop("spec_module", "specs.common")
        self.asserts = kw.pop("asserts", "raise")   # 'raise' (AssertionError is an exception) | 'oblige'
        self.verify = kw.pop("verify", True)        # False: assumed contract (trusted / external)
        self.bitwidth = kw.pop("bitwidth", 8)
        self.name = kw.pop("name", None) or addr
        self.prefer = kw.pop("prefer", "else")
        self.lemmas = kw.pop("lemmas", [])
        self.pure = kw.pop("pure", False)
        self.note = kw.pop("note", "")
        self.setup = kw.pop("setup", None)          # optional python callable(ex, state, env) run before requires
        self.ghost = kw.pop("ghost", True)
        self.inline_calls = kw.pop("inline_calls", [])  # addrs inlined only while verifying this unit
        self.known = kw.pop("known", {})            # clause index -> known finding id
        self.ghost_entry = kw.pop("ghost_entry", [])   # ghost statements executed at function entry (ghost.* only)
        self.hints = kw.pop("hints", [])
        self.merge_returns = kw.pop("merge_returns", False)
        self.split_exits = kw.pop("split_exits", False)     # verify the normal exits of the last statement per path
        self.raises_only = kw.pop("raises_only", False)     # the unit is expected never to return normally   # check the postcondition once on the merged exit            # instances of *proved lemmas* assumed at every exit
        if kw:
            raise TypeError("unknown contract keys %r" % list(kw))


class Shape:
    def __init__(self, name, cls=None, fields=None, methods=None, ghost=False, heap_base=None):
        self.heap_base = heap_base  # record shapes of one class hierarchy share the field arrays of their base shape
        self.name = name
        self.cls = cls              # "module:Class" or None
        self.fields = fields or {}
        self.methods = methods or {}    # virtual / external methods: name -> external model name
        self.ghost = ghost


class Registry:
    def __init__(self):
        self.contracts = {}         # addr -> Contract (the one used at call sites)
        self.units = []             # contracts to verify (in order)
        self.shapes = {}
        self.inline = set()         # addrs explicitly inlined
        self.externals = {}         # dotted name -> model fn(ex, state, args, kwargs, self_val)
        self.lemmas = []
        self.const_cache = {}
        self.const_objs = {}
        self.spec_builtins = {}
        self.spec_forms = {"old": sf_old, "implies": sf_implies, "forall": sf_forall, "forallq": sf_forall, "exists": sf_exists,
                           "ite": sf_ite, "fresh_old": sf_old}
        self.native_specs = {}      # name -> (symbolic fn(ex, state, *V) -> V, concrete fn)
        self.type_aliases = {}      # "@name" -> type text
        self.exception_classes = {}
        self.overrides = {}
        self.current = None
        self.sym_fields = {}
        self.inline_loops = {}      # addr -> loops spec for inlined helpers with loops
        self.lemma_names = set()
        self.pure_externals = set()
        self.record_classes = {}    # "module:Class" -> shape name: instances are symbolic records (Boogie heap)
        self.assume_all = False     # while set, contracts are registered for call sites only (proved elsewhere)
        self.ctor_inline_limit = 400

    # -------- declaration API
    def contract(self, addr, **kw):
        if self.assume_all:
            kw["verify"] = False
        c = Contract(addr, **kw)
        key = c.addr
        if c.name == c.addr or kw.get("primary", False) or key not in self.contracts:
            self.contracts.setdefault(key, c)
        if c.name == c.addr:
            self.contracts[key] = c
        if c.verify:
            self.units.append(c)
        return c

    def shape(self, name, cls=None, fields=None, methods=None, base=None, ghost=False, heap_base=None, isa=(),
              absent_none=()):
        f, m = {}, {}
        if base:
            f.update(self.shapes[base].fields)
            m.update(self.shapes[base].methods)
            cls = cls or self.shapes[base].cls
        f.update(fields or {})
        m.update(methods or {})
        self.shapes[name] = Shape(name, cls, f, m, ghost, heap_base)
        self.shapes[name].isa = tuple(isa)      # builtin classes an instance of a class-less shape belongs to
        # fields whose "attribute not set yet" state is represented by None (hasattr() is then `value is not None`;
        # sound when the code never assigns None while relying on hasattr, stated per shape in the assumptions)
        self.shapes[name].absent_none = tuple(absent_none)
        return self.shapes[name]

    def external(self, name, fn, pure=False):
        """assumed-contract model of an external function.  pure=True: the model has no side effects and may be
        applied per alternative of union-typed arguments (never do that for models that update ghost state)"""
        self.externals[name] = fn
        if pure:
            self.pure_externals.add(name)

    def native_spec(self, name, sym, conc=None):
        self.native_specs[name] = (sym, conc)

    def lemma_fn(self, name, sym):
        """a proved lemma usable as a hint: sym(ex, state, *args) -> VBool (the instantiated statement)"""
        self.native_specs[name] = (sym, None)
        self.lemma_names.add(name)

    def check_hint(self, clause):
        import ast as _ast
        t = _ast.parse(clause.strip(), mode="eval").body
        while isinstance(t, _ast.Call) and isinstance(t.func, _ast.Name) and t.func.id == "forall" and len(t.args) == 4:
            t = t.args[3]       # a lemma applied to every index of a range
        if not (isinstance(t, _ast.Call) and isinstance(t.func, _ast.Name) and t.func.id in self.lemma_names):
            raise Unsupported("hint is not an application of a registered lemma: " + clause)

    def record_class(self, qual, shape):
        self.record_classes[qual] = shape

    def mark_inline(self, *addrs):
        self.inline.update(addrs)

    # -------- queries used by the executor
    def assert_mode(self, unit_name):
        c = self.current
        return c.asserts if c is not None else "raise"

    def bitwidth_hint(self, unit_name):
        return self.current.bitwidth if self.current is not None else 8

    def module_override(self, mod, name):
        return self.overrides.get((mod, name))

    def find_exception_class(self, name):
        if name in self.exception_classes:
            return self.exception_classes[name]
        for mod in ("autobahn.exception", "autobahn.wamp.exception", "autobahn.websocket.types",
                    "autobahn.websocket.protocol", "autobahn.wamp.types", "autobahn.websocket.compress_base"):
            ci = loader.get_class(mod, name)
            if ci is not None:
                self.exception_classes[name] = ci
                return ci
        self.exception_classes[name] = None
        return None

    def virtual_method(self, shape_name, attr):
        sh = self.shapes.get(shape_name)
        if sh is None:
            return None
        return sh.methods.get(attr)

    def spec_lookup(self, name):
        if name in self.native_specs:
            return VFunc("native", name)
        return None

    # -------- fresh symbolic values
    _idx = None     # indexed mode: (prefix, [index terms]) -- see fresh_indexed

    def _mk(self, name, sort):
        """a fresh constant -- or, for the elements of an untrusted list (type ulist:), the application of a function
        symbol named after the list and the position inside the element type to the element's index terms: reading the
        same index twice yields the same value, and an index may be a quantified variable"""
        if self._idx is None:
            return z3.Const(fresh_name(name), sort)
        prefix, idxs = self._idx
        return z3.Function("%s!%s" % (prefix, name), *([z3.IntSort()] * len(idxs) + [sort]))(*idxs)

    def fresh_indexed(self, ex, state, typ, name, path=None):
        """element types usable under an index: scalars, none, any, const, unions, opt, ulist, udict / odict.  No
        assumption is added to the state (alternatives are exhaustive by construction), so elements may be created
        while a quantified clause is evaluated"""
        typ = typ.strip()
        if typ.startswith("@"):
            typ = self.type_aliases[typ[1:]]
        if "|" in typ and not typ.startswith(("odict:", "cdict:", "udict:", "ulist:")):
            alts = [t.strip() for t in _split_top(typ, "|")]
            vals = [self.fresh_indexed(ex, state, t, "%s|%d" % (name, i), path) for i, t in enumerate(alts)]
            sel = self._mk(name + "?alt", z3.IntSort())
            gs = [sel == i for i in range(len(alts) - 1)]
            gs.append(z3.Not(z3.Or(*gs)) if gs else z3.BoolVal(True))
            return mk_union(list(zip(gs, vals)))
        if typ.startswith("opt:"):
            isn = self._mk(name + "?none", z3.BoolSort())
            return mk_union([(isn, VNone), (z3.Not(isn), self.fresh_indexed(ex, state, typ[4:], name, path))])
        if typ == "int":
            return VInt(self._mk(name, z3.IntSort()))
        if typ == "bool":
            return VBool(self._mk(name, z3.BoolSort()))
        if typ == "real":
            return VReal(self._mk(name, z3.RealSort()))
        if typ == "bytes":
            return VBytes(self._mk(name, BytesSort))
        if typ == "str":
            return VStr(self._mk(name, z3.StringSort()))
        if typ == "none":
            return VNone
        if typ in ("any", "opaque"):
            return VOpaque("%s!%s" % (self._idx[0], name))
        if typ.startswith("const:"):
            return ex.const(ast.literal_eval(typ[6:]))
        if typ.startswith("ulist:"):
            return self._fresh_ulist(ex, state, typ[6:], name, path)
        if typ.startswith(("udict:", "odict:")):
            return self._fresh_odict(ex, state, typ, name, path)
        raise Unsupported("type %r as an element of an untrusted list" % typ)

    def _fresh_ulist(self, ex, state, elem, name, path):
        """untrusted list: symbolic length, elements materialised on access as functions of the index"""
        o = HObj("ulist")
        o.elem = elem
        if self._idx is None:
            nm = fresh_name(name)
            o.n = z3.Int(nm + "#n")
            state.assume(o.n >= 0)
            o.uctx = (nm, [])
        else:
            n = self._mk(name + "#n", z3.IntSort())
            o.n = z3.If(n >= 0, n, -n)
            o.uctx = ("%s!%s" % (self._idx[0], name), list(self._idx[1]))
        o.frozen = True
        o.cache = {}
        r = state.alloc(o)
        if path:
            state.paths[r.oid] = path
        return r

    def ulist_get(self, ex, state, o, idx):
        key = idx.sexpr()
        if key in o.cache:
            return o.cache[key]
        saved = self._idx
        self._idx = (o.uctx[0], list(o.uctx[1]) + [idx])
        try:
            v = self.fresh_indexed(ex, state, o.elem, "e")
        finally:
            self._idx = saved
        if not ex.quant_facts:          # an element read under a quantifier mentions the bound variable: not kept
            o.cache[key] = v
        return v

    def _fresh_odict(self, ex, state, typ, name, path):
        """odict: dict over a known key universe, each key optionally present.  udict: the same for an *untrusted* dict,
        which may hold further keys (guard .other; possibly not strings): asking it for a key outside the declared
        universe is an error of the contract (Unsupported), never answered with `absent`"""
        o = HObj("dict")
        o.d = {}
        o.opt = {}
        r = state.alloc(o)
        mk = self._mk if self._idx is not None else (lambda n, srt: z3.Const(fresh_name(n), srt))
        sub = self.fresh_indexed if self._idx is not None else self.fresh
        for item in _split_top(typ[6:], ","):
            if not item.strip():
                continue
            k, t = item.split("=", 1)
            k = k.strip()
            o.d[k] = sub(ex, state, t, name + "_" + k)
            o.opt[k] = mk(name + "_has_" + k, z3.BoolSort())
        if typ.startswith("udict:"):
            o.kind = "udict"
            o.open = True
            o.other = mk(name + "_has_other", z3.BoolSort())
            alien = mk(name + "_other_alien", z3.BoolSort())
            ks = mk(name + "_other_key", z3.StringSort())
            o.other_key = mk_union([(alien, sub(ex, state, "int|bool|none|real|bytes", name + "_other_akey")),
                                    (z3.Not(z3.Or(alien, *[ks == z3.StringVal(c) for c in o.d])), VStr(ks)),
                                    (z3.And(z3.Not(alien), z3.Or(*[ks == z3.StringVal(c) for c in o.d])) if o.d
                                     else z3.BoolVal(False), VStr(z3.Concat(ks, z3.StringVal("\x00other"))))])
            o.alien = alien
            o.frozen = True
        if path:
            state.paths[r.oid] = path
        return r

    def fresh(self, ex, state, typ, name, path=None):
        typ = typ.strip()
        if self._idx is not None:
            return self.fresh_indexed(ex, state, typ, name, path)
        if typ.startswith("@"):
            typ = self.type_aliases[typ[1:]]        # named type (keeps nested unions readable / parseable)
        if typ.startswith("ulist:"):
            return self._fresh_ulist(ex, state, typ[6:], name, path)
        if typ.startswith("udict:"):
            return self._fresh_odict(ex, state, typ, name, path)
        if "|" in typ and not typ.startswith(("odict:", "cdict:")):
            alts = [t.strip() for t in _split_top(typ, "|")]
            vals = [self.fresh(ex, state, t, name, path) for t in alts]
            sel = z3.Int(fresh_name(name + "?alt"))
            state.assume(z3.And(sel >= 0, sel < len(alts)))
            return mk_union([(sel == i, v) for i, v in enumerate(vals)])
        if typ.startswith("opt:"):
            isn = z3.Bool(fresh_name(name + "?none"))
            inner = self.fresh(ex, state, typ[4:], name, path)
            return mk_union([(isn, VNone), (z3.Not(isn), inner)])
        if typ == "int":
            return VInt(z3.Int(fresh_name(name)))
        if typ == "nat":
            t = z3.Int(fresh_name(name))
            state.assume(t >= 0)
            return VInt(t)
        if typ == "byte":
            t = z3.Int(fresh_name(name))
            state.assume(z3.And(t >= 0, t <= 255))
            return VInt(t)
        if typ.startswith("range:"):
            _, lo, hi = typ.split(":")
            t = z3.Int(fresh_name(name))
            state.assume(z3.And(t >= int(lo), t <= int(hi)))
            return VInt(t)
        if typ == "bool":
            return VBool(z3.Bool(fresh_name(name)))
        if typ == "real":
            return VReal(z3.Real(fresh_name(name)))
        if typ == "bytes":
            return VBytes(z3.Const(fresh_name(name), BytesSort))
        if typ.startswith("bytes:"):
            n = int(typ[6:])
            t = z3.Const(fresh_name(name), BytesSort)
            state.assume(z3.Length(t) == n)
            return VBytes(t)
        if typ == "abytes":
            n = z3.Int(fresh_name(name + "_n"))
            state.assume(n >= 0)
            return VABytes(z3.Array(fresh_name(name), z3.IntSort(), z3.IntSort()), n)
        if typ.startswith("abytes:"):
            return VABytes(z3.Array(fresh_name(name), z3.IntSort(), z3.IntSort()), int(typ[7:]))
        if typ == "str":
            return VStr(z3.String(fresh_name(name)))
        if typ == "none":
            return VNone
        if typ == "truth":
            return VOpaque(fresh_name("truthval_" + name))      # immutable, only its truth value matters (see truthy)
        if typ in ("any", "func", "opaque"):
            return VOpaque(fresh_name(name))
        if typ == "dyn":
            from . import pyval
            return VDyn(z3.Const(fresh_name(name), pyval.PyVal))
        if typ.startswith("const:"):
            return ex.const(ast.literal_eval(typ[6:]))
        if typ.startswith("obj:"):
            return self.fresh_obj(ex, state, typ[4:], name, path)
        if typ.startswith("sym:"):
            t = z3.Int(fresh_name(name))
            return VSym(typ[4:], t)
        if typ.startswith("clist:"):
            _, n, el = typ.split(":", 2)
            o = HObj("list")
            o.items = []
            r = state.alloc(o)
            if path:
                state.paths[r.oid] = path
            for k in range(int(n)):
                o.items.append(self.fresh(ex, state, el, "%s_%d" % (name, k), ("%s[%d]" % (path, k)) if path else None))
            return r
        if typ.startswith("list:"):
            el = typ[5:]
            o = HObj("list")
            o.elem = el
            o.seq = z3.Const(fresh_name(name), z3.SeqSort(elem_sort(el)))
            r = state.alloc(o)
            if path:
                state.paths[r.oid] = path
            return r
        if typ == "tuple:":
            return VTuple([])
        if typ.startswith("tuple:"):
            parts = _split_top(typ[6:], ",")
            return VTuple([self.fresh(ex, state, p, "%s_%d" % (name, i)) for i, p in enumerate(parts)])
        if typ.startswith("ptr:"):
            return VPtr(self.fresh(ex, state, typ[4:], name, path), 0)
        if typ.startswith("barray"):
            o = HObj("barray")
            o.arr = z3.Array(fresh_name(name), z3.IntSort(), z3.IntSort())
            if ":" in typ:
                o.n = z3.IntVal(int(typ.split(":")[1]))
            else:
                o.n = z3.Int(fresh_name(name + "_n"))
                state.assume(o.n >= 0)
            r = state.alloc(o)
            if path:
                state.paths[r.oid] = path
            return r
        if typ.startswith("cdict:"):
            # dict with a concrete key set:  cdict:key=type,key=type
            o = HObj("dict")
            o.d = {}
            r = state.alloc(o)
            for item in _split_top(typ[6:], ","):
                k, t = item.split("=", 1)
                o.d[k] = self.fresh(ex, state, t, name + "_" + k)
            return r
        if typ.startswith("odict:"):
            # dict over a known key universe, each key optionally present:  odict:key=type,key=type
            o = HObj("dict")
            o.d = {}
            o.opt = {}
            r = state.alloc(o)
            for item in _split_top(typ[6:], ","):
                k, t = item.split("=", 1)
                o.d[k] = self.fresh(ex, state, t, name + "_" + k)
                o.opt[k] = z3.Bool(fresh_name(name + "_has_" + k))
            if path:
                state.paths[r.oid] = path
            return r
        if typ.startswith("dict:"):
            from . import models
            return models.fresh_dict(ex, state, typ[5:], name, path)
        if typ.startswith("cb:"):
            return VFunc("virtual", name, spec=typ[3:], self_val=None)
        if typ == "logger":
            return VFunc("logger", name)
        if typ.startswith("class:"):
            mod, cn = typ[6:].split(":")
            return VClass(cn, loader.get_class(mod, cn))
        raise Unsupported("type %r" % typ)

    def fresh_obj(self, ex, state, shape_name, name, path=None):
        sh = self.shapes.get(shape_name)
        if sh is None:
            raise Unsupported("unknown shape " + shape_name)
        cls = None
        if sh.cls:
            mod, cn = sh.cls.split(":")
            ci = loader.get_class(mod, cn)
            if ci is None:
                raise Unsupported("shape %s: class %s not found" % (shape_name, sh.cls))
            cls = VClass(cn, ci)
        o = HObj("inst", cls, shape_name)
        ref = state.alloc(o)
        if path:
            state.paths[ref.oid] = path
        for f, t in sh.fields.items():
            o.fields[f] = self.fresh(ex, state, t, name + "." + f, (path + "." + f) if path else None)
        return ref

    # -------- symbolic-record heap (Boogie style)
    def sym_field_type(self, shape, attr):
        sh = self.shapes.get(shape)
        if sh is None or attr not in sh.fields:
            raise Unsupported("field %s not declared in shape %s" % (attr, shape))
        return sh.fields[attr]

    def heap_key(self, shape, attr):
        sh = self.shapes.get(shape)
        if sh is not None and sh.heap_base and attr.replace("?none", "") in self.shapes[sh.heap_base].fields:
            return (sh.heap_base, attr)
        return (shape, attr)

    def _sym_arr(self, state, shape, attr, typ):
        key = self.heap_key(shape, attr)
        shape = key[0]
        if key not in state.sheap:
            srt = _sym_sort(typ)
            state.sheap[key] = z3.Array("H0_%s_%s" % (shape, attr), z3.IntSort(), srt)
        return state.sheap[key]

    def sym_load(self, ex, state, ref, attr):
        typ = self.sym_field_type(ref.shape, attr)
        if typ.startswith("opt:"):
            inner = typ[4:]
            isn = z3.Select(self._sym_arr(state, ref.shape, attr + "?none", "bool"), ref.t)
            val = _wrap_sym(inner, z3.Select(self._sym_arr(state, ref.shape, attr, inner), ref.t))
            return mk_union([(isn, VNone), (z3.Not(isn), val)])
        if typ.startswith("cb:"):
            return VFunc("virtual", attr, spec=typ[3:], self_val=ref)
        if typ in ("any", "func"):
            return VOpaque("%s.%s" % (ref.shape, attr))
        return _wrap_sym(typ, z3.Select(self._sym_arr(state, ref.shape, attr, typ), ref.t))

    def sym_store(self, ex, state, ref, attr, v, guard=None):
        typ = self.sym_field_type(ref.shape, attr)
        if typ in ("any", "func") or typ.startswith("cb:"):
            return      # opaque field: reads yield an unknown value, writes are not tracked
        opt = typ.startswith("opt:")
        inner = typ[4:] if opt else typ

        def upd(key_attr, t_new, typ_):
            arr = self._sym_arr(state, ref.shape, key_attr, typ_)
            new = z3.Store(arr, ref.t, t_new)
            state.sheap[self.heap_key(ref.shape, key_attr)] = new if guard is None else z3.If(guard, new, arr)
        if opt:
            isn = disj([g for g, a in alts_of(v) if isinstance(a, VNoneT)])
            upd(attr + "?none", simp(isn), "bool")
        vals = [(g, a) for g, a in alts_of(v) if not isinstance(a, VNoneT)]
        if vals:
            t = _unwrap_sym(inner, vals[-1][1])
            for g, a in reversed(vals[:-1]):
                t = z3.If(g, _unwrap_sym(inner, a), t)
            upd(attr, t, inner)


def _sym_sort(typ):
    if typ in ("int", "nat"):
        return z3.IntSort()
    if typ == "bool":
        return z3.BoolSort()
    if typ == "real":
        return z3.RealSort()
    if typ == "bytes":
        return BytesSort
    if typ == "str":
        return z3.StringSort()
    if typ.startswith("sym:"):
        return z3.IntSort()
    if typ.startswith("seq:"):
        return z3.SeqSort(_sym_sort(typ[4:]))
    if typ == "dyn":
        from . import pyval
        return pyval.PyVal
    raise Unsupported("symbolic record field type " + typ)


def _wrap_sym(typ, t):
    if typ in ("int", "nat"):
        return VInt(t)
    if typ == "bool":
        return VBool(t)
    if typ == "real":
        return VReal(t)
    if typ == "bytes":
        return VBytes(t)
    if typ == "str":
        return VStr(t)
    if typ.startswith("sym:"):
        return VSym(typ[4:], t)
    if typ == "dyn":
        return VDyn(t)
    raise Unsupported("symbolic record field type " + typ)


def _unwrap_sym(typ, v):
    if typ in ("int", "nat") and isinstance(v, (VInt,)):
        return v.t
    if typ == "bool" and isinstance(v, VBool):
        return v.t
    if typ == "real" and isinstance(v, VReal):
        return v.t
    if typ == "real" and isinstance(v, VInt):
        return z3.ToReal(v.t)
    if typ == "bytes" and isinstance(v, VBytes):
        return v.t
    if typ == "str" and isinstance(v, VStr):
        return v.t
    if typ.startswith("sym:") and isinstance(v, VSym):
        return v.t
    if typ == "dyn":
        from . import pyval
        return pyval.to_dyn(v)
    raise Unsupported("store %r into field of type %s" % (v, typ))


def _split_top(s, sep):
    out, depth, cur = [], 0, ""
    for ch in s:
        if ch in "([":
            depth += 1
        elif ch in ")]":
            depth -= 1
        if ch == sep and depth == 0:
            out.append(cur)
            cur = ""
        else:
            cur += ch
    out.append(cur)
    return out


# ------------------------------------------------------------------------------------------ spec forms

def sf_old(ex, state, e):
    if ex.old_state is None:
        raise Unsupported("old() outside a two-state clause")
    os_ = ex.old_state
    os_.frames.append(state.frame)
    saved = ex.old_state
    try:
        return ex.ev(os_, e.args[0])
    finally:
        os_.frames.pop()
        ex.old_state = saved


def sf_implies(ex, state, e):
    a = simp(ex.truthy(state, ex.ev(state, e.args[0])))
    if is_false(a):
        return VBool(True)
    n = len(state.pc)
    state.pc.append(a)
    ex.quant_facts.append(a)
    from .executor import _Abort, _pc_state
    try:
        b = ex.truthy(state, ex.ev(state, e.args[1]))
        new = state.pc[n + 1:]
    except _Abort:
        # the consequent is undefined in every alternative: the clause is well-defined only if the antecedent is false
        state.pc = state.pc[:n]
        pcs = _pc_state(state.pc + list(ex.quant_facts[:-1]))
        if not ex.prove_quick(pcs, z3.Not(a)):
            sm, ex.spec_mode = ex.spec_mode, 0
            ex.oblige("spec-defined", pcs, simp(z3.Not(a)),
                      info={"clause": getattr(ex, "cur_clause", None), "undefined_consequent_of": ast.unparse(e.args[0])})
            ex.spec_mode = sm
        return VBool(True)
    except BaseException:
        state.pc = state.pc[:n]
        raise
    finally:
        ex.quant_facts.pop()
    # facts produced while evaluating the consequent (definitions of merged values, type facts) stay, guarded
    state.pc = state.pc[:n] + [z3.Implies(a, x) for x in new]
    return VBool(z3.Implies(a, b))


def sf_ite(ex, state, e):
    c = ex.truthy(state, ex.ev(state, e.args[0]))
    a = ex.ev(state, e.args[1])
    b = ex.ev(state, e.args[2])
    return merge2(c, a, b)


def _quant(ex, state, e, q):
    # forall(i, lo, hi, body)   (lo <= i < hi)
    var = e.args[0]
    if not isinstance(var, ast.Name):
        raise Unsupported("forall: first argument must be a name")
    lo = ex.num(ex.ev(state, e.args[1]))
    hi = ex.num(ex.ev(state, e.args[2]))
    lo_c, hi_c = simp(lo), simp(hi)
    if not (isinstance(e.func, ast.Name) and e.func.id.endswith("q")) and z3.is_int_value(lo_c) and z3.is_int_value(hi_c) and hi_c.as_long() - lo_c.as_long() <= 16:
        # small concrete range: expand (quantifier-free)
        saved = state.frame.locals.get(var.id)
        parts = []
        try:
            for c in range(lo_c.as_long(), hi_c.as_long()):
                state.frame.locals[var.id] = VInt(c)
                parts.append(ex.truthy(state, ex.ev(state, e.args[3])))
        finally:
            if saved is None:
                state.frame.locals.pop(var.id, None)
            else:
                state.frame.locals[var.id] = saved
        return VBool(simp(conj(parts)) if q == "forall" else simp(disj(parts)))
    iv = z3.Int(fresh_name(var.id))
    saved = state.frame.locals.get(var.id)
    state.frame.locals[var.id] = VInt(iv)
    n = len(state.pc)
    state.pc.append(z3.And(lo <= iv, iv < hi))
    ex.quant_facts.append(z3.And(lo <= iv, iv < hi))
    try:
        body = ex.truthy(state, ex.ev(state, e.args[3]))
        side = state.pc[n + 1:]
    finally:
        ex.quant_facts.pop()
        state.pc = state.pc[:n]
        if saved is None:
            state.frame.locals.pop(var.id, None)
        else:
            state.frame.locals[var.id] = saved
    rng = z3.And(lo <= iv, iv < hi)
    if side:
        # facts collected while evaluating the body (type invariants of the elements read: octets are 0..255)
        # are true for every index: they become a separate quantified *fact*, not a weakening of the clause
        fact = z3.ForAll([iv], z3.Implies(rng, z3.And(*side)))
        state.pc.append(fact)
    pats = _index_patterns(body, iv)
    if q == "forall":
        good = []
        for p_ in pats:
            try:
                z3.ForAll([iv], body, patterns=[p_])
                good.append(p_)
            except z3.Z3Exception:
                pass
        if good:
            return VBool(z3.ForAll([iv], z3.Implies(rng, body), patterns=good))
        return VBool(z3.ForAll([iv], z3.Implies(rng, body)))
    return VBool(z3.Exists([iv], z3.And(rng, body)))


def _index_patterns(body, iv):
    """triggers: container reads indexed exactly by the bound variable (a[iv], s[iv])"""
    found, seen = [], set()
    todo = [body]
    while todo:
        t = todo.pop()
        if t.get_id() in seen:
            continue
        seen.add(t.get_id())
        if z3.is_quantifier(t):
            continue
        if z3.is_app(t):
            k = t.decl().kind()
            if k in (z3.Z3_OP_SELECT, z3.Z3_OP_SEQ_NTH) and t.num_args() == 2 and t.arg(1).eq(iv):
                if not _mentions(t.arg(0), iv) and _pattern_ok(t.arg(0)):
                    found.append(t)
            elif k == z3.Z3_OP_UNINTERPRETED and t.num_args() >= 1 and t.arg(t.num_args() - 1).eq(iv) and \
                    not any(_mentions(t.arg(j), iv) for j in range(t.num_args() - 1)) and \
                    all(_pattern_ok(t.arg(j)) for j in range(t.num_args() - 1)):
                found.append(t)         # f(.., i): ghost layouts (off(k)), elements of untrusted lists
            todo.extend(t.children())
    return found[:4]


def _pattern_ok(t):
    """no interpreted boolean / ite structure inside a trigger (z3 rejects those)"""
    todo, seen = [t], set()
    while todo:
        x = todo.pop()
        if x.get_id() in seen:
            continue
        seen.add(x.get_id())
        if z3.is_quantifier(x):
            return False
        if z3.is_app(x):
            if x.decl().kind() in (z3.Z3_OP_ITE, z3.Z3_OP_AND, z3.Z3_OP_OR, z3.Z3_OP_NOT, z3.Z3_OP_IMPLIES, z3.Z3_OP_EQ):
                return False
            todo.extend(x.children())
    return True


def _mentions(t, v):
    todo, seen = [t], set()
    while todo:
        x = todo.pop()
        if x.get_id() in seen:
            continue
        seen.add(x.get_id())
        if x.eq(v):
            return True
        if z3.is_app(x):
            todo.extend(x.children())
    return False


def sf_forall(ex, state, e):
    return _quant(ex, state, e, "forall")


def sf_exists(ex, state, e):
    return _quant(ex, state, e, "exists")
