"""Builtins used by the mechanically translated C code (pyvc.cfront)."""
import z3

from .values import *  # noqa
from .engine import *  # noqa
from .models import builtin
from .cfront import INT_TYPES
from .ops import ival


def _s(v):
    return v.t.as_string()


@builtin("c_chk")
def c_chk(ex, state, args, kwargs, sv):
    v, ct = args
    lo, hi = INT_TYPES[_s(ct)]
    if isinstance(v, VBool):
        v = VInt(ex.num(v))
    if not isinstance(v, VInt):
        if isinstance(v, VUnion):
            return ex.dist(state, [v], lambda a: c_chk(ex, state, [a, ct], {}, None))
        raise Unsupported("c_chk of %r" % (v,))
    t = simp(v.t)
    if z3.is_int_value(t):
        if not (lo <= t.as_long() <= hi):
            ex.oblige("c-overflow", state, z3.BoolVal(False), label=_s(ct))
        return v
    ex.oblige("c-overflow", state, z3.And(t >= lo, t <= hi), label=_s(ct))
    state.assume(z3.And(t >= lo, t <= hi))
    return v


@builtin("c_cast")
def c_cast(ex, state, args, kwargs, sv):
    v, ct = args
    lo, hi = INT_TYPES[_s(ct)]
    t = ex.num(v)
    if lo == 0:
        return VInt(t % (hi + 1))
    raise Unsupported("cast to signed type")


@builtin("c_div")
def c_div(ex, state, args, kwargs, sv):
    a, b = ex.num(args[0]), ex.num(args[1])
    ex.oblige("c-div", state, z3.And(a >= 0, b > 0))      # truncation == floor only for non-negative operands
    return VInt(a / b)


@builtin("c_mod")
def c_mod(ex, state, args, kwargs, sv):
    a, b = ex.num(args[0]), ex.num(args[1])
    ex.oblige("c-div", state, z3.And(a >= 0, b > 0))
    return VInt(a % b)


@builtin("c_uninit")
def c_uninit(ex, state, args, kwargs, sv):
    return VOpaque(fresh_name("uninit"))


@builtin("c_local_array")
def c_local_array(ex, state, args, kwargs, sv):
    n = ival(ex.num(args[0]))
    if n is None:
        raise Unsupported("VLA")
    o = HObj("barray")
    o.arr = z3.Array(fresh_name("local_arr"), z3.IntSort(), z3.IntSort())
    o.n = z3.IntVal(n)
    return state.alloc(o)


@builtin("c_ptr_of")
def c_ptr_of(ex, state, args, kwargs, sv):
    return VPtr(args[0], 0)


@builtin("c_ptr_add")
def c_ptr_add(ex, state, args, kwargs, sv):
    p, n, stride = args
    k = ival(ex.num(stride))
    if isinstance(p, VPtr):
        return VPtr(p.base, simp(p.off + ex.num(n) * k))
    return VPtr(p, simp(ex.num(n) * k))


@builtin("c_ptr_addr")
def c_ptr_addr(ex, state, args, kwargs, sv):
    p = args[0]
    base, off = (p.base, p.off) if isinstance(p, VPtr) else (p, z3.IntVal(0))
    if not isinstance(base, VRef):
        raise Unsupported("address of non-buffer")
    o = state.heap[base.oid]
    addr = o.fields.get("__addr__")
    if addr is None:
        t = z3.Int(fresh_name("base_addr"))
        state.assume(z3.And(t >= 16, t < 2 ** 47))
        addr = VInt(t)
        o.fields["__addr__"] = addr
    return VInt(simp(addr.t + off))


def _vec(ex, state, p):
    """a 16-octet vector value: array view (Lambda k. buffer[off + k], 16)"""
    base, off = (p.base, p.off) if isinstance(p, VPtr) else (p, z3.IntVal(0))
    o = ex.obj(state, base)
    ex.raise_if(state, z3.Or(off < 0, off + 16 > o.n), "IndexError")     # 16-byte access inside the buffer
    k = z3.Int(fresh_name("vec_k"))
    m = z3.Array(fresh_name("xmm"), z3.IntSort(), z3.IntSort())     # named vector value, defined lane-wise
    state.assume(z3.ForAll([k], z3.Implies(z3.And(k >= 0, k < 16), z3.Select(m, k) == z3.Select(o.arr, off + k)),
                           patterns=[z3.Select(m, k)]))
    return base, off, VABytes(m, 16)


@builtin("c_mm_loadu_si128")
def c_mm_loadu(ex, state, args, kwargs, sv):
    return _vec(ex, state, args[0])[2]


@builtin("c_mm_load_si128")
def c_mm_load(ex, state, args, kwargs, sv):
    base, off, v = _vec(ex, state, args[0])
    addr = c_ptr_addr(ex, state, [args[0]], {}, None)
    ex.oblige("c-alignment", state, addr.t % 16 == 0, label="load_si128")
    return v


@builtin("c_mm_store_si128")
def c_mm_store(ex, state, args, kwargs, sv):
    p, v = args
    base, off = (p.base, p.off) if isinstance(p, VPtr) else (p, z3.IntVal(0))
    o = state.heap[base.oid]
    ex.raise_if(state, z3.Or(off < 0, off + 16 > o.n), "IndexError")
    addr = c_ptr_addr(ex, state, [p], {}, None)
    ex.oblige("c-alignment", state, addr.t % 16 == 0, label="store_si128")
    # one 16-octet block update (a lambda array: a single range test, lanes selected by index)
    k = z3.Int(fresh_name("blk_k"))
    old = o.arr
    o.arr = z3.Lambda([k], z3.If(z3.And(k >= off, k < off + 16), z3.Select(v.arr, k - off), z3.Select(old, k)))
    return VNone


@builtin("c_mm_xor_si128")
def c_mm_xor(ex, state, args, kwargs, sv):
    from . import natives
    a, b = args
    k = z3.Int(fresh_name("xor_k"))         # _mm_xor_si128 = 16 octet-wise XORs
    m = z3.Array(fresh_name("xmm"), z3.IntSort(), z3.IntSort())
    state.assume(z3.ForAll([k], z3.Implies(z3.And(k >= 0, k < 16),
                                            z3.Select(m, k) == natives.bxor8(z3.Select(a.arr, k), z3.Select(b.arr, k))),
                           patterns=[z3.Select(m, k)]))
    return VABytes(m, 16)


@builtin("c_free", "c_builtin_prefetch")
def c_noop(ex, state, args, kwargs, sv):
    return VNone
