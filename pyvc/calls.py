"""Call dispatch.  A call is never inlined silently:
   contract  >  catalog external / builtin model  >  explicitly inlined helper  >  havoc (unknown callee)."""
import ast
import os
import sys
import z3

from . import loader
from .values import *  # noqa
from .engine import *  # noqa
from .executor import _Abort, StarArgs


def call_atom(ex, state, f, args, kwargs, node=None):
    from . import models
    if any(isinstance(v, OptKw) for v in kwargs.values()):
        ok = isinstance(f, VFunc) and f.fkind in ("repo", "closure", "bound")
        ok = ok or (isinstance(f, VClass) and (f.name in models.OPTKW_MODELS or f.name not in models.CLASS_MODELS))
        if not ok:
            raise Unsupported("call with optionally present keywords into %r" % (f,))
    if isinstance(f, VFunc):
        if f.fkind == "logger":
            return VNone
        if f.fkind == "builtin":
            name = f.name
            sv = getattr(f, "self_val", None)
            if name in ex.reg.externals:
                ex.notes["externals"].add(name)
                return _ext_call(ex, state, ex.reg.externals[name], args, kwargs, sv, name)
            if name in models.BUILTINS:
                return models.BUILTINS[name](ex, state, args, kwargs, sv)
            if name.split(".")[0] in ("log",) or name.startswith("self.log"):
                return VNone
            kind = name.split(".")[0]
            real = {"bytes": bytes, "str": str, "int": int, "tuple": tuple, "list": list, "dict": dict}.get(kind)
            if sv is not None and real is not None and "." in name and not hasattr(real, name.split(".", 1)[1]):
                ex.raise_if(state, z3.BoolVal(True), "AttributeError")      # the real type has no such method
            return unknown_call(ex, state, name, args, kwargs, sv)
        if f.fkind == "native":
            sym, _ = ex.reg.native_specs[f.name]
            if any(isinstance(a, VUnion) for a in args):
                return ex.dist(state, list(args), lambda *atoms: _native(ex, state, sym, atoms, kwargs))
            return _native(ex, state, sym, args, kwargs)
        if f.fkind == "virtual":
            name = f.spec
            if isinstance(name, str) and name.startswith("repo:"):
                fi = loader.get_function(name[5:])
                fv = VFunc("repo", fi.node.name, finfo=fi)
                if fi.cls is not None:
                    fv.self_val = f.self_val        # a method of the declared implementation class
                return call_repo(ex, state, fv, args, kwargs)
            if name in ex.reg.externals:
                ex.notes["externals"].add(name)
                return _ext_call(ex, state, ex.reg.externals[name], args, kwargs, f.self_val, name)
            return unknown_call(ex, state, "virtual:" + str(name), args, kwargs, f.self_val)
        if f.fkind == "logmethod":
            return VNone
        if f.fkind in ("repo", "closure"):
            return call_repo(ex, state, f, args, kwargs)
        if f.fkind == "lambda":
            return call_lambda(ex, state, f, args, kwargs)
        if f.fkind == "bound":
            return call_atom(ex, state, f.target, [f.self_val] + list(args), kwargs, node)
        if f.fkind == "opaque":
            return unknown_call(ex, state, "opaque:" + f.name, args, kwargs, None)
    if isinstance(f, VClass):
        return instantiate(ex, state, f, args, kwargs)
    if isinstance(f, VOpaque):
        return unknown_call(ex, state, "opaque-callable:" + f.tag.split("!")[0], args, kwargs, None)
    if isinstance(f, VNoneT):
        ex.raise_if(state, z3.BoolVal(True), "TypeError")
    if isinstance(f, VInt) and "call:int" in ex.reg.externals:
        # an opaque class / callable identity: the registered (assumed) primitive stands for the call
        ex.notes["externals"].add("call:int")
        return ex.reg.externals["call:int"](ex, state, [f] + list(args), kwargs, None)
    if isinstance(f, VRef):
        o = ex.obj(state, f)
        if o.kind == "inst" and o.cls is not None and o.cls.info is not None:
            c, m = o.cls.info.find_method("__call__")
            if m is not None:
                fv = VFunc("repo", "__call__", finfo=loader.FuncInfo(c.module, c.name + ".__call__", m, c), self_val=f)
                return call_repo(ex, state, fv, args, kwargs)
    raise Unsupported("call of %r" % (f,))


def _ext_call(ex, state, fn, args, kwargs, sv, name=None):
    """assumed-contract model of an external: unions of argument kinds are split; a kind the model does not accept
    is a TypeError of the real function (harmless when that alternative is infeasible)"""
    def one(*atoms):
        try:
            return fn(ex, state, list(atoms), kwargs, sv)
        except (AttributeError, z3.Z3Exception):
            ex.raise_if(state, z3.BoolVal(True), "TypeError")
    if name in ex.reg.pure_externals and any(isinstance(a, VUnion) for a in args):
        return ex.dist(state, list(args), one)
    return fn(ex, state, args, kwargs, sv)


def _native(ex, state, sym, args, kwargs):
    try:
        return sym(ex, state, *args, **kwargs)
    except (AttributeError, z3.Z3Exception):
        # a spec function applied to an alternative of the wrong kind (e.g. None under an `is not None` guard)
        raise _Abort()


def unknown_call(ex, state, name, args, kwargs, self_val):
    """Unknown callee: result opaque, every declared (shaped) object reachable is havocked, any
    Exception may escape.  Sound; in practice the caller's obligations then fail to prove => undecided."""
    ex.notes["havoc_calls"].add(name)
    if os.environ.get("PYVC_TRACE_HAVOC"):
        import traceback
        sys.stderr.write("havoc call %s args=%r\n%s\n" % (name, args, "".join(traceback.format_stack(limit=14))))
    havoc_all(ex, state)
    b = z3.Bool(fresh_name("unk_raises"))
    rs = state.copy()
    rs.pending = []
    rs.assume(b)
    exc = ex.mk_exc(rs, "Exception", exact=False)
    state.pending.append((rs, exc))
    state.assume(z3.Not(b))
    return VOpaque(fresh_name("ret_" + name.split(":")[-1].split(".")[-1]))


def havoc_all(ex, state):
    for oid, o in list(state.heap.items()):
        if o.frozen:
            continue
        if o.shape is not None:
            sh = ex.reg.shapes[o.shape]
            for fld, typ in sh.fields.items():
                if _is_container_type(typ):
                    continue
                o.fields[fld] = ex.reg.fresh(ex, state, typ, "hv_" + fld)
        if o.kind == "list" and oid in state.paths:
            o.items = None
            o.seq = z3.Const(fresh_name("hv_list"), z3.SeqSort(elem_sort(o.elem or "int")))
            o.elem = o.elem or "int"
    for key in list(state.sheap.keys()):
        state.sheap[key] = z3.Const(fresh_name("hv_H_%s_%s" % key), state.sheap[key].sort())


def _is_container_type(typ):
    return typ.startswith(("obj:", "list:", "dict:", "barray"))


# ------------------------------------------------------------------------------------------ binding

def bind_params(ex, state, fnode, args, kwargs, module, self_val=None):
    """Python argument binding (positional, keyword, defaults, *args, **kwargs)."""
    a = fnode.args
    posonly = [x.arg for x in a.posonlyargs]
    names = [x.arg for x in a.posonlyargs + a.args]
    env = {}
    actual = list(args)
    if self_val is not None:
        actual = [self_val] + actual
    star = None
    for i, x in enumerate(actual):
        if isinstance(x, StarArgs):
            # f(a, b, *seq) with a sequence of unknown length: supported when every fixed parameter is already
            # bound by the explicit positional arguments, so that the sequence lands in the callee's *args as it is
            if i != len(actual) - 1 or a.vararg is None or i < len(names):
                raise Unsupported("call with *args of unknown length into a modelled callee")
            star = ex.narrow(state, x.v)
            if isinstance(star, VNoneT):
                ex.raise_if(state, z3.BoolVal(True), "TypeError")
            actual = actual[:i]
    if len(actual) > len(names) and a.vararg is None:
        ex.raise_if(state, z3.BoolVal(True), "TypeError")
    for n, v in zip(names, actual):
        env[n] = v
    if a.vararg is not None:
        if star is not None:
            if len(actual) > len(names):
                raise Unsupported("explicit extra positional arguments followed by *args of unknown length")
            env[a.vararg.arg] = star        # read-only view of the caller's sequence (a tuple copy in CPython)
        else:
            env[a.vararg.arg] = VTuple(actual[len(names):])
    extra_kw = {}
    optkw = {}
    sym_kw = None
    kwonly = [x.arg for x in a.kwonlyargs]
    for k, v in kwargs.items():
        if k == "**":
            sym_kw = ex.narrow(state, v)
            continue
        if (k in names and k not in posonly) or k in kwonly:
            if isinstance(v, OptKw):
                if k in env:
                    ex.raise_if(state, v.g, "TypeError")
                    continue
                optkw[k] = v
                continue
            if k in env:
                ex.raise_if(state, z3.BoolVal(True), "TypeError")
            env[k] = v
        elif isinstance(v, OptKw):
            raise Unsupported("optionally present keyword %s lands in **kwargs of the callee" % k)
        elif a.kwarg is not None:
            extra_kw[k] = v
        else:
            ex.raise_if(state, z3.BoolVal(True), "TypeError")
    sym_copy = None
    if sym_kw is not None:
        # f(**table) with a table of unknown keys: a key that names a parameter already bound is the TypeError
        # "got multiple values for argument"; a key naming an unbound parameter would bind it (must be refutable)
        if isinstance(sym_kw, VNoneT):
            ex.raise_if(state, z3.BoolVal(True), "TypeError")
        so = ex.obj(state, sym_kw) if isinstance(sym_kw, VRef) else None
        if so is None or so.kind != "dict" or getattr(so, "sym", None) is None or so.sym["ktype"] != "str" \
                or a.kwarg is None:
            raise Unsupported("call with **kwargs of unknown keys into a modelled callee")
        for n in [x for x in names if x not in posonly] + kwonly:
            present = z3.Select(so.sym["has"], z3.StringVal(n))
            if n in env:
                ex.raise_if(state, present, "TypeError")
            elif not ex.prove_quick(state, z3.Not(present)):
                raise Unsupported("**kwargs of unknown keys may bind parameter %s" % n)
        sym_copy = dict(so.sym)
    # defaults
    defaults = a.defaults
    for i, n in enumerate(names):
        if n not in env:
            di = i - (len(names) - len(defaults))
            if di < 0:
                if n in optkw:
                    ex.raise_if(state, z3.Not(optkw[n].g), "TypeError")
                    env[n] = optkw[n].v
                    continue
                ex.raise_if(state, z3.BoolVal(True), "TypeError")
            env[n] = eval_in_module(ex, state, module, defaults[di])
            if n in optkw:
                env[n] = mk_union([(optkw[n].g, optkw[n].v), (z3.Not(optkw[n].g), env[n])])
    for n, d in zip(kwonly, a.kw_defaults):
        if n not in env:
            if d is None:
                if n in optkw:
                    ex.raise_if(state, z3.Not(optkw[n].g), "TypeError")
                    env[n] = optkw[n].v
                    continue
                ex.raise_if(state, z3.BoolVal(True), "TypeError")
            env[n] = eval_in_module(ex, state, module, d)
            if n in optkw:
                env[n] = mk_union([(optkw[n].g, optkw[n].v), (z3.Not(optkw[n].g), env[n])])
    if a.kwarg is not None:
        o = HObj("dict")
        if sym_copy is not None:
            o.sym = sym_copy        # a new dict object with the caller's entries
            r = state.alloc(o)
            from . import models
            for k, v in extra_kw.items():
                models.dict_setitem(ex, state, r, VStr(z3.StringVal(k)), v)
            env[a.kwarg.arg] = r
        else:
            o.d = dict(extra_kw)
            env[a.kwarg.arg] = state.alloc(o)
    return env


def eval_in_module(ex, state, module, expr):
    fr = Frame(None)
    fr.module = module
    state.frames.append(fr)
    try:
        return ex.ev(state, expr)
    finally:
        state.frames.pop()


# ------------------------------------------------------------------------------------------ repo calls

def resolve_dynamic(f):
    """virtual dispatch already happened in getattr_ (method looked up on the object's class)."""
    return f.finfo


PURE_TEXT_FUNCS = {"autobahn.util:hltype", "autobahn.util:hlval", "autobahn.util:hlid", "autobahn.util:hl",
                   "autobahn.util:hluserid", "autobahn.util:_maybe_tls_reason", "autobahn.util:hlflag",
                   "autobahn.util:hlfixme", "autobahn.util:hlcontract", "autobahn.util:public"}


def call_repo(ex, state, f, args, kwargs):
    fi = f.finfo
    addr = fi.addr
    if addr in PURE_TEXT_FUNCS:
        ex.notes["dropped"].add("log-formatting helper %s (opaque str)" % addr)
        return VStr(z3.String(fresh_name("txt")))
    self_val = getattr(f, "self_val", None)
    if isinstance(fi.node, ast.AsyncFunctionDef):
        raise Unsupported("call of async function " + addr)
    cur = ex.reg.current
    contract = ex.reg.contracts.get(addr)
    inline_here = addr in ex.reg.inline or (cur is not None and addr in cur.inline_calls) or ex.spec_mode > 0 \
        or fi.module.startswith("specs")
    first = self_val if self_val is not None else (args[0] if args else None)
    if fi.node.name == "__init__" and isinstance(first, VSym):
        inline_here = True          # base-class constructor of a record under construction
    if contract is not None and not (cur is not None and addr in cur.inline_calls):
        if ex.spec_mode and contract.pure:
            pass
        else:
            ex.notes["contracts_used"].add(addr)
            env = bind_params(ex, state, fi.node, args, kwargs, fi.module, self_val)
            return apply_contract(ex, state, contract, env)
    if f.fkind == "closure" and contract is None:
        inline_here = inline_here or (addr in ex.reg.inline)
        if not inline_here:
            # closures defined inside the unit under verification and called directly are part of its body
            inline_here = getattr(f, "env", None) is not None and cur is not None and addr.startswith(cur.addr)
    if inline_here:
        return inline_call(ex, state, f, args, kwargs)
    return unknown_call(ex, state, addr, args, kwargs, self_val)


def inline_call(ex, state, f, args, kwargs):
    fi = f.finfo
    if ex.call_depth > 12:
        raise Unsupported("inline depth exceeded at " + fi.addr)
    self_val = getattr(f, "self_val", None)
    env = bind_params(ex, state, fi.node, args, kwargs, fi.module, self_val)
    if not fi.module.startswith("specs"):
        ex.notes["inlined"].add(fi.addr)
    fr = Frame(fi, env, closure=getattr(f, "env", None))
    # the closure env frame object may have been copied with the state: re-link by identity map
    if fr.closure is not None:
        fr.closure = _relink(state, fr.closure)
    depth0 = len(state.frames)
    state.frames.append(fr)
    depth = len(state.frames)
    ex.call_depth += 1
    saved_loop = ex.loop_ordinal, ex.loop_specs
    if ex.reg.contracts.get(fi.addr) is not None:
        ex.loop_ordinal, ex.loop_specs = 0, ex.reg.contracts[fi.addr].loops
    else:
        ex.loop_ordinal, ex.loop_specs = 0, ex.reg.inline_loops.get(fi.addr, {})
    outer_pending = state.pending       # raises already queued by the caller's expression are not the callee's
    state.pending = []
    try:
        outs = ex.exec_block(state, fi.node.body)
    except BaseException:
        del state.frames[depth0:]           # never leave the callee's frame behind when unwinding
        state.pending = outer_pending
        raise
    finally:
        ex.call_depth -= 1
        ex.loop_ordinal, ex.loop_specs = saved_loop
    state.pending = outer_pending
    rets = []
    for o in outs:
        if o.kind in ("return", "normal"):
            o.state.frames.pop()
            o.state.frame.locals["__ret__"] = o.val if o.kind == "return" else VNone
            rets.append(o.state)
        elif o.kind == "raise":
            rs_ = o.state
            if rs_ is state:
                rs_ = state.copy()      # `state` itself is about to become the merged normal exit
                rs_.pending = []
            rs_.frames.pop()
            state.pending.append((rs_, o.val))
        else:
            raise Unsupported("break/continue escaping function")
    m = merge_states(rets) if rets else None
    if m is None:
        del state.frames[depth0:]
        state.pc.append(z3.BoolVal(False))
        raise _Abort()
    pend = state.pending
    state.become(m)
    state.pending = pend
    return state.frame.locals.pop("__ret__")


def _relink(state, env_frame):
    """find the live copy of a closure's defining frame in `state` (frames are copied on fork)."""
    for fr in state.frames:
        f = fr
        while f is not None:
            if f is env_frame or (f.finfo is env_frame.finfo and f.finfo is not None and
                                  set(f.locals.keys()) >= set(k for k in env_frame.locals.keys() if not k.startswith("__"))):
                return f
            f = f.closure
    return env_frame


def call_lambda(ex, state, f, args, kwargs):
    node = f.node
    fake = ast.FunctionDef(name="<lambda>", args=node.args, body=[ast.Return(value=node.body)], decorator_list=[])
    env = bind_params(ex, state, fake, args, kwargs, f.env.module if f.env else None)
    fr = Frame(None, env, closure=_relink(state, f.env) if f.env else None)
    fr.module = f.env.module if f.env else None
    state.frames.append(fr)
    try:
        return ex.ev(state, node.body)
    finally:
        if state.frames and state.frames[-1] is fr:
            state.frames.pop()


# ------------------------------------------------------------------------------------------ contracts

def clause_env(ex, state, contract, env):
    e = dict(env)
    for k, v in env.items():
        e.setdefault(k + "_0", v)       # entry value of a parameter (same name as inside loop invariants)
    if state.ghost is not None:
        e["ghost"] = state.ghost
    return e


def eval_clause(ex, state, contract, clause, env, old_state=None, as_value=False):
    """Evaluate a contract clause (a Python expression in the spec language) to a z3 Bool."""
    tree = _parse_clause(clause)
    fr = Frame(None, dict(env))
    fr.module = contract.spec_module
    state.frames.append(fr)
    saved_old = ex.old_state
    ex.old_state = old_state
    ex.spec_mode += 1
    saved_clause, ex.cur_clause = getattr(ex, "cur_clause", None), clause
    n = len(state.pc)
    try:
        v = ex.ev(state, tree)
        if as_value:
            return v
        t = ex.truthy(state, v)
        side = state.pc[n:]
        return simp(t), side
    except _Abort:
        # every alternative definitely fails: the clause is only well-defined if this state is infeasible
        if as_value:
            raise
        sm, ex.spec_mode = ex.spec_mode, 0
        ex.oblige("spec-defined", state, z3.BoolVal(False), info={"clause": clause})
        ex.spec_mode = sm
        return z3.BoolVal(True), []
    finally:
        ex.spec_mode -= 1
        ex.cur_clause = saved_clause
        ex.old_state = saved_old
        state.frames.pop()
        if not as_value:
            state.pc = state.pc[:n]


_clause_cache = {}


def _parse_clause(src):
    if src not in _clause_cache:
        s = src.strip()
        tree = ast.parse(s, mode="eval").body
        _clause_cache[src] = tree
    return _clause_cache[src]


def havoc_sym_field(ex, state, shape, field):
    """havoc a field of *every* record of a shape (modifies clause 'Shape.field' / 'Shape.*')"""
    sh = ex.reg.shapes[shape]
    names = list(sh.fields) if field == "*" else [field]
    for f in names:
        typ = sh.fields.get(f)
        if typ is None or typ in ("any", "func") or typ.startswith("cb:"):
            continue
        parts = (((f, typ[4:]), (f + "?none", "bool")) if typ.startswith("opt:") else ((f, typ),))
        for key_attr, t in parts:
            arr = ex.reg._sym_arr(state, shape, key_attr, t)
            state.sheap[ex.reg.heap_key(shape, key_attr)] = z3.Const(fresh_name("hv_H_%s_%s" % (shape, key_attr)), arr.sort())


def havoc_modifies(ex, state, contract, env):
    for path in contract.modifies:
        parts = path.split(".")
        if parts[0] in ex.reg.shapes and parts[0] not in env and len(parts) == 2:
            havoc_sym_field(ex, state, parts[0], parts[1])
            continue
        if parts[0] == "ghost":
            base = state.ghost
        else:
            base = env.get(parts[0])
        if base is None:
            raise Unsupported("modifies: unknown root %s in %s" % (parts[0], contract.addr))
        if len(parts) == 1:
            havoc_object(ex, state, base)     # the object's own content (list / dict / all fields)
            continue
        _havoc_path(ex, state, base, parts[1:], contract)


def _havoc_path(ex, state, base, parts, contract):
    for g, a in alts_of(base):
        if isinstance(a, VNoneT):
            continue
        if isinstance(a, VSym):
            if len(parts) == 1:
                typ = ex.reg.sym_field_type(a.shape, parts[0])
                for suffix, t in ((("", typ[4:]), ("?none", "bool")) if typ.startswith("opt:") else ((("", typ),))):
                    key = ex.reg.heap_key(a.shape, parts[0] + suffix)
                    arr = ex.reg._sym_arr(state, a.shape, parts[0] + suffix, t)
                    fresh = z3.Const(fresh_name("hv_" + parts[0]), arr.sort().range())
                    state.sheap[key] = z3.Store(arr, a.t, fresh)
                continue
            raise Unsupported("modifies path through symbolic record")
        if not isinstance(a, VRef):
            raise Unsupported("modifies path through %r" % (a,))
        o = state.heap[a.oid]
        f = parts[0]
        if f == "*":
            havoc_object(ex, state, a)
            continue
        if len(parts) == 1:
            typ = None
            if o.shape is not None:
                typ = ex.reg.shapes[o.shape].fields.get(f)
            cur = o.fields.get(f)
            if typ is None:
                if cur is None:
                    raise Unsupported("modifies %s: field not declared" % f)
                new = fresh_like(ex, state, cur, f)
            elif _is_container_type(typ) and cur is not None and not typ.startswith("obj:"):
                havoc_object(ex, state, cur)
                continue
            else:
                new = ex.reg.fresh(ex, state, typ, "hv_" + f, path=(state.paths.get(a.oid, "?") + "." + f))
            o.fields[f] = new if is_true(g) else merge2(g, new, cur)
        else:
            nxt = o.fields.get(f)
            if nxt is None:
                raise Unsupported("modifies path %s" % ".".join(parts))
            _havoc_path(ex, state, nxt, parts[1:], contract)


def havoc_object(ex, state, ref):
    for g, a in alts_of(ref):
        if isinstance(a, VPtr):
            a = a.base
        if not isinstance(a, VRef):
            continue
        o = state.heap[a.oid]
        if o.kind == "list" and o.items is not None and 0 < len(o.items) <= 4:
            # small fixed-size cell (e.g. `transport_candidate = [0]`): the length is kept, the items are havocked
            o.items = [fresh_like(ex, state, it, "hv_item") for it in o.items]
        elif o.kind == "list":
            el = o.elem or (elem_of_value(o.items[0])[0] if o.items else "int")
            o.items = None
            o.elem = el
            o.seq = z3.Const(fresh_name("hv_list"), z3.SeqSort(elem_sort(el)))
        elif o.kind == "dict":
            from . import models
            models.havoc_dict(ex, state, a)
        elif o.kind == "barray":
            o.arr = z3.Array(fresh_name("hv_arr"), z3.IntSort(), z3.IntSort())
            # the length of a C buffer / array('B') under element stores does not change
        elif o.shape is not None:
            sh = ex.reg.shapes[o.shape]
            for fld, typ in sh.fields.items():
                if typ.startswith("obj:"):
                    continue
                if _is_container_type(typ):
                    havoc_object(ex, state, o.fields[fld])
                else:
                    o.fields[fld] = ex.reg.fresh(ex, state, typ, "hv_" + fld)


def fresh_like(ex, state, v, name):
    if isinstance(v, VInt):
        return VInt(z3.Int(fresh_name(name)))
    if isinstance(v, VBool):
        return VBool(z3.Bool(fresh_name(name)))
    if isinstance(v, VBytes):
        return VBytes(z3.Const(fresh_name(name), BytesSort))
    if isinstance(v, VStr):
        return VStr(z3.String(fresh_name(name)))
    if isinstance(v, VReal):
        return VReal(z3.Real(fresh_name(name)))
    if isinstance(v, VNoneT):
        return VOpaque(fresh_name(name))
    if isinstance(v, VPtr):
        return VPtr(v.base, z3.Int(fresh_name(name + "_off")))
    if isinstance(v, VABytes):
        return VABytes(z3.Array(fresh_name(name), z3.IntSort(), z3.IntSort()), v.n)
    if isinstance(v, VSym):
        return VSym(v.shape, z3.Int(fresh_name(name)))
    if isinstance(v, VTuple):
        return VTuple([fresh_like(ex, state, x, "%s_%d" % (name, k)) for k, x in enumerate(v.items)])
    if isinstance(v, VRef):
        return v
    if isinstance(v, VUnion):
        kinds = {a.kind for _, a in v.alts}
        if kinds <= {"none", "int"}:
            return ex.reg.fresh(ex, state, "opt:int", name)
        if kinds <= {"none", "bytes"}:
            return ex.reg.fresh(ex, state, "opt:bytes", name)
        if kinds <= {"none", "bool"}:
            return ex.reg.fresh(ex, state, "opt:bool", name)
    return VOpaque(fresh_name(name))


def apply_contract(ex, state, contract, env):
    """Use a callee's contract at a call site: assert requires, havoc modifies, assume ensures."""
    short = contract.addr.split(":")[-1]
    for n, typ in contract.params.items():
        if n.startswith("forall_") and n not in env:
            # a universally quantified ghost parameter: the caller gets one (arbitrary) instance
            env = dict(env)
            env[n] = ex.reg.fresh(ex, state, typ, n)
    cenv = clause_env(ex, state, contract, env)
    for i, cl in enumerate(contract.requires):
        t, side = eval_clause(ex, state, contract, cl, cenv)
        if not ex.spec_mode:
            ex.oblige("requires-at-call", state, t, label=short, info={"clause": cl})
        state.assume(t)
    old = state.copy()
    old.pending = []
    havoc_modifies(ex, state, contract, env)
    result = ex.reg.fresh(ex, state, contract.returns, "ret_" + short.split(".")[-1])
    # exceptional exits
    for ename, cond in contract.raises.items():
        if ex.spec_mode:
            break
        c, _ = eval_clause(ex, old.copy(), contract, cond, cenv)
        if is_false(c):
            continue
        rs = state.copy()
        rs.pending = []
        b = z3.Bool(fresh_name("raises_" + ename))
        rs.assume(z3.And(c, b))
        for cl in contract.raises_ensures.get(ename, []):
            t, side = eval_clause(ex, rs, contract, cl, cenv, old_state=old)
            for s_ in side:
                rs.assume(s_)
            rs.assume(t)
        exact = not ename.endswith("+")
        exc = ex.mk_exc(rs, ename.rstrip("+"), exact=exact)
        state.pending.append((rs, exc))
    cenv2 = dict(cenv)
    cenv2["result"] = result
    for cl in contract.ensures:
        t, side = eval_clause(ex, state, contract, cl, cenv2, old_state=old)
        for s_ in side:
            state.assume(s_)
        state.assume(t)
    return result


# ------------------------------------------------------------------------------------------ instantiate

def instantiate(ex, state, cls, args, kwargs):
    from . import models
    name = cls.name
    if name in models.CLASS_MODELS:
        return models.CLASS_MODELS[name](ex, state, args, kwargs)
    if cls.info is None and name in models.BUILTINS:
        return models.BUILTINS[name](ex, state, args, kwargs, None)     # int(x), str(x), bytes(x), type(x) ...
    if cls.info is None:
        if name in ("Exception",) or name in models.exc_names():
            return ex.mk_exc(state, name, args)
        if name in ex.reg.externals:
            return ex.reg.externals[name](ex, state, args, kwargs, None)
        return unknown_call(ex, state, "class:" + name, args, kwargs, None)
    ci = cls.info
    rshape = ex.reg.record_classes.get(ci.qual)
    if rshape is not None:
        # a record class: the new object is a fresh address of the symbolic record heap (not yet allocated)
        a = z3.Int(fresh_name("new_" + name))
        alloc = state.sheap.get(("$alloc", ""))
        if alloc is None:
            alloc = z3.Array("H0_alloc", z3.IntSort(), z3.BoolSort())
        state.assume(z3.Not(z3.Select(alloc, a)))
        state.sheap[("$alloc", "")] = z3.Store(alloc, a, z3.BoolVal(True))
        ref = VSym(rshape, a)
        c0, m0 = ci.find_method("__init__")
        if m0 is not None:
            fv = VFunc("repo", "__init__", finfo=loader.FuncInfo(c0.module, c0.name + ".__init__", m0, c0), self_val=ref)
            inline_call(ex, state, fv, args, kwargs)
        return ref
    is_exc = bool(ex.class_bases(cls) & {"Exception", "BaseException"})
    c0, m0 = ci.find_method("__init__")
    ictr = ex.reg.contracts.get("%s:%s.__init__" % (c0.module, c0.name)) if m0 is not None else None
    cur = ex.reg.current
    if ictr is not None and not (cur is not None and ictr.addr in cur.inline_calls) \
            and ictr.params.get("self", "").startswith("obj:"):
        # constructor under contract: the new object gets the declared shape, its fields are set by the contract
        ref = ex.reg.fresh_obj(ex, state, ictr.params["self"][4:], "new_" + name)
        state.heap[ref.oid].cls = cls
        fv = VFunc("repo", "__init__", finfo=loader.FuncInfo(c0.module, c0.name + ".__init__", m0, c0), self_val=ref)
        call_repo(ex, state, fv, args, kwargs)
        return ref
    o = HObj("exc" if is_exc else "inst", cls)
    ref = state.alloc(o)
    if is_exc:
        o.fields["args"] = VTuple(list(args))
        o.fields["__exact__"] = True
    c, m = ci.find_method("__init__")
    if m is None:
        return ref
    fv = VFunc("repo", "__init__", finfo=loader.FuncInfo(c.module, c.name + ".__init__", m, c), self_val=ref)
    addr = fv.finfo.addr
    if ex.reg.contracts.get(addr) is not None or addr in ex.reg.inline or ex.spec_mode:
        call_repo(ex, state, fv, args, kwargs)
        return ref
    if is_exc:
        # exception constructors: store args only (the classes here add plain attributes)
        ex.notes["assumed"].add("exception constructor %s not executed (args stored)" % addr)
        return ref
    # constructors are inlined by default when small (record-like classes)
    if sum(1 for _ in ast.walk(m)) < ex.reg.ctor_inline_limit or (cur is not None and addr in cur.inline_calls):
        inline_call(ex, state, fv, args, kwargs)
        return ref
    return unknown_call(ex, state, addr, args, kwargs, ref)
