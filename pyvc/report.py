"""Aggregation: verdicts, known findings, replay files, evidence."""
import fnmatch
import json
import os
import subprocess
import sys
import time

VERIF = os.path.dirname(os.path.dirname(os.path.abspath(__file__)))
QUICK_TIMEOUT_MS = int(os.environ.get('PYVC_TIMEOUT_MS', 120000))     # (override: experiments only)
THOROUGH_TIMEOUT_MS = 300000


def load_known():
    p = os.path.join(VERIF, "known_findings.json")
    if not os.path.exists(p):
        return []
    with open(p) as f:
        return json.load(f)["findings"]


def load_lock():
    p = os.path.join(VERIF, "obligations.lock.json")
    if not os.path.exists(p):
        return None
    with open(p) as f:
        return json.load(f)


def only_lemmas(o):
    return o.get("kind", "").startswith("lemma")


def stable_name(n):
    """obligation name without per-outcome ordinals (robust to path-count changes)"""
    import re
    return re.sub(r"#\d+", "", n)


def check_property(pid, tier="quick", only=None, jobs=None, verbose=False, overrides=None, write=True):
    from . import run
    t0 = time.time()
    seed = int(os.environ.get("VERIF_SEED", "0") or 0)
    timeout = QUICK_TIMEOUT_MS if tier == "quick" else THOROUGH_TIMEOUT_MS
    try:
        results, reg, mod = run.run_units(pid, tier, timeout, overrides=overrides, only=only, jobs=jobs)
    except Exception:
        import traceback
        print("ENGINE CRASH\n" + traceback.format_exc())
        return 3
    extra = []
    if hasattr(mod, "extra_checks") and not only:
        try:
            extra = mod.extra_checks(tier, seed) or []
        except Exception:
            import traceback
            print("ENGINE CRASH in extra_checks\n" + traceback.format_exc())
            return 3
    known = [k for k in load_known() if k["property"] == pid]
    lock = load_lock()
    lock_names = set((lock or {}).get(pid, []))

    obligations = []
    undecided, crashed, vacuous = [], [], []
    for r in results:
        if r["status"] == "unsupported":
            # the unit's current source is outside the modelled subset: nothing is decided deductively.  The replay
            # harness of the property (real code only) may still find a real failing input for this unit
            rep = None
            if hasattr(mod, "replay"):
                try:
                    rep = mod.replay({"unit": r["unit"], "name": r["unit"] + "/unit-not-verifiable", "inputs": {}})
                except Exception as e:
                    rep = {"reproduced": False, "detail": "replay harness error: %r" % e}
            if rep and rep.get("reproduced"):
                obligations.append({"name": r["unit"] + "/unit-not-verifiable", "unit": r["unit"], "kind": "replay",
                                    "status": "refuted", "backend": "replay(real code)", "time": 0.0, "replayed": rep,
                                    "info": {"detail": "unit outside the modelled subset (%s); the replay harness found a "
                                                       "real failing input" % r["message"]}})
            else:
                undecided.append("%s: unsupported: %s" % (r["unit"], r["message"]))
        elif r["status"] == "crash":
            crashed.append("%s: %s" % (r["unit"], r["message"]))
        exits = [v for n, v in r["covers"] if n == "normal-exit-reachable"]
        if exits and all(v == "unsat" for v in exits) and not r.get("raises_only"):
            vacuous.append("%s: no normal exit is reachable" % r["unit"])
        for name, verdict in r["covers"]:
            if verdict == "unsat" and name == "requires-satisfiable":
                vacuous.append("%s: %s is unsatisfiable" % (r["unit"], name))
        if r["status"] == "ok" and not r["obligations"]:
            vacuous.append("%s: zero obligations" % r["unit"])
        hv = (r.get("notes") or {}).get("havoc_calls") or []
        for ob in r["obligations"]:
            ob["unit"] = r["unit"]
            if hv and ob["status"] == "refuted":
                # an unknown callee was havocked in this unit: a counter-model may live in the havoc ("needs
                # contract"), so the obligation is undecided, not violated
                ob["status"] = "unknown"
                ob["reason"] = "unit calls functions without contract (havocked): " + ", ".join(hv)
            obligations.append(ob)
    for e in extra:
        # extra obligations: dicts with name, status, backend, time, kind, and optionally 'bounded'
        obligations.append(e)

    proved = [o for o in obligations if o["status"] == "proved" and not o.get("bounded")]
    bounded = [o for o in obligations if o.get("bounded")]
    refuted = [o for o in obligations if o["status"] == "refuted"]
    unknown = [o for o in obligations if o["status"] == "unknown"]
    # an undecided obligation is never a violation by itself; but the replay harness may find a *real* failing input
    # (starting from a candidate model of the quantifier-free part, then the harness' own neighbourhood search)
    still_unknown = []
    for o in unknown:
        rep = None
        if hasattr(mod, "replay") and not only_lemmas(o):
            try:
                rep = mod.replay(dict(o, inputs=o.get("candidate_inputs") or {}))
            except Exception as e:
                rep = {"reproduced": False, "detail": "replay harness error: %r" % e}
        if rep and rep.get("reproduced"):
            o["status"] = "refuted"
            o["replayed"] = rep
            o["backend"] = "replay(real code)"
        else:
            still_unknown.append(o)
            undecided.append("%s: solver unknown (%s)" % (o["name"], o.get("reason", "")))
    refuted = [o for o in obligations if o["status"] == "refuted"]
    unknown = still_unknown

    violations, known_lines = [], []
    os.makedirs(os.path.join(VERIF, "replays"), exist_ok=True)
    for o in refuted:
        sn = stable_name(o["name"])
        kf = None
        for k in known:
            if k.get("status") == "open" and any(fnmatch.fnmatch(sn, pat) for pat in k["obligations"]):
                kf = k
                break
        if kf is not None:
            o["known"] = kf["id"]
            continue
        if o.get("bounded"):
            rp = write_replay(pid, o, o.get("replay", {"reproduced": True, "detail": o.get("detail", "")}))
            violations.append("VIOLATION property=%s replay=%s" % (pid, rp))
            continue
        rep = o.get("replayed")
        if rep is None and hasattr(mod, "replay"):
            try:
                rep = mod.replay(o)
            except Exception as e:
                rep = {"reproduced": False, "detail": "replay harness error: %r" % e}
        rp = write_replay(pid, o, rep)
        if rep and rep.get("reproduced"):
            violations.append("VIOLATION property=%s replay=%s" % (pid, rp))
        elif lock is None or sn in lock_names or not lock_names:
            violations.append("VIOLATION property=%s replay=%s no-failing-input-found" % (pid, rp))
        else:
            undecided.append("%s: refuted but not reproduced and not in the lock file (new obligation)" % o["name"])
    # known findings: witness must still reproduce
    kf_used = {}
    for k in known:
        if k.get("status") != "open":
            continue
        hit = [o for o in refuted if o.get("known") == k["id"]]
        rep = None
        if hasattr(mod, "replay_known"):
            try:
                rep = mod.replay_known(k)
            except Exception as e:
                rep = {"reproduced": False, "detail": "witness harness error: %r" % e}
        if rep is not None and rep.get("reproduced"):
            known_lines.append("KNOWN-FINDING: property=%s %s" % (pid, k["what"]))
            kf_used[k["id"]] = {"what": k["what"], "obligations_refuted": [o["name"] for o in hit], "witness": "reproduced"}
        elif hit:
            # the obligation still fails but the recorded witness does not reproduce: a different violation
            for o in hit:
                rp = write_replay(pid, o, rep)
                violations.append("VIOLATION property=%s replay=%s no-failing-input-found" % (pid, rp))
        else:
            kf_used[k["id"]] = {"what": k["what"], "witness": "no longer reproduces (finding appears repaired)"}
    if lock is not None and not only and tier == "quick" and not overrides:
        have = {stable_name(o["name"]) for o in obligations}
        missing = sorted(lock_names - have)
        if missing and not undecided and not crashed:
            undecided.append("obligations in the lock file were not generated: %s" % ", ".join(missing[:5]))

    wall = time.time() - t0
    n_ob = len([o for o in obligations if not o.get("bounded")])
    by_backend = {}
    for o in proved:
        by_backend[o.get("backend", "z3")] = by_backend.get(o.get("backend", "z3"), 0) + 1
    solver_time = round(sum(o.get("time", 0) for o in obligations), 3)
    units = [r["unit"] for r in results]
    print("%s tier=%s units=%d obligations=%d discharged=%d (%s) refuted-known=%d refuted=%d undecided=%d bounded=%d "
          "solver=%.1fs wall=%.1fs" % (pid, tier, len(units), n_ob, len(proved),
                                      ", ".join("%s %d" % kv for kv in sorted(by_backend.items())) or "-",
                                      len([o for o in refuted if o.get("known")]),
                                      len([o for o in refuted if not o.get("known")]), len(undecided), len(bounded),
                                      solver_time, wall))
    if verbose:
        for o in obligations:
            print("  %-9s %-6s %7.3fs %s" % (o["status"], o.get("backend", ""), o.get("time", 0), o["name"]))
    for line in known_lines:
        print(line)
    for line in violations:
        print(line)
    for u in undecided:
        print("UNDECIDED: " + u.splitlines()[0][:300])
    for c in crashed:
        print("CRASH: " + c[-1500:])
    for v in vacuous:
        print("VACUOUS: " + v)

    if crashed or vacuous:
        code = 3
    elif violations:
        code = 1
    elif undecided:
        code = 2
    else:
        code = 0
    if write and not only and not os.environ.get("PYVC_NO_EVIDENCE"):
        write_evidence(pid, tier, seed, mod, results, obligations, proved, refuted, bounded, undecided, kf_used,
                       by_backend, solver_time, wall, len(violations), code)
    return code


def write_replay(pid, o, rep):
    name = stable_name(o["name"]).replace("/", "_").replace(":", "_").replace(" ", "")
    at = str((o.get("info") or {}).get("raised_at") or "")
    if at:
        name += "_at_" + at.split(":")[-1]      # one file per raise site
    path = os.path.join(VERIF, "replays", "%s-%s.json" % (pid, name[-150:]))
    doc = {"property": pid, "obligation": o["name"], "kind": o.get("kind"), "unit": o.get("unit"),
           "clause": (o.get("info") or {}).get("clause"), "info": o.get("info"),
           "solver": {"backend": o.get("backend"), "verdict": o["status"], "time_s": o.get("time")},
           "counterexample_inputs": o.get("inputs"), "replay": rep,
           "rerun": "cd /verif && ./check %s --replay %s" % (pid, path)}
    with open(path, "w") as f:
        json.dump(doc, f, indent=1, default=str)
    return path


def replay_file(pid, path):
    from . import run
    sys.path.insert(0, VERIF)
    with open(path) as f:
        doc = json.load(f)
    mod = run.load_property_module(pid)
    o = {"name": doc["obligation"], "inputs": doc.get("counterexample_inputs"), "info": doc.get("info"),
         "kind": doc.get("kind"), "unit": doc.get("unit")}
    rep = mod.replay(o) if hasattr(mod, "replay") else None
    print(json.dumps(rep, indent=1, default=str))
    if rep and rep.get("reproduced"):
        print("VIOLATION property=%s replay=%s" % (pid, path))
        return 1
    return 0


def write_evidence(pid, tier, seed, mod, results, obligations, proved, refuted, bounded, undecided, kf_used,
                   by_backend, solver_time, wall, n_viol, code):
    n_ob = len([o for o in obligations if not o.get("bounded")])
    functions = sorted({r["addr"] for r in results if r.get("addr") and r["addr"] != "?"})
    externals, inlined, havoc, dropped, assumed = set(), set(), set(), set(), set()
    for r in results:
        n = r.get("notes") or {}
        externals.update(n.get("externals", []))
        inlined.update(n.get("inlined", []))
        havoc.update(n.get("havoc_calls", []))
        dropped.update(n.get("dropped", []))
        assumed.update(n.get("assumed", []))
    assumptions = list(getattr(mod, "ASSUMPTIONS", []))
    assumptions += ["external (assumed contract): " + e for e in sorted(externals)]
    assumptions += ["assumed: " + a for a in sorted(assumed)]
    assumptions += ["dropped by extraction: " + d for d in sorted(dropped)]
    assumptions += ["termination is not verified (partial correctness)",
                    "Python ints are mathematical integers (exact); floats are treated as reals"]
    if havoc:
        assumptions.append("unknown callees havocked (sound, imprecise): " + ", ".join(sorted(havoc)))
    all_discharged = (len(proved) == n_ob) and not undecided
    level = "proof" if all_discharged and n_ob > 0 else "other"
    if level == "proof" and getattr(mod, "LEVEL", None):
        level = mod.LEVEL       # a check that decides only part of its property says so itself
    if getattr(mod, "NOT_COVERED", None):
        assumptions += ["not covered by this check: " + x for x in mod.NOT_COVERED]
    samples = []
    for o in obligations[:6]:
        samples.append({"obligation": o["name"], "status": o["status"], "backend": o.get("backend"),
                        "clause": (o.get("info") or {}).get("clause")})
    cov = {
        "obligations": n_ob, "discharged": len(proved),
        "checker_cmd": "./check %s --tier %s" % (pid, tier),
        "trusted_base": ["z3 5.1.0 (python API)", "cvc5 1.0.3 (fallback on unknown)", "pyvc VC generator (/verif/pyvc)",
                         "CPython ast"] + sorted("external:" + e for e in externals),
        "functions_under_contract": functions,
        "inlined_helpers": sorted(inlined),
        "by_backend": by_backend, "solver_time_s": solver_time,
        "refuted_known": sorted({o["name"] for o in refuted if o.get("known")}),
        "known_findings": kf_used,
        "undecided": undecided[:20],
        "bounded": [{"what": o["name"], "bound": o.get("bound"), "cases": o.get("cases"), "status": o["status"]}
                    for o in bounded],
        "vacuity": {"units_with_reachable_exit": len([r for r in results if any(n == "normal-exit-reachable" and v == "sat"
                                                                              for n, v in r["covers"])]),
                    "units": len(results)},
        "unit_digests": {r["unit"]: r.get("digest") for r in results},
        "samples": samples,
        "explanation": ("contract-based deductive verification: every obligation generated from the current source "
                        "of the listed functions; %d of %d discharged by SMT; refuted obligations listed as known "
                        "findings are replayed against the real code on every run; bounded stand-ins are listed "
                        "separately and never counted as proved" % (len(proved), n_ob)),
        "exit_code": code,
    }
    if hasattr(mod, "evidence_extra"):
        try:
            cov.update(mod.evidence_extra())
        except Exception:
            pass
    doc = {"property_id": pid, "tier": tier if tier in ("quick", "thorough") else "quick", "seed": seed, "level": level,
           "coverage": cov, "assumptions": assumptions, "wall_s": round(wall, 2), "violations": n_viol}
    os.makedirs(os.path.join(VERIF, "evidence"), exist_ok=True)
    with open(os.path.join(VERIF, "evidence", "%s.json" % pid), "w") as f:
        json.dump(doc, f, indent=1, default=str)
