#!/usr/bin/env python3
"""usage: tools_mkmutant.py <out.patch> <repo-relative-file> <<< "old text\n=====\nnew text"
writes a unified diff (applicable with git apply -p1) that replaces exactly one occurrence of the old text."""
import difflib
import sys

out, rel = sys.argv[1], sys.argv[2]
old, new = sys.stdin.read().split("\n=====\n")
new = new.rstrip("\n")
src = open("/repo/" + rel).read()
if src.count(old) != 1:
    sys.exit("old text occurs %d times" % src.count(old))
mut = src.replace(old, new)
d = difflib.unified_diff(src.splitlines(True), mut.splitlines(True), "a/" + rel, "b/" + rel)
open(out, "w").write("".join(d))
print("wrote", out)
