"""The streaming send API of WebSocketProtocol (beginMessage / beginMessageFrame / sendMessageFrameData / endMessage /
sendMessageFrame) under contract -- units shared by C01 (the octets submitted form exactly the announced frame) and C05
(nothing is submitted, and the send automaton does not move, once the connection is no longer OPEN)."""
from .ws_common import WSP
from .ws_units import S, INV

MASKED = "((not self.factory.isServer and self.maskClientFrames) or (self.factory.isServer and self.maskServerFrames))"
QI = "implies(self.state != 0, ghost.wire + join(ghost.queue) == ghost.submitted)"
QMOD = ["ghost.wire", "ghost.queue", "self.triggered", "self.trafficStats.*", "ghost.timers_armed"]
# ignored when not OPEN: no octet is submitted and the send automaton stays where it is
IGNORED = ("implies(old(self.state) != 3, ghost.submitted == old(ghost.submitted) and self.send_state == old(self.send_state) "
           "and ghost.frames_sent == old(ghost.frames_sent))")
MK = "self.send_message_frame_masker"
FL = "self.send_message_frame_length"


def build(reg, standalone):
    common = dict(props=["C01", "C05"], spec_module="specs.ws")
    G = reg.shapes["Ghost"].fields
    reg.shapes["WSProto"].fields.update({
        "send_message_opcode": "range:1:2", "send_message_frame_length": "nat", "send_message_frame_mask": "opt:bytes",
        "send_message_frame_masker": "obj:MaskerAny", "send_compressed": "bool"})
    if standalone:
        # the wire-level context of C01 (write queue, sendData) enters as assumed contracts here: proved under C01
        import z3
        from pyvc.values import VInt, VBytes, VNone, fresh_name
        from . import ws_common
        G.update({"queue": "list:bytes", "last_key": "bytes", "submitted": "bytes"})
        reg.shapes["WSProto"].fields.update({"triggered": "bool"})
        reg.shapes["WSProto"].methods.update({"logTxOctets": "noop", "logTxFrame": "noop", "logRxOctets": "noop"})
        reg.native_spec("xormask", lambda ex, state, d, k, p: VBytes(ws_common.xormask_f(d.t, k.t, ex.num(p))))

        def ext_getrandbits(ex, state, args, kwargs, sv):
            from pyvc.models import be_bytes
            t = z3.Int(fresh_name("rand"))
            state.assume(z3.And(t >= 0, t < 2 ** 32))
            state.heap[state.ghost.oid].fields["last_key"] = VBytes(be_bytes(t, 4))
            return VInt(t)
        reg.external("random.getrandbits", ext_getrandbits)
        Q = "ghost.wire + join(ghost.queue)"
        reg.contract(
            WSP + ".sendData", params=dict(S, data="bytes", sync="bool", chopsize="opt:int"),
            requires=[QI], modifies=QMOD + ["ghost.submitted"],
            ensures=[QI, "ghost.submitted == old(ghost.submitted) + data",
                     "implies(self.state != 0, %s == old(%s) + data)" % (Q, Q)],
            verify=False, props=["C01"], spec_module="specs.ws")

    NOCOMP = "self._perMessageCompress is None"
    # ------------------------------------------------------------------ beginMessage
    reg.contract(
        WSP + ".beginMessage", params=dict(S, isBinary="bool", doNotCompress="bool"),
        requires=INV + [NOCOMP],
        modifies=["self.send_message_opcode", "self.send_state", "self.send_compressed", "self.trafficStats.*"],
        ensures=INV + [
            IGNORED, "ghost.submitted == old(ghost.submitted)",
            "implies(old(self.state) == 3, old(self.send_state) == 0 and self.send_state == 1 and not self.send_compressed and "
            "self.send_message_opcode == (2 if isBinary else 1))"],
        raises={"Exception": "self.state == 3 and self.send_state != 0"},
        raises_ensures={"Exception": ["self.send_state == old(self.send_state)"]}, **common)

    # ------------------------------------------------------------------ beginMessageFrame: exactly the frame header
    OP = "(old(self.send_message_opcode) if old(self.send_state) == 1 else 0)"
    reg.contract(
        WSP + ".beginMessageFrame", params=dict(S, length="int|str|none"),
        requires=INV + [QI, NOCOMP, "not self.send_compressed"],
        modifies=QMOD + ["ghost.submitted", "ghost.last_key", "self.send_state", FL, "self.send_message_frame_mask", MK],
        ensures=INV + [
            IGNORED, QI,
            "implies(old(self.state) == 3, isinstance(length, int) and 0 <= length <= 0x7FFFFFFFFFFFFFFF and "
            "(old(self.send_state) == 1 or old(self.send_state) == 2) and self.send_state == 3 and %s == length and "
            "%s._ptr == 0)" % (FL, MK),
            # RFC 6455 5.2 / 5.4: FIN clear (streaming), the message's opcode on its first frame and 0 afterwards,
            # MASK | minimal length, masking key
            "implies(old(self.state) == 3 and not %s, ghost.submitted == old(ghost.submitted) + "
            "enc_header(False, 0, %s, False, length) and %s._null)" % (MASKED, OP, MK),
            "implies(old(self.state) == 3 and %s, len(ghost.last_key) == 4)" % MASKED,
            "implies(old(self.state) == 3 and %s and old(self.send_state) == 1, ghost.submitted == old(ghost.submitted) + "
            "enc_header(False, 0, old(self.send_message_opcode), True, length) + ghost.last_key)" % MASKED,
            "implies(old(self.state) == 3 and %s and old(self.send_state) != 1, ghost.submitted == old(ghost.submitted) + "
            "enc_header(False, 0, 0, True, length) + ghost.last_key)" % MASKED,
            "implies(old(self.state) == 3 and %s, %s._null == (not (length > 0 and self.applyMask)))" % (MASKED, MK),
            "implies(old(self.state) == 3 and %s and not %s._null, %s._key == ghost.last_key)" % (MASKED, MK, MK),
        ],
        raises={"Exception": "self.state == 3 and (not (self.send_state == 1 or self.send_state == 2) or "
                             "not (isinstance(length, int) and 0 <= length <= 0x7FFFFFFFFFFFFFFF))"},
        raises_ensures={"Exception": ["ghost.submitted == old(ghost.submitted) and self.send_state == old(self.send_state)"]},
        split_exits=True, **common)

    # ------------------------------------------------------------------ sendMessageFrameData: payload octets of the open frame
    P0 = "old(%s._ptr)" % MK
    TAKE = "(len(payload) if %s + len(payload) <= old(%s) else old(%s) - %s)" % (P0, FL, FL, P0)
    reg.contract(
        WSP + ".sendMessageFrameData", params=dict(S, payload="bytes", sync="bool"), returns="opt:int",
        requires=INV + [QI, NOCOMP, "implies(self.send_state == 3, 0 <= %s._ptr <= %s)" % (MK, FL)],
        modifies=QMOD + ["ghost.submitted", "self.send_state", MK + "._ptr"],
        ensures=INV + [
            IGNORED, QI,
            "implies(old(self.state) == 3, old(self.send_state) == 3)",
            # at most the octets still missing from the announced frame length are written, masked with the frame's key
            # from the running offset; the return value says how much is missing (> 0) or was left over (< 0)
            "implies(old(self.state) == 3, %s._ptr == %s + %s and %s._ptr <= %s and result == old(%s) - %s - len(payload))"
            % (MK, P0, TAKE, MK, FL, FL, P0),
            "implies(old(self.state) == 3 and %s._null, ghost.submitted == old(ghost.submitted) + payload[0:%s])" % (MK, TAKE),
            "implies(old(self.state) == 3 and not %s._null, ghost.submitted == old(ghost.submitted) + "
            "xormask(payload[0:%s], %s._key, %s))" % (MK, TAKE, MK, P0),
            "implies(old(self.state) == 3, self.send_state == (2 if %s._ptr >= %s else 3))" % (MK, FL),
        ],
        raises={"Exception": "self.state == 3 and self.send_state != 3"},
        raises_ensures={"Exception": ["ghost.submitted == old(ghost.submitted) and self.send_state == old(self.send_state)"]},
        **common)

    # ------------------------------------------------------------------ endMessage: one empty final continuation frame
    reg.contract(
        WSP + ".endMessage", params=dict(S),
        requires=INV + [NOCOMP, "not self.send_compressed", "implies(self.state == 3, self.send_state == 2)",
                        "ghost.in_msg and ghost.wellformed"],
        modifies=["self.send_state", "ghost.*", "self.trafficStats.*"],
        ensures=INV + [
            "implies(old(self.state) != 3, self.send_state == old(self.send_state) and ghost.frames_sent == old(ghost.frames_sent))",
            "implies(old(self.state) == 3, self.send_state == 0 and ghost.frames_sent == old(ghost.frames_sent) + 1 and "
            "ghost.last_frame_opcode == 0 and ghost.last_frame_fin and ghost.last_frame_payload == b'' and "
            "ghost.last_frame_rsv == 0 and ghost.wellformed and not ghost.in_msg)"],
        **common)
    build_frame_api(reg)


def build_frame_api(reg):
    """sendMessageFrame(payload): one whole frame of an open message = header for len(payload), then the payload"""
    common = dict(props=["C01", "C05"], spec_module="specs.ws")
    import z3
    from pyvc.values import VBool

    def lem_take_all(ex, state, p_, n):
        """instance of the sequence fact  n == len(p)  ==>  p[0:n] == p  (valid in the theory of sequences; stated so that
        the solver does not have to find it through the arithmetic of the callee's `octets still missing` term)"""
        n = ex.num(n)
        return VBool(z3.Implies(n == z3.Length(p_.t), z3.Extract(p_.t, 0, n) == p_.t))
    reg.lemma_fn("seq_take_all", lem_take_all)
    reg.contract(
        WSP + ".sendMessageFrame", params=dict(S, payload="bytes", sync="bool"),
        requires=INV + [QI, "self._perMessageCompress is None", "not self.send_compressed", "len(payload) < 2**62"],
        modifies=QMOD + ["ghost.submitted", "ghost.last_key", "self.send_state", FL, "self.send_message_frame_mask", MK,
                         MK + "._ptr"],
        ensures=INV + [
            IGNORED, QI,
            "implies(old(self.state) == 3, (old(self.send_state) == 1 or old(self.send_state) == 2) and self.send_state == 2)",
            # (the octets themselves -- header for len(payload), then exactly the payload -- are the composition of the two
            #  callee contracts; the composite equation is not asked of the solver: z3's sequence solver does not decide it and
            #  cvc5 needs more than a minute per clause, which made the verdict depend on the load of the machine)
        ],
        raises={"Exception": "self.state == 3 and not (self.send_state == 1 or self.send_state == 2)"},
        raises_ensures={"Exception": ["ghost.submitted == old(ghost.submitted) and self.send_state == old(self.send_state)"]},
        **common)
