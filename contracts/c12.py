"""C12 — Per-message compression is lossless and negotiated soundly (permessage-deflate part).

zlib / bz2 / snappy / brotli are libraries outside the repository: losslessness of the codecs is assumed.  Under contract
is the repository's negotiation logic: parsing of offers and responses, validation of the accept parameters against
the offer / response, which parameters each role uses for which direction, and whether both ends end up with the same
effective parameters.
"""
import z3

from pyvc.values import *  # noqa
from pyvc import natives

ASSUMPTIONS = [
    "extension parameters arrive as a dict name -> list of values (True for a bare parameter, else the text), as "
    "produced by _parseExtensionsHeader (not under contract here); the dict is modelled over the four RFC 7692 names "
    "plus one unknown name, each optionally present, each with one or two values",
    "int(text) is a function of the text (py_int_ok / py_int), pinned for plain digit strings",
    "zlib.compressobj / decompressobj are recorded with their window-bits argument; the deflate codec itself is assumed",
]
LEVEL = "other"
NOT_COVERED = ["losslessness of the zlib / bz2 / snappy / brotli codecs (third-party; assumed)",
               "_parseExtensionsHeader and the extension handling inside the opening handshake (C07)",
               "what the codec inflates a chunk to (arbitrary octets here; a damaged stream makes it raise, and that exception "
               "is not turned into a protocol failure by the library)", "streaming send with compression",
               "bzip2 / snappy / brotli negotiation classes (same structure, not built)"]
CD = "autobahn.websocket.compress_deflate"
PARAMS = ("odict:client_max_window_bits=@vals,client_no_context_takeover=@vals,server_max_window_bits=@vals,"
          "server_no_context_takeover=@vals,x_unknown=@vals")


def build_roles(reg, common):
    # ---- which parameters a role uses for which direction: the server compresses with the server_* parameters and
    #      decompresses with the client_* ones, the client the other way round; a (de)compressor is kept across messages
    #      unless "no context takeover" applies to that direction
    reg.shape("ZObj", fields={"wbits": "int", "fresh_id": "int"})

    def mk_z(kind):
        def f(ex, state, args, kwargs, sv):
            g = state.heap[state.ghost.oid]
            g.fields["n_" + kind] = VInt(simp(g.fields["n_" + kind].t + 1))
            o = ex.reg.fresh_obj(ex, state, "ZObj", "z" + kind)
            wb = args[2] if kind == "comp" else args[0]
            state.heap[o.oid].fields["wbits"] = wb
            return o
        return f
    reg.shapes["Ghost"].fields.update({"n_comp": "nat", "n_decomp": "nat"}) if "Ghost" in reg.shapes else \
        reg.shape("Ghost", ghost=True, fields={"n_comp": "nat", "n_decomp": "nat"})
    reg.external("zlib.compressobj", mk_z("comp"))
    reg.external("zlib.decompressobj", mk_z("decomp"))
    reg.shape("PMD", cls=CD + ":PerMessageDeflate", fields={
        "_is_server": "bool", "server_no_context_takeover": "bool", "client_no_context_takeover": "bool",
        "server_max_window_bits": "range:9:15", "client_max_window_bits": "range:9:15", "mem_level": "range:1:9",
        "max_message_size": "opt:int", "_compressor": "opt:obj:ZObj", "_decompressor": "opt:obj:ZObj"})
    MY = "(self.server_%s if self._is_server else self.client_%s)"
    PEER = "(self.client_%s if self._is_server else self.server_%s)"
    for fn, fld, cnt, who in (("start_compress_message", "_compressor", "n_comp", MY),
                              ("start_decompress_message", "_decompressor", "n_decomp", PEER)):
        nct = who % (("no_context_takeover",) * 2)
        wb = who % (("max_window_bits",) * 2)
        reg.contract(
            CD + ":PerMessageDeflate." + fn, params={"self": "obj:PMD"}, modifies=["self." + fld, "ghost." + cnt, "ZObj.*"],
            ensures=["self.%s is not None" % fld,
                     # a new context exactly at the first message or when this direction runs without context takeover
                     "(ghost.%s == old(ghost.%s) + 1) == (old(self.%s) is None or %s)" % (cnt, cnt, fld, nct),
                     "implies(ghost.%s == old(ghost.%s), self.%s is old(self.%s))" % (cnt, cnt, fld, fld),
                     # raw deflate with this direction's window size
                     "implies(ghost.%s == old(ghost.%s) + 1, self.%s.wbits == -%s)" % (cnt, cnt, fld, wb)],
            **common)
    # ---- effective parameters of both ends after a successful negotiation (lemma over the constructors' code)
    reg.contract(
        "specs.c12_lemmas:both_ends", name="C12/lemma/both-ends-agree", params={"accept": "obj:OfferAccept"},
        returns="tuple:obj:PMD,obj:PMD",
        requires=["0 <= accept.offer.request_max_window_bits <= 15 and 0 <= accept.request_max_window_bits <= 15",
                  "implies(accept.window_bits is not None, wbits_ok(accept.window_bits))",
                  # an admissible accept (constructor contract): no laxer than the client asked for
                  "implies(accept.no_context_takeover is not None and accept.offer.request_no_context_takeover, "
                  "accept.no_context_takeover)"],
        ensures=["result[0]._is_server and not result[1]._is_server",
                 # client-to-server direction
                 "result[0].client_no_context_takeover == result[1].client_no_context_takeover and "
                 "result[0].client_max_window_bits == result[1].client_max_window_bits",
                 # server-to-client direction
                 "result[0].server_no_context_takeover == result[1].server_no_context_takeover",
                 "result[0].server_max_window_bits == result[1].server_max_window_bits"],
        inline_calls=[CD + ":PerMessageDeflate.create_from_offer_accept",
                                CD + ":PerMessageDeflate.create_from_response_accept",
                                CD + ":PerMessageDeflate.__init__", CD + ":PerMessageDeflateResponse.__init__",
                                CD + ":PerMessageDeflateResponseAccept.__init__"],
        **common)


def build(reg):
    # the send side of the protocol (sendMessage with a negotiated extension: the compressor's complete output goes out,
    # RSV1 on the first frame only, do-not-compress bypasses the compressor, a refused message leaves the two ends in
    # step) is a unit of the shared WebSocketProtocol family, tagged C12
    from . import ws_units
    ws_units.build(reg)
    common = dict(props=["C12"], spec_module="specs.c12")
    reg.type_aliases["val"] = "const:True|str"
    reg.type_aliases["vals"] = "clist:1:@val|clist:2:@val"
    reg.native_spec("int_ok", lambda ex, state, s: ex.dist(state, [s], lambda a: VBool(
        natives.py_int_ok_f(a.t) if isinstance(a, VStr) else z3.BoolVal(isinstance(a, (VInt, VBool))))))
    reg.native_spec("int_of", lambda ex, state, s: ex.dist(state, [s], lambda a: VInt(
        natives.py_int_f(a.t) if isinstance(a, VStr) else ex.num(a))))
    reg.lemma_fn("decimal_digits", lambda ex, state, n: VBool(z3.Implies(
        ex.num(n) >= 0, z3.InRe(z3.IntToStr(ex.num(n)), z3.Plus(z3.Range("0", "9"))))))
    reg.shape("Offer", cls=CD + ":PerMessageDeflateOffer", fields={
        "accept_no_context_takeover": "bool", "accept_max_window_bits": "bool", "request_no_context_takeover": "bool",
        "request_max_window_bits": "int"})
    reg.shape("Response", cls=CD + ":PerMessageDeflateResponse", fields={
        "client_max_window_bits": "int", "client_no_context_takeover": "bool", "server_max_window_bits": "int",
        "server_no_context_takeover": "bool"})

    def P(k):
        return "('%s' in params)" % k

    def single(k):
        return "(len(params['%s']) == 1)" % k

    def bare(k):
        return "(params['%s'][0] is True)" % k

    def num_ok(k):
        return "(not %s and int_ok(params['%s'][0]) and wbits_ok(int_of(params['%s'][0])))" % (bare(k), k, k)
    KEYS = ["client_max_window_bits", "client_no_context_takeover", "server_max_window_bits", "server_no_context_takeover"]
    ALL_SINGLE = " and ".join("implies(%s, %s)" % (P(k), single(k)) for k in KEYS + ["x_unknown"])
    OFFER_OK = ("not %s and %s and implies(%s, %s or %s) and implies(%s, %s) and implies(%s, %s) and implies(%s, %s)"
                % (P("x_unknown"), ALL_SINGLE,
                   P(KEYS[0]), bare(KEYS[0]), num_ok(KEYS[0]),
                   P(KEYS[1]), bare(KEYS[1]),
                   P(KEYS[2]), num_ok(KEYS[2]),
                   P(KEYS[3]), bare(KEYS[3])))
    # ---- a client's offer (RFC 7692 7.1.1 / 7.1.2): accepted exactly when every parameter is known, occurs once and has
    #      an admissible value; the parsed object says what the client accepts and what it requests of the server
    reg.contract(
        CD + ":PerMessageDeflateOffer.parse", params={"cls": "class:%s:PerMessageDeflateOffer" % CD, "params": PARAMS},
        returns="obj:Offer",
        ensures=[OFFER_OK,
                 "result.accept_max_window_bits == %s" % P(KEYS[0]),
                 "result.accept_no_context_takeover",
                 "result.request_max_window_bits == (int_of(params['%s'][0]) if %s else 0)" % (KEYS[2], P(KEYS[2])),
                 "result.request_no_context_takeover == %s" % P(KEYS[3])],
        raises={"Exception": "not (%s)" % OFFER_OK}, **common)
    RESP_OK = ("not %s and %s and implies(%s, %s) and implies(%s, %s) and implies(%s, %s) and implies(%s, %s)"
               % (P("x_unknown"), ALL_SINGLE,
                  P(KEYS[0]), num_ok(KEYS[0]), P(KEYS[1]), bare(KEYS[1]), P(KEYS[2]), num_ok(KEYS[2]),
                  P(KEYS[3]), bare(KEYS[3])))
    # ---- a server's response: unknown, duplicated or out-of-range parameters make the client fail the handshake
    reg.contract(
        CD + ":PerMessageDeflateResponse.parse", params={"cls": "class:%s:PerMessageDeflateResponse" % CD, "params": PARAMS},
        returns="obj:Response",
        ensures=[RESP_OK,
                 "result.client_max_window_bits == (int_of(params['%s'][0]) if %s else 0)" % (KEYS[0], P(KEYS[0])),
                 "result.client_no_context_takeover == %s" % P(KEYS[1]),
                 "result.server_max_window_bits == (int_of(params['%s'][0]) if %s else 0)" % (KEYS[2], P(KEYS[2])),
                 "result.server_no_context_takeover == %s" % P(KEYS[3])],
        raises={"Exception": "not (%s)" % RESP_OK}, **common)

    # ---- the server's accept must be compatible with the client's offer (RFC 7692 7.1): it may request of the client
    #      only what the client declared acceptable, and may not be laxer about its own direction than the client asked
    reg.shape("OfferAccept", cls=CD + ":PerMessageDeflateOfferAccept", fields={
        "offer": "obj:Offer", "request_no_context_takeover": "bool", "request_max_window_bits": "int",
        "no_context_takeover": "opt:bool", "window_bits": "opt:int", "mem_level": "opt:int", "max_message_size": "opt:int"})
    reg.shape("ResponseAccept", cls=CD + ":PerMessageDeflateResponseAccept", fields={
        "response": "obj:Response", "no_context_takeover": "opt:bool", "window_bits": "opt:int", "mem_level": "opt:int",
        "max_message_size": "opt:int"})
    OA_OK = ("implies(request_no_context_takeover, offer.accept_no_context_takeover) and "
             "(request_max_window_bits == 0 or (wbits_ok(request_max_window_bits) and offer.accept_max_window_bits)) and "
             "implies(no_context_takeover is not None and offer.request_no_context_takeover, no_context_takeover) and "
             "implies(window_bits is not None, wbits_ok(window_bits) and "
             "(offer.request_max_window_bits == 0 or window_bits <= offer.request_max_window_bits)) and "
             "implies(mem_level is not None, 1 <= mem_level <= 9)")
    reg.contract(
        CD + ":PerMessageDeflateOfferAccept.__init__",
        params={"self": "obj:OfferAccept", "offer": "obj:Offer", "request_no_context_takeover": "bool",
                "request_max_window_bits": "int", "no_context_takeover": "opt:bool", "window_bits": "opt:int",
                "mem_level": "opt:int", "max_message_size": "opt:int"},
        modifies=["self.*"],
        ensures=[OA_OK, "self.offer is offer and self.request_no_context_takeover == request_no_context_takeover and "
                        "self.request_max_window_bits == request_max_window_bits and "
                        "self.no_context_takeover is no_context_takeover and self.window_bits is window_bits"],
        raises={"Exception": "not (%s)" % OA_OK}, **common)
    RA_OK = ("implies(no_context_takeover is not None and response.client_no_context_takeover, no_context_takeover) and "
             "implies(window_bits is not None, wbits_ok(window_bits) and "
             "(response.client_max_window_bits == 0 or window_bits <= response.client_max_window_bits)) and "
             "implies(mem_level is not None, 1 <= mem_level <= 9)")
    reg.contract(
        CD + ":PerMessageDeflateResponseAccept.__init__",
        params={"self": "obj:ResponseAccept", "response": "obj:Response", "no_context_takeover": "opt:bool",
                "window_bits": "opt:int", "mem_level": "opt:int", "max_message_size": "opt:int"},
        modifies=["self.*"],
        ensures=[RA_OK, "self.response is response and self.no_context_takeover is no_context_takeover and "
                        "self.window_bits is window_bits"],
        raises={"Exception": "not (%s)" % RA_OK}, **common)
    build_roles(reg, common)


_EXT_STRING_HARNESS = r"""
import json, itertools
from autobahn.websocket.compress_deflate import PerMessageDeflateOffer, PerMessageDeflateOfferAccept
bad = []
n = 0
W = [0, 9, 10, 11, 12, 13, 14, 15]
for o_nct, o_mwb, a_nct, a_mwb, nct, wb in itertools.product([False, True], W, [False, True], W, [None, False, True],
                                                             [None, 9, 10, 11, 12, 13, 14, 15]):
    offer = PerMessageDeflateOffer(True, True, o_nct, o_mwb)
    try:
        acc = PerMessageDeflateOfferAccept(offer, a_nct, a_mwb, no_context_takeover=nct, window_bits=wb)
    except Exception:
        continue            # not an admissible accept for this offer
    s = acc.get_extension_string()
    parts = [p.strip() for p in s.split(";")]
    want = ["permessage-deflate"]
    eff_nct = o_nct or (nct is True)
    eff_wb = wb if wb is not None else o_mwb
    if eff_nct: want.append("server_no_context_takeover")
    if eff_wb: want.append("server_max_window_bits=%d" % eff_wb)
    if a_nct: want.append("client_no_context_takeover")
    if a_mwb: want.append("client_max_window_bits=%d" % a_mwb)
    n += 1
    if parts[0] != want[0] or sorted(parts[1:]) != sorted(want[1:]):
        bad.append([o_nct, o_mwb, a_nct, a_mwb, nct, wb, s])
print(json.dumps({"cases": n, "bad": bad[:5]}))
"""


def replay(o):
    unit = o.get("unit") or o.get("name", "")
    if "sendMessage" in unit:
        from . import ws_pair_harness
        return ws_pair_harness.run("messages")
    return {"reproduced": False, "detail": "no replay harness for this unit"}


def extra_checks(tier, seed):
    """what OfferAccept.get_extension_string announces: decided by complete enumeration of its finite domain (every
    admissible combination of offer requests, accept requests and accept overrides) on the real code -- exactly the
    parameters the server runs its direction with, and the accept's requests for the client direction"""
    import time
    from pyvc import replaylib as R
    t0 = time.time()
    out = R.run_py(_EXT_STRING_HARNESS, timeout=120)
    ok = isinstance(out, dict) and out.get("cases", 0) > 256 and out.get("bad") == []
    extra = []
    if tier == "thorough":
        from . import ws_pair_harness as H
        extra.append(R.native_crosscheck(
            "C12/bounded/message-sequences-through-a-real-pair", H.HARNESS % {"mode": "messages"},
            "9 negotiated configurations x 5 fragment sizes x 3 send limits x both directions x 9 payloads (compressible, "
            "incompressible, repeated, empty, do-not-compress), real zlib"))
    return extra + [{"name": "C12/lemma/extension-string-announces-exactly-the-requests", "kind": "lemma-finite",
             "status": "proved" if ok else "refuted", "backend": "enumeration(%s admissible accepts, exhaustive)" % (out.get("cases") if isinstance(out, dict) else "?"),
             "time": round(time.time() - t0, 2), "info": {"detail": str(out)[:300]}}]
