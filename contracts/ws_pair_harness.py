"""A real WebSocket client / server pair wired back to back (Twisted flavour, in-memory transports, no reactor), used to
replay counterexamples of the send-side units on the real code: message sequences through sendMessage() -- with and
without a negotiated permessage-deflate extension, fragmented or not, compressible / incompressible / repeated / empty /
over-limit payloads, do-not-compress -- and through the streaming API, checked against the property statements directly:
every message arrives once, in order, byte-identical, with its type; RSV1 only on the first frame of a compressed
message; nothing is written for a refused message and later messages are unaffected; nothing is written once the
connection is no longer open.  It finds real failing inputs only and proves nothing."""

HARNESS = r'''
import json, random, struct, sys
import txaio; txaio.use_twisted()
from twisted.internet.address import IPv4Address
from twisted.internet.testing import StringTransport
from twisted.python.failure import Failure
from twisted.internet.error import ConnectionDone
from autobahn.twisted.websocket import WebSocketClientFactory, WebSocketClientProtocol, WebSocketServerFactory, WebSocketServerProtocol
from autobahn.websocket.compress import (PerMessageDeflateOffer, PerMessageDeflateOfferAccept, PerMessageDeflateResponse,
                                         PerMessageDeflateResponseAccept)
from autobahn.exception import PayloadExceededError, Disconnected

MODE = %(mode)r
class Pipe(StringTransport):
    def __init__(self, port):
        StringTransport.__init__(self, hostAddress=IPv4Address("TCP", "127.0.0.1", port), peerAddress=IPv4Address("TCP", "127.0.0.1", port + 1))
        self.queue = []; self.lost = False; self.after_lost = b""
    def write(self, data):
        if self.lost: self.after_lost += bytes(data)
        self.queue.append(bytes(data))
    def writeSequence(self, seq):
        for d in seq: self.write(d)
    def loseConnection(self): self.lost = True
    def abortConnection(self): self.lost = True
    def unregisterProducer(self): pass

class Rec:
    def __init__(self): self.messages = []; self.closed = []; self.opened = False

def pair(deflate, accept_kw=None, offer_kw=None, **opts):
    srec, crec = Rec(), Rec()
    class Server(WebSocketServerProtocol):
        def onOpen(self): srec.opened = True
        def onMessage(self, payload, isBinary): srec.messages.append((bytes(payload), isBinary))
        def onClose(self, wasClean, code, reason): srec.closed.append((wasClean, code))
    class Client(WebSocketClientProtocol):
        def onOpen(self): crec.opened = True
        def onMessage(self, payload, isBinary): crec.messages.append((bytes(payload), isBinary))
        def onClose(self, wasClean, code, reason): crec.closed.append((wasClean, code))
    sf = WebSocketServerFactory("ws://127.0.0.1:9000"); sf.protocol = Server
    cf = WebSocketClientFactory("ws://127.0.0.1:9000"); cf.protocol = Client
    sopt, copt = dict(autoPingInterval=0), dict(autoPingInterval=0)
    if deflate:
        def accept(offers):
            for o in offers:
                if isinstance(o, PerMessageDeflateOffer): return PerMessageDeflateOfferAccept(o, **(accept_kw or {}))
        def raccept(resp):
            if isinstance(resp, PerMessageDeflateResponse): return PerMessageDeflateResponseAccept(resp)
        sopt["perMessageCompressionAccept"] = accept
        copt["perMessageCompressionOffers"] = [PerMessageDeflateOffer(**(offer_kw or {}))]
        copt["perMessageCompressionAccept"] = raccept
    sf.setProtocolOptions(**sopt); cf.setProtocolOptions(**copt)
    server, client = sf.buildProtocol(None), cf.buildProtocol(None)
    st, ct = Pipe(9000), Pipe(40000)
    server.makeConnection(st); client.makeConnection(ct)
    for _ in range(6):
        pump(ct, server); pump(st, client)
    for k, v in opts.items():
        setattr(client, k, v); setattr(server, k, v)
    return server, client, st, ct, srec, crec

def pump(src, dst, wire=None, step=None):
    while src.queue:
        data = b"".join(src.queue); src.queue = []
        if wire is not None: wire.append(data)
        i = 0
        while i < len(data):
            k = step or len(data)
            dst.dataReceived(data[i:i + k]); i += k

def frames(data):
    out, i = [], 0
    while i < len(data):
        b0, b1 = data[i], data[i + 1]; i += 2
        ln = b1 & 127
        if ln == 126: (ln,) = struct.unpack("!H", data[i:i + 2]); i += 2
        elif ln == 127: (ln,) = struct.unpack("!Q", data[i:i + 8]); i += 8
        mask = None
        if b1 >> 7: mask = data[i:i + 4]; i += 4
        p = data[i:i + ln]; i += ln
        if mask: p = bytes(c ^ mask[k & 3] for k, c in enumerate(p))
        out.append((b0 >> 7, (b0 >> 4) & 7, b0 & 15, p))
    return out

bad, cases = [], 0
def chk(c, what, case):
    if not c and len(bad) < 6: bad.append({"what": what, "case": case})

rng = random.Random(7)
RND = bytes(rng.getrandbits(8) for _ in range(1200))
TXT = (b"the quick brown fox jumps over the lazy dog " * 40)
PAYLOADS = [("empty", b""), ("one", b"x"), ("text", TXT[:300]), ("random200", RND[:200]), ("random1000", RND[:1000]),
            ("random200-again", RND[:200]), ("prefix-of-random", RND[:60]), ("text-again", TXT[:300]), ("big-text", TXT)]

def run_messages():
    global cases
    configs = [(False, None, None)] + [(True, a, o) for a in ({}, {"no_context_takeover": True}, {"window_bits": 9},
                                                              {"request_no_context_takeover": True})
                                       for o in ({}, {"request_no_context_takeover": True})]
    for deflate, akw, okw in configs:
        for frag in (None, 1, 7, 100, 5000):
            for limit in (0, 80, 400):
                for direction in ("c2s", "s2c"):
                    cases += 1
                    case = {"deflate": deflate, "accept": akw, "offer": okw, "fragmentSize": frag, "maxMessagePayloadSize": limit,
                            "direction": direction}
                    try:
                        server, client, st, ct, srec, crec = pair(deflate, akw, okw)
                    except Exception as e:
                        chk(False, "handshake raised %%r" %% (e,), case); continue
                    if not (srec.opened and crec.opened):
                        chk(False, "handshake did not complete", case); continue
                    tx, rx, tt, rrec = (client, server, ct, srec) if direction == "c2s" else (server, client, st, crec)
                    tx.maxMessagePayloadSize = limit
                    expect, wire = [], []
                    for idx, (name, p) in enumerate(PAYLOADS):
                        binary = not name.startswith(("text", "big-text", "empty", "one"))
                        dnc = (idx %% 4 == 3)
                        n_before = len(b"".join(tt.queue))
                        try:
                            tx.sendMessage(p, isBinary=binary, fragmentSize=frag, doNotCompress=dnc)
                            expect.append((p, binary, dnc))
                        except PayloadExceededError:
                            chk(limit > 0, "PayloadExceededError without a limit", dict(case, payload=name))
                            chk(len(b"".join(tt.queue)) == n_before, "octets written for a refused message", dict(case, payload=name))
                        except Exception as e:
                            chk(False, "sendMessage raised %%r" %% (e,), dict(case, payload=name)); break
                        try:
                            pump(tt, rx, wire, step=(3 if idx %% 3 == 0 else None))
                        except Exception as e:
                            chk(False, "receiving peer raised %%s: %%s (after %%s)" %% (type(e).__name__, e, name), case); break
                    got = rrec.messages
                    chk(got == [(p, b) for p, b, _ in expect], "received %%d messages %%r..., sent %%d" %% (len(got), [len(m[0]) for m in got][:9], len(expect)), case)
                    chk(not rrec.closed and not tt.lost, "connection failed / closed: %%r" %% (rrec.closed,), case)
                    # wire observation: RSV1 only on first frames, exactly for compressed messages; no-compress in the clear
                    try:
                        fr = [f for f in frames(b"".join(wire)) if f[2] in (0, 1, 2)]
                    except Exception:
                        fr = None
                    if fr is not None:
                        msgs, cur = [], None
                        for fin, rsv, op, p in fr:
                            if op != 0: cur = [rsv, b""]
                            elif cur is None: chk(False, "continuation frame without a first frame", case); break
                            else: chk(rsv == 0, "RSV bits on a continuation frame", case)
                            cur[1] += p
                            if fin: msgs.append(tuple(cur)); cur = None
                        chk(len(msgs) == len(expect), "frames on the wire form %%d messages, sent %%d" %% (len(msgs), len(expect)), case)
                        for (rsv, body), (p, b, dnc) in zip(msgs, expect):
                            if deflate and not dnc: chk(rsv == 4, "compressed message without RSV1", case)
                            else: chk(rsv == 0 and body == p, "uncompressed message altered / flagged", case)

def run_streaming():
    """the streaming send API around every way the connection can leave OPEN"""
    global cases
    for role in ("client", "server"):
        for trigger in ("none", "local_close", "peer_close", "peer_drop", "peer_violation"):
            for at in (0, 1, 2, 3):
                for fail_by_drop in (False, True):
                    cases += 1
                    case = {"role": role, "trigger": trigger, "after_step": at, "failByDrop": fail_by_drop}
                    server, client, st, ct, srec, crec = pair(False, failByDrop=fail_by_drop)
                    tx, rx, tt, rt, rrec, trec = (client, server, ct, st, srec, crec) if role == "client" else (server, client, st, ct, crec, srec)
                    closed_at = [None]
                    def fire():
                        if trigger == "local_close": tx.sendClose(1000)
                        elif trigger == "peer_close": rx.sendClose(1000); pump(rt, tx)
                        elif trigger == "peer_drop": tx.connectionLost(Failure(ConnectionDone()))
                        elif trigger == "peer_violation": tx.dataReceived(b"\xff\xff\xff\xff")
                        closed_at[0] = len(b"".join(tt.queue))
                    steps = [lambda: tx.beginMessage(isBinary=True), lambda: tx.beginMessageFrame(8), lambda: tx.sendMessageFrameData(b"abcd"),
                             lambda: tx.sendMessageFrameData(b"efgh"), lambda: tx.endMessage()]
                    try:
                        for i, stp in enumerate(steps):
                            if trigger != "none" and i == at + 1: fire()
                            stp()
                    except Exception as e:
                        chk(False, "streaming send raised %%r" %% (e,), case); continue
                    out = b"".join(tt.queue)
                    if trigger == "none":
                        try: pump(tt, rx)
                        except Exception as e: chk(False, "peer raised %%r" %% (e,), case)
                        chk(rrec.messages == [(b"abcdefgh", True)], "streamed message not delivered intact: %%r" %% (rrec.messages,), case)
                        chk(not rrec.closed and not trec.closed and not tt.lost and not rt.lost, "connection failed after a streamed message", case)
                        try:
                            fr = frames(out)
                        except Exception as e:
                            fr = None
                        want = [(0, 0, 2, b"abcdefgh"), (1, 0, 0, b"")]
                        chk(fr == want, "frames on the wire %%r, expected %%r" %% (fr, want), case)
                        masked = bool(out[1] >> 7) if len(out) > 1 else None
                        chk(masked == (role == "client"), "mask bit wrong for the role", case)
                    else:
                        chk(len(out) == closed_at[0], "%%d octets written after the connection left OPEN: %%r" %% (len(out) - closed_at[0], out[closed_at[0]:][:16]), case)
                        chk(len(trec.closed) <= 1, "onClose fired %%d times" %% len(trec.closed), case)

def run_streaming_lengths():
    global cases
    for role in ("client", "server"):
        for length in (0, 1, 125, 126, 127, 65535, 65536, 70000):
            for chunks in ((length,), (1, length), (length // 2, length - length // 2 + 5), (length + 3,)):
                cases += 1
                case = {"role": role, "frame_length": length, "chunks": list(chunks)}
                server, client, st, ct, srec, crec = pair(False)
                tx, rx, tt, rt, rrec, trec = (client, server, ct, st, srec, crec) if role == "client" else (server, client, st, ct, crec, srec)
                data = bytes((i * 7 + 3) %% 256 for i in range(length + 8))
                try:
                    tx.beginMessage(isBinary=True); tx.beginMessageFrame(length)
                    pos, rest = 0, None
                    for c in chunks:
                        if tx.send_state != 3: break
                        rest = tx.sendMessageFrameData(data[pos:pos + c]); pos += c
                    want_rest = length - pos
                    chk(rest is None or rest == want_rest, "sendMessageFrameData returned %%r, expected %%r" %% (rest, want_rest), case)
                    if pos >= length: tx.endMessage()
                except Exception as e:
                    chk(False, "streaming send raised %%r" %% (e,), case); continue
                out = b"".join(tt.queue)
                if pos >= length:
                    try:
                        fr = frames(out)
                    except Exception:
                        fr = None
                    chk(fr == [(0, 0, 2, data[:length]), (1, 0, 0, b"")], "frames on the wire are not (first frame with exactly the announced octets, empty final frame): %%r" %% ([(f[0], f[1], f[2], len(f[3])) for f in (fr or [])],), case)
                    # minimal length encoding
                    b1 = out[1] & 127
                    chk(b1 == (length if length <= 125 else 126 if length <= 65535 else 127), "length not minimally encoded (%%d for %%d)" %% (b1, length), case)
                    try: pump(tt, rx)
                    except Exception as e: chk(False, "peer raised %%r" %% (e,), case)
                    chk(rrec.messages == [(data[:length], True)] and not rrec.closed, "streamed message not delivered intact", case)

def run_violations():
    """frames that violate RFC 6455 (reserved bits, reserved opcodes, fragmented / long control frames, wrong masking),
    each followed by a valid message, under three read segmentations and both failure policies: nothing carried by the
    violating frame and nothing after it may reach the application, and what is delivered must not depend on the
    segmentation"""
    global cases
    def frame(b0, payload, masked, key=b"\x01\x02\x03\x04", l7=None):
        n = len(payload) if l7 is None else l7
        h = bytes([b0, (0x80 if masked else 0) | n])
        return h + (key + bytes(c ^ key[i & 3] for i, c in enumerate(payload)) if masked else payload)
    for role in ("server", "client"):            # the receiving side
        for fbd in (False, True):
            for name, b0, body in (("ping+rsv1", 0x80 | 0x40 | 0x9, b"hi"), ("ping+rsv2", 0x80 | 0x20 | 0x9, b"hi"), ("pong+rsv3", 0x80 | 0x10 | 0xA, b"hi"),
                                   ("text+rsv1", 0x80 | 0x40 | 0x1, b"hi"), ("opcode3", 0x80 | 0x3, b"hi"), ("opcode11", 0x80 | 0xB, b"hi"),
                                   ("fragmented ping", 0x9, b"hi"), ("continuation without message", 0x80 | 0x0, b"hi"),
                                   ("wrong masking", 0x80 | 0x9, b"hi")):
                seen = {}
                for split in ("whole", "bytewise", "header|rest"):
                    cases += 1
                    server, client, st, ct, srec, crec = pair(False, failByDrop=fbd)
                    rx, rrec = (server, srec) if role == "server" else (client, crec)
                    ev = []
                    rx.onPing = lambda p, ev=ev: ev.append(("ping", bytes(p)))
                    rx.onPong = lambda p, ev=ev: ev.append(("pong", bytes(p)))
                    masked = (role == "server") != (name == "wrong masking")
                    data = frame(b0, body, masked) + frame(0x80 | 0x1, b"after", role == "server")
                    chunks = [data] if split == "whole" else ([bytes([b]) for b in data] if split == "bytewise" else [data[:2], data[2:]])
                    try:
                        for c in chunks:
                            rx.dataReceived(c)
                    except Exception as e:
                        chk(False, "receiver raised %%r" %% (e,), {"role": role, "frame": name, "split": split}); continue
                    got = ev + [("msg", m) for m in rrec.messages]
                    seen[split] = got
                    chk(not got, "delivered %%r from / after a violating frame" %% (got,), {"role": role, "frame": name, "split": split, "failByDrop": fbd})
                chk(len({repr(v) for v in seen.values()}) <= 1, "verdict depends on the segmentation: %%r" %% (seen,), {"role": role, "frame": name, "failByDrop": fbd})

def run_streaming_all():
    run_streaming(); run_streaming_lengths()

{"messages": run_messages, "streaming": run_streaming_all, "violations": run_violations}[MODE]()
print(json.dumps({"bad": bad, "cases": cases}))
'''


def run(mode, timeout=600):
    from pyvc import replaylib as R
    out = R.run_py(HARNESS % {"mode": mode}, env={"USE_TWISTED": "1"}, timeout=timeout)
    bad = out.get("bad") if isinstance(out, dict) else None
    return {"reproduced": bool(bad), "cases": (bad or [])[:4], "observed": out if not bad else {"cases": out.get("cases")},
            "detail": "real client / server pair back to back (%s)" % mode}
