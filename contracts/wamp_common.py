"""Shapes, ghost state and assumed primitives shared by the WAMP session properties (C04 C06 C10 C11 C18 C20)."""
import z3

from pyvc.values import *  # noqa
from pyvc.engine import HObj

PR = "autobahn.wamp.protocol"
SESS = PR + ":ApplicationSession"
RQ = "autobahn.wamp.request"

ASSUMPTIONS = [
    "txaio futures are write-once cells (records with a `done` flag): resolve/reject of a completed future raises; "
    "is_called reads the flag; callbacks registered with add_callbacks are not run synchronously inside the unit",
    "ITransport.send(msg) either appends msg to the sent log or raises one of SerializationError / "
    "PayloadExceededError / TransportLost (interface contract, proved per transport under C10/C13 where claimed)",
    "request / subscription / registration records and futures live in a Boogie-style record heap: distinct "
    "allocations are distinct addresses; records reachable from the tables are allocated",
    "user callbacks (handlers, endpoints, on_progress, onLeave ...) are arbitrary and may re-enter the public API only "
    "where the contract says so",
]


def ext_is_future(ex, state, args, kwargs, sv):
    return VBool(simp(disj([g for g, a in alts_of(args[0]) if isinstance(a, VSym) and a.shape == "Fut"])))


def _fut_arr(ex, state, field, typ):
    return ex.reg._sym_arr(state, "Fut", field, typ)


def _need_fut(ex, state, a):
    """the future argument: alternatives that are not futures (None, foreign objects) raise AttributeError"""
    fut = None
    for g, alt in alts_of(a):
        if isinstance(alt, VSym) and alt.shape == "Fut":
            fut = alt if fut is None else VSym("Fut", z3.If(g, alt.t, fut.t))
        else:
            ex.raise_if(state, g, "AttributeError")
    if fut is None:
        from pyvc.executor import _Abort
        raise _Abort()
    return fut


def ext_is_called(ex, state, args, kwargs, sv):
    f = _need_fut(ex, state, args[0])
    return VBool(z3.Select(_fut_arr(ex, state, "done", "bool"), f.t))


def _complete(ex, state, f, ok, res_id):
    done = _fut_arr(ex, state, "done", "bool")
    ex.raise_if(state, z3.Select(done, f.t), "AlreadyCalledError")
    state.sheap[("Fut", "done")] = z3.Store(done, f.t, z3.BoolVal(True))
    state.sheap[("Fut", "ok")] = z3.Store(_fut_arr(ex, state, "ok", "bool"), f.t, z3.BoolVal(ok))
    if res_id is not None:
        state.sheap[("Fut", "res_id")] = z3.Store(_fut_arr(ex, state, "res_id", "int"), f.t, res_id)
    g = state.heap[state.ghost.oid]
    g.fields["n_completions"] = VInt(simp(g.fields["n_completions"].t + 1))


def _res_id(ex, state, v):
    if v is None or isinstance(v, VNoneT):
        return z3.IntVal(0)
    if isinstance(v, VInt):
        return v.t
    if isinstance(v, VSym):
        return v.t
    return None


def ext_resolve(ex, state, args, kwargs, sv):
    f = _need_fut(ex, state, args[0])
    _complete(ex, state, f, True, _res_id(ex, state, args[1] if len(args) > 1 else None))
    return VNone


def ext_reject(ex, state, args, kwargs, sv):
    f = _need_fut(ex, state, args[0])
    _complete(ex, state, f, False, None)
    return VNone


def ext_create_future(ex, state, args, kwargs, sv):
    a = z3.Int(fresh_name("new_future"))
    alloc = state.sheap.get(("$alloc", ""))
    if alloc is None:
        alloc = z3.Array("H0_alloc", z3.IntSort(), z3.BoolSort())
    state.assume(z3.Not(z3.Select(alloc, a)))
    state.sheap[("$alloc", "")] = z3.Store(alloc, a, z3.BoolVal(True))
    state.sheap[("Fut", "done")] = z3.Store(_fut_arr(ex, state, "done", "bool"), a, z3.BoolVal(False))
    return VSym("Fut", a)


def ext_send(ex, state, args, kwargs, sv):
    """ITransport.send: one message appended to the sent log, or one of the documented exceptions and nothing sent"""
    g = state.heap[state.ghost.oid]
    for name in ("SerializationError", "PayloadExceededError", "TransportLost"):
        ex.raise_if(state, z3.Bool(fresh_name("send_raises_" + name)), name)
    g.fields["n_sent"] = VInt(simp(g.fields["n_sent"].t + 1))
    g.fields["last_sent"] = args[0]
    return VNone


def sym_allocated(ex, state, x):
    alloc = state.sheap.get(("$alloc", ""))
    if alloc is None:
        alloc = z3.Array("H0_alloc", z3.IntSort(), z3.BoolSort())
        state.sheap[("$alloc", "")] = alloc
    return VBool(z3.Select(alloc, x.t))


def build_shapes(reg):
    reg.shape("Fut", fields={"done": "bool", "ok": "bool", "res_id": "int"})
    reg.shape("HandlerRec", cls=RQ + ":Handler", fields={"fn": "any", "obj": "any", "details_arg": "any"})
    reg.shape("Request", cls=RQ + ":Request", fields={"request_id": "int", "on_reply": "sym:Fut"})
    reg.shape("PublishRequest", cls=RQ + ":PublishRequest", heap_base="Request",
              fields={"request_id": "int", "on_reply": "sym:Fut", "was_encrypted": "bool"})
    reg.shape("SubscribeRequest", cls=RQ + ":SubscribeRequest", heap_base="Request",
              fields={"request_id": "int", "on_reply": "sym:Fut", "topic": "str", "handler": "sym:HandlerRec"})
    reg.shape("UnsubscribeRequest", cls=RQ + ":UnsubscribeRequest", heap_base="Request",
              fields={"request_id": "int", "on_reply": "sym:Fut", "subscription_id": "int"})
    reg.shape("RegisterRequest", cls=RQ + ":RegisterRequest", heap_base="Request",
              fields={"request_id": "int", "on_reply": "sym:Fut", "procedure": "str", "endpoint": "sym:HandlerRec"})
    reg.shape("UnregisterRequest", cls=RQ + ":UnregisterRequest", heap_base="Request",
              fields={"request_id": "int", "on_reply": "sym:Fut", "registration_id": "int"})
    reg.shape("CallRequest", cls=RQ + ":CallRequest", heap_base="Request",
              fields={"request_id": "int", "on_reply": "sym:Fut", "procedure": "str", "options": "any"})
    reg.shape("Subscription", cls=RQ + ":Subscription",
              fields={"id": "int", "topic": "str", "active": "bool", "session": "any", "handler": "sym:HandlerRec"})
    reg.shape("Registration", cls=RQ + ":Registration",
              fields={"id": "int", "active": "bool", "session": "any", "procedure": "str", "endpoint": "sym:HandlerRec"})
    reg.shape("Publication", cls=RQ + ":Publication", fields={"id": "int", "was_encrypted": "bool"})
    for c in ("Publication", "Subscription", "Registration", "PublishRequest", "SubscribeRequest", "UnsubscribeRequest",
              "RegisterRequest", "UnregisterRequest", "CallRequest"):
        reg.record_class(RQ + ":" + c, c)
    reg.shape("Transport", fields={}, methods={"send": "transport.send"})
    reg.external("transport.send", ext_send)
    reg.external("txaio.is_future", ext_is_future)
    reg.external("txaio.is_called", ext_is_called)
    reg.external("txaio.resolve", ext_resolve)
    reg.external("txaio.reject", ext_reject)
    reg.external("txaio.create_future", ext_create_future)
    reg.external("txaio.create_future_success", lambda ex, state, args, kwargs, sv: VOpaque(fresh_name("done_future")))
    reg.native_spec("allocated", sym_allocated)

    def sym_allocated_before(ex, state, a):
        pre = getattr(ex, "unit_pre", None)
        alloc0 = pre.sheap.get(("$alloc", "")) if pre is not None else None
        if alloc0 is None:
            alloc0 = z3.Array("H0_alloc", z3.IntSort(), z3.BoolSort())
        return VBool(z3.Select(alloc0, ex.num(a)))
    reg.native_spec("allocated_before", sym_allocated_before)
    reg.native_spec("fut_done", lambda ex, state, a: VBool(z3.Select(_fut_arr(ex, state, "done", "bool"), ex.num(a))))
    reg.native_spec("fut_ok", lambda ex, state, a: VBool(z3.Select(_fut_arr(ex, state, "ok", "bool"), ex.num(a))))
    reg.native_spec("fut_res", lambda ex, state, a: VInt(z3.Select(_fut_arr(ex, state, "res_id", "int"), ex.num(a))))
    reg.shape("Ghost", fields={"n_sent": "nat", "last_sent": "any", "n_completions": "nat", "n_progress": "nat",
                               "last_progress_req": "int"}, ghost=True)
    reg.shape("Session", cls=SESS, fields={
        "log": "logger", "_session_id": "opt:int", "_goodbye_sent": "bool", "_transport": "opt:obj:Transport",
        "_publish_reqs": "dict:int->sym:PublishRequest", "_subscribe_reqs": "dict:int->sym:SubscribeRequest",
        "_unsubscribe_reqs": "dict:int->sym:UnsubscribeRequest", "_register_reqs": "dict:int->sym:RegisterRequest",
        "_unregister_reqs": "dict:int->sym:UnregisterRequest", "_call_reqs": "dict:int->sym:CallRequest",
        "_subscriptions": "dict:int->seq:sym:Subscription", "_registrations": "dict:int->sym:Registration",
        "_payload_codec": "none", "_realm": "any", "_parent": "any", "_request_id_gen": "obj:IdGenerator",
        "_router_roles": "any",
    })
    reg.shape("IdGenerator", cls="autobahn.util:IdGenerator", fields={"_next": "int"})
    if "autobahn.util:IdGenerator.next" not in reg.contracts:
        reg.contract("autobahn.util:IdGenerator.next", params={"self": "obj:IdGenerator"}, returns="int",
                     requires=["0 <= self._next <= 2**53"], modifies=["self._next"],
                     ensures=["1 <= result <= 2**53", "result == self._next",
                              "result == old(self._next) + 1 or (old(self._next) == 2**53 and result == 1)"],
                     verify=False, props=["C04"], spec_module="specs.wamp")


MESSAGE_CLASSES = ["Hello", "Welcome", "Abort", "Challenge", "Authenticate", "Goodbye", "Error", "Publish", "Published",
                   "Subscribe", "Subscribed", "Unsubscribe", "Unsubscribed", "Event", "EventReceived", "Call", "Cancel",
                   "Result", "Register", "Registered", "Unregister", "Unregistered", "Invocation", "Interrupt", "Yield"]


def install_message_models(reg):
    """message constructors as record constructors: the new object has the class and the given fields (positional
    arguments named by the real signature).  The constructors' own argument assertions belong to C03/C08."""
    from pyvc import models, loader
    from pyvc.values import VClass

    def mk(cname):
        def model(ex, state, args, kwargs):
            ci = loader.get_class("autobahn.wamp.message", cname)
            c, m = ci.find_method("__init__")
            names = [a.arg for a in m.args.args][1:]
            o = HObj("inst", VClass(cname, ci))
            for n, v in zip(names, args):
                o.fields[n] = v
            import ast as _ast
            from pyvc.values import OptKw, mk_union, Unsupported
            defaults = dict(zip(names[len(names) - len(m.args.defaults):], m.args.defaults))
            for k, v in kwargs.items():
                if k == "**":
                    continue
                if isinstance(v, OptKw):
                    # a keyword passed only on some paths (f(**d) with a conditionally filled dict): else the default
                    if k not in names:
                        ex.raise_if(state, v.g, "TypeError")
                        continue
                    if k in o.fields:
                        ex.raise_if(state, v.g, "TypeError")
                        continue
                    if k not in defaults:
                        raise Unsupported("optionally present keyword for a required parameter")
                    dflt = ex.const(_ast.literal_eval(defaults[k]))
                    o.fields[k] = mk_union([(v.g, v.v), (z3.Not(v.g), dflt)])
                    continue
                if k not in names or k in o.fields:
                    ex.raise_if(state, z3.BoolVal(True), "TypeError")      # unexpected / duplicate keyword
                    continue
                o.fields[k] = v
            # parameters not given keep their declared defaults when those are literals
            for n, d in defaults.items():
                if n not in o.fields:
                    try:
                        o.fields[n] = ex.const(_ast.literal_eval(d))
                    except Exception:
                        pass
            return state.alloc(o)
        return model
    for cname in MESSAGE_CLASSES:
        models.CLASS_MODELS[cname] = mk(cname)
        models.OPTKW_MODELS.add(cname)
