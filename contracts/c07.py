"""C07 — The opening handshake admits exactly the valid peers and never crashes (client side of the response check).

HTTP text handling is modelled soundly but coarsely: strip / lower / split are functions of their arguments about which
only length facts are known (pyvc.natives.str_split), SHA-1 and base64 are uninterpreted.  That is enough to prove the
*necessary* conditions of a completed handshake (what must have been true of the response whenever the connection is
opened) and that no exception escapes; it cannot prove that every valid response is accepted.
"""
import z3

from pyvc.values import *  # noqa
from pyvc.engine import HObj

ASSUMPTIONS = [
    "parseHttpHeader returns (status line, headers, header counts) with counts >= 1 for exactly the present headers "
    "(its own body -- splitlines / find / strip over latin-1 text -- is not under contract)",
    "str.strip / lower / split / join / format are functions of their arguments; only length facts of split are known",
    "SHA-1 and base64 are uninterpreted functions (the digest is the RFC 6455 expression over them)",
    "the response carries no Sec-WebSocket-Extensions header in this unit (extension handling: C12)",
    "user callbacks (_onConnect through txaio.as_future) do not run synchronously inside the unit",
]
LEVEL = "other"
NOT_COVERED = ["the server side (WebSocketServerProtocol.processHandshake: request validation chain, origin policy, "
               "connection limit, succeedHandshake)", "client request construction (_actuallyStartHandshake, parse_url / "
               "create_url)", "parseHttpHeader itself", "responses with a Sec-WebSocket-Extensions header",
               "sufficiency: that every RFC-valid response is accepted (string functions are over-approximated)"]
P = "autobahn.websocket.protocol"
CLI = P + ":WebSocketClientProtocol"
sha1_f = z3.Function("sha1", BytesSort, BytesSort)
b64_f = z3.Function("b64encode", BytesSort, BytesSort)
MAGIC = b"258EAFA5-E914-47DA-95CA-C5AB0DC85B11"


def _g(state):
    return state.heap[state.ghost.oid]


def m_sha1(ex, state, args, kwargs):
    o = HObj("inst", None, "Sha1")
    o.fields["buf"] = VBytes(b"")
    return state.alloc(o)


def ext_sha1_update(ex, state, args, kwargs, sv):
    o = state.heap[sv.oid]
    o.fields["buf"] = VBytes(z3.Concat(o.fields["buf"].t, args[0].t))
    return VNone


def ext_sha1_digest(ex, state, args, kwargs, sv):
    return VBytes(sha1_f(state.heap[sv.oid].fields["buf"].t))


def build(reg):
    common = dict(props=["C07"], spec_module="specs.c07")
    from pyvc import models, natives
    reg.shape("Ghost", ghost=True, fields={"n_drop": "nat", "n_cancel": "nat", "n_onconnect": "nat", "n_timers": "nat"})
    reg.shape("Sha1", fields={"buf": "bytes"}, methods={"update": "sha1.update", "digest": "sha1.digest"})
    reg.external("sha1.update", ext_sha1_update)
    reg.external("sha1.digest", ext_sha1_digest)
    models.CLASS_MODELS["hashlib.sha1"] = m_sha1
    models.EXTERNAL_CLASSES.add("hashlib.sha1")
    def ext_b64encode(ex, state, args, kwargs, sv):
        r = b64_f(args[0].t)
        state.assume(natives.utf8_valid(r))         # base64 text is ASCII
        return VBytes(r)
    reg.external("base64.b64encode", ext_b64encode)
    reg.native_spec("accept_digest", lambda ex, state, key: VStr(natives.utf8_decode(
        b64_f(sha1_f(z3.Concat(key.t, _magic()))))))

    def bump(field):
        def f(ex, state, args, kwargs, sv):
            g = _g(state)
            g.fields[field] = VInt(simp(g.fields[field].t + 1))
            return VNone
        return f
    reg.external("hs.drop", bump("n_drop"))
    reg.external("hs.cancel", bump("n_cancel"))
    reg.external("hs.call_later", lambda ex, state, args, kwargs, sv: (bump("n_timers")(ex, state, args, kwargs, sv),
                                                                       ex.reg.fresh_obj(ex, state, "HsTimer", "timer"))[1])
    reg.external("txaio.as_future", lambda ex, state, args, kwargs, sv: (bump("n_onconnect")(ex, state, args, kwargs, sv),
                                                                         VOpaque(fresh_name("onconnect_future")))[1])
    reg.external("txaio.add_callbacks", lambda ex, state, args, kwargs, sv: VNone)
    models.CLASS_MODELS["ConnectionResponse"] = lambda ex, state, args, kwargs: VOpaque(fresh_name("response"))
    reg.shape("HsTimer", fields={}, methods={"cancel": "hs.cancel"})
    reg.shape("HsBatched", fields={}, methods={"call_later": "hs.call_later"})
    reg.shape("CliFactory", fields={"isServer": "const:False", "protocols": "list:str", "_batched_timer": "obj:HsBatched"})
    reg.shape("HsClient", cls=CLI, fields={
        "log": "logger", "data": "bytes", "state": "range:0:4", "http_response_data": "bytes", "http_status_line": "str",
        "http_headers": "dict:str->str", "websocket_key": "bytes", "version": "int", "websocket_version": "int",
        "factory": "obj:CliFactory", "websocket_extensions_in_use": "any", "_perMessageCompress": "none",
        "websocket_protocol_in_use": "opt:str", "openHandshakeTimeoutCall": "opt:obj:HsTimer", "autoPingInterval": "real",
        "autoPingPendingCall": "any", "peer": "any", "inside_message": "bool", "current_frame": "any",
        "trackedTimings": "any", "is_open": "any", "wasNotCleanReason": "opt:str"},
        methods={"dropConnection": "hs.drop", "_onConnect": "noop", "_onOpen": "noop", "consumeData": "noop",
                 "_fail_connection": "noop", "_sendAutoPing": "noop"})
    reg.external("noop", lambda ex, state, args, kwargs, sv: VNone)
    KEYS = ["upgrade", "connection", "sec-websocket-accept", "sec-websocket-protocol", "sec-websocket-extensions"]
    reg.contract(P + ":parseHttpHeader", params={"data": "bytes"}, returns="tuple:str,dict:str->str,dict:str->int",
                 ensures=["('%s' in result[1]) == ('%s' in result[2]) and implies('%s' in result[2], result[2]['%s'] >= 1)"
                          % (k, k, k, k) for k in KEYS] + ["'sec-websocket-extensions' not in result[1]"],
                 verify=False, **common)
    reg.native_spec("strip", lambda ex, state, s_: ex.dist(state, [s_], lambda a: VStr(natives.str_fn(ex, state, "strip", a, []))))
    reg.native_spec("lower", lambda ex, state, s_: ex.dist(state, [s_], lambda a: VStr(natives.str_fn(ex, state, "lower", a, []))))
    CRLF2 = "b'\\r\\n\\r\\n'"
    END = "old(self.data).find(%s)" % CRLF2
    H = "self.http_headers"
    reg.contract(
        CLI + ".processHandshake", params={"self": "obj:HsClient"}, returns="any",
        requires=["self.state == 1", "len(self.websocket_key) == 24"],
        modifies=["self.*", "ghost.n_drop", "ghost.n_cancel", "ghost.n_onconnect", "ghost.n_timers", "HsTimer.*"],
        ensures=[
            # nothing happens before the header is complete, however the octets were segmented
            "implies(%s < 0, self.state == 1 and self.data == old(self.data) and ghost.n_drop == old(ghost.n_drop) and "
            "ghost.n_onconnect == old(ghost.n_onconnect))" % END,
            # a complete header either opens the connection or drops it -- never both, never neither
            "implies(%s >= 0, (self.state == 3) != (ghost.n_drop == old(ghost.n_drop) + 1))" % END,
            "implies(self.state != 3, self.state == 1 and ghost.n_onconnect == old(ghost.n_onconnect))",
            # what must have been true of the response whenever the connection is opened (RFC 6455 4.1):
            "implies(self.state == 3, 'upgrade' in %s and lower(strip(%s['upgrade'])) == 'websocket')" % (H, H),
            "implies(self.state == 3, 'sec-websocket-accept' in %s and "
            "strip(%s['sec-websocket-accept']) == accept_digest(self.websocket_key))" % (H, H),
            "implies(self.state == 3, self.websocket_protocol_in_use is None or "
            "self.websocket_protocol_in_use in self.factory.protocols)",
            # the octets that follow the handshake are kept for the frame decoder, exactly
            "implies(self.state == 3, self.data == old(self.data)[%s + 4:])" % END,
            "implies(self.state == 3, ghost.n_onconnect == old(ghost.n_onconnect) + 1 and "
            "self.openHandshakeTimeoutCall is None)"],
        loops={"target:c": {"index": "_i", "invariant": ["not connectionUpgrade"], "modifies": [], "pure_calls": True}},
        inline_calls=[CLI + ".failHandshake"], **common)


def _magic():
    return z3.Concat(*[z3.Unit(z3.IntVal(b)) for b in MAGIC])


def extra_checks(tier, seed):
    return []


# ------------------------------------------------------------------------------------------ replay on the real code
_HARNESS = r'''
import json, base64, hashlib
import txaio; txaio.use_asyncio()
from autobahn.websocket import protocol as P
from autobahn.wamp.types import TransportDetails

class T:
    def __init__(self): self.w = []; self.aborted = False; self.closed = False
    def write(self, d): self.w.append(bytes(d))
    def abort(self): self.aborted = True
    def close(self): self.closed = True
    def get_extra_info(self, *a, **k): return None

def client():
    f = P.WebSocketClientFactory("ws://localhost:9000/x", protocols=["p1", "p2"])
    f.log = txaio.make_logger()
    class C(P.WebSocketClientProtocol):
        def _onConnect(self, response): return None
        def _onOpen(self): pass
        def _onClose(self, *a): pass
        def unregisterProducer(self): pass
        def _closeConnection(self, abort=False):
            if abort: self.transport.abort()
            else: self.transport.close()
    p = C(); p.log = txaio.make_logger()
    p.factory = f; p.transport = T(); p._transport_details = TransportDetails()
    p._connectionMade()
    p.websocket_key = base64.b64encode(b"0123456789abcdef")
    p.state = p.STATE_CONNECTING
    return p

def accept(key):
    return base64.b64encode(hashlib.sha1(key + b"258EAFA5-E914-47DA-95CA-C5AB0DC85B11").digest()).decode()

GOOD = ("HTTP/1.1 101 Switching Protocols\r\nUpgrade: websocket\r\nConnection: Upgrade\r\n"
        "Sec-WebSocket-Accept: %s\r\n%s\r\n")
cases = []
k = base64.b64encode(b"0123456789abcdef")
cases.append(("valid", (GOOD % (accept(k), "")).encode(), True))
cases.append(("valid+subprotocol", (GOOD % (accept(k), "Sec-WebSocket-Protocol: p2\r\n")).encode(), True))
cases.append(("unrequested subprotocol", (GOOD % (accept(k), "Sec-WebSocket-Protocol: zz\r\n")).encode(), False))
cases.append(("wrong digest", (GOOD % (accept(b"x" * 24), "")).encode(), False))
cases.append(("status 200", (GOOD % (accept(k), "")).replace("101", "200").encode(), False))
cases.append(("no upgrade header", (GOOD % (accept(k), "")).replace("Upgrade: websocket\r\n", "").encode(), False))
cases.append(("non-UTF-8 octets", b"HTTP/1.1 101 \xff\xfe\r\nUpgrade: websocket\r\n\r\n", False))
cases.append(("non-UTF-8 header value", (GOOD % (accept(k), "X-Note: caf\xe9\r\n")).encode("latin-1"), True))
cases.append(("garbage", b"\x00\x01\x02\r\n\r\n", False))
cases.append(("bad status code", b"HTTP/1.1 abc OK\r\n\r\n", False))
bad = []
for name, data, should_open in cases:
    for cut in sorted({len(data), 1, len(data) // 2, len(data) - 1}):
        p = client()
        try:
            p.data = data[:cut]; p.processHandshake()
            if cut < len(data):
                p.data += data[cut:]; p.processHandshake()
        except Exception as e:
            bad.append({"case": name, "cut": cut, "escaped": "%s: %s" % (type(e).__name__, e)}); break
        opened = p.state == p.STATE_OPEN
        if opened != should_open:
            bad.append({"case": name, "cut": cut, "opened": opened, "expected": should_open}); break
        if not opened and not (p.transport.aborted or p.transport.closed):
            bad.append({"case": name, "cut": cut, "problem": "rejected but the connection was not dropped"}); break
print(json.dumps({"bad": bad}))
'''


def replay(o):
    from pyvc import replaylib as Rp
    unit = o.get("unit") or o.get("name", "")
    if "WebSocketClientProtocol.processHandshake" not in unit:
        return {"reproduced": False, "detail": "no replay harness for this unit"}
    out = Rp.run_py(_HARNESS, timeout=120)
    hits = out.get("bad") if isinstance(out, dict) else None
    return {"reproduced": bool(hits), "cases": (hits or [])[:3], "observed": None if hits else out,
            "detail": "handshake responses (valid, each single defect, undecodable octets), each under several read "
                      "boundaries, against the real client protocol (finds real failing inputs only; proves nothing)"}
