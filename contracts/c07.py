"""C07 — The opening handshake admits exactly the valid peers and never crashes (both processHandshake functions).

HTTP text handling is modelled soundly but coarsely: strip / lower / split are functions of their arguments about which
only length facts are known (pyvc.natives.str_split), SHA-1 and base64 are uninterpreted.  That is enough to prove the
*necessary* conditions of a completed handshake (what must have been true of the response whenever the connection is
opened) and that no exception escapes; it cannot prove that every valid response is accepted.
"""
import z3

from pyvc.values import *  # noqa
from pyvc.engine import HObj

ASSUMPTIONS = [
    "parseHttpHeader returns (status line, headers, header counts) with counts >= 1 for exactly the present headers "
    "(its own body -- splitlines / find / strip over latin-1 text -- is not under contract)",
    "str.strip / lower / split / join / format are functions of their arguments; only length facts of split are known",
    "SHA-1 and base64 are uninterpreted functions (the digest is the RFC 6455 expression over them)",
    "the response carries no Sec-WebSocket-Extensions header in this unit (extension handling: C12)",
    "user callbacks (_onConnect through txaio.as_future) do not run synchronously inside the unit",
]
LEVEL = "other"
NOT_COVERED = ["sufficiency: that every RFC-valid request / response is accepted (text functions are over-approximated)",
               "wildcards2patterns (regular expressions built with str.replace chains)",
               "succeedHandshake (response construction), request construction (_actuallyStartHandshake, parse_url / "
               "create_url)", "parseHttpHeader itself", "Sec-WebSocket-Extensions handling (C12)",
               "X-Forwarded-For handling, the Flash policy branch"]
P = "autobahn.websocket.protocol"
CLI = P + ":WebSocketClientProtocol"
sha1_f = z3.Function("sha1", BytesSort, BytesSort)
b64_f = z3.Function("b64encode", BytesSort, BytesSort)
MAGIC = b"258EAFA5-E914-47DA-95CA-C5AB0DC85B11"


def _g(state):
    return state.heap[state.ghost.oid]


def m_sha1(ex, state, args, kwargs):
    o = HObj("inst", None, "Sha1")
    o.fields["buf"] = VBytes(b"")
    return state.alloc(o)


def ext_sha1_update(ex, state, args, kwargs, sv):
    o = state.heap[sv.oid]
    o.fields["buf"] = VBytes(z3.Concat(o.fields["buf"].t, args[0].t))
    return VNone


def ext_sha1_digest(ex, state, args, kwargs, sv):
    return VBytes(sha1_f(state.heap[sv.oid].fields["buf"].t))


def build(reg):
    common = dict(props=["C07"], spec_module="specs.c07")
    from pyvc import models, natives
    reg.shape("Ghost", ghost=True, fields={"n_drop": "nat", "n_cancel": "nat", "n_onconnect": "nat", "n_timers": "nat"})
    reg.shape("Sha1", fields={"buf": "bytes"}, methods={"update": "sha1.update", "digest": "sha1.digest"})
    reg.external("sha1.update", ext_sha1_update)
    reg.external("sha1.digest", ext_sha1_digest)
    models.CLASS_MODELS["hashlib.sha1"] = m_sha1
    models.EXTERNAL_CLASSES.add("hashlib.sha1")
    def ext_b64encode(ex, state, args, kwargs, sv):
        r = b64_f(args[0].t)
        state.assume(natives.utf8_valid(r))         # base64 text is ASCII
        return VBytes(r)
    reg.external("base64.b64encode", ext_b64encode)
    reg.native_spec("accept_digest", lambda ex, state, key: VStr(natives.utf8_decode(
        b64_f(sha1_f(z3.Concat(key.t, _magic()))))))

    def bump(field):
        def f(ex, state, args, kwargs, sv):
            g = _g(state)
            g.fields[field] = VInt(simp(g.fields[field].t + 1))
            return VNone
        return f
    reg.external("hs.drop", bump("n_drop"))
    reg.external("hs.cancel", bump("n_cancel"))
    def ext_hs_call_later(ex, state, args, kwargs, sv):
        """call_later(delay, fn): a fresh handle remembering the delay and which callback it will run"""
        bump("n_timers")(ex, state, args, kwargs, sv)
        r = ex.reg.fresh_obj(ex, state, "HsTimer", "timer")
        o = state.heap[r.oid]
        d = args[0]
        o.fields["delay"] = d if isinstance(d, VReal) else VReal(z3.ToReal(ex.num(d)))
        o.fields["kind"] = VInt({"_sendAutoPing": 5, "onOpenHandshakeTimeout": 1}.get(getattr(args[1], "name", None), 0))
        return r
    reg.external("hs.call_later", ext_hs_call_later)
    reg.external("txaio.as_future", lambda ex, state, args, kwargs, sv: (bump("n_onconnect")(ex, state, args, kwargs, sv),
                                                                         VOpaque(fresh_name("onconnect_future")))[1])
    reg.external("txaio.add_callbacks", lambda ex, state, args, kwargs, sv: VNone)
    models.CLASS_MODELS["ConnectionResponse"] = lambda ex, state, args, kwargs: VOpaque(fresh_name("response"))
    reg.shape("HsTimer", fields={"delay": "real", "kind": "int"}, methods={"cancel": "hs.cancel"})
    reg.shape("HsBatched", fields={}, methods={"call_later": "hs.call_later"})
    reg.shape("CliFactory", fields={"isServer": "const:False", "protocols": "list:str", "_batched_timer": "obj:HsBatched"})
    reg.shape("HsClient", cls=CLI, fields={
        "log": "logger", "data": "bytes", "state": "range:0:4", "http_response_data": "bytes", "http_status_line": "str",
        "http_headers": "dict:str->str", "websocket_key": "bytes", "version": "int", "websocket_version": "int",
        "factory": "obj:CliFactory", "websocket_extensions_in_use": "any", "_perMessageCompress": "none",
        "websocket_protocol_in_use": "opt:str", "openHandshakeTimeoutCall": "opt:obj:HsTimer", "autoPingInterval": "real",
        "autoPingTimeout": "real", "openHandshakeTimeout": "real", "closeHandshakeTimeout": "real",
        "autoPingPendingCall": "opt:obj:HsTimer", "peer": "any", "inside_message": "bool", "current_frame": "any",
        "trackedTimings": "any", "is_open": "any", "wasNotCleanReason": "opt:str"},
        methods={"dropConnection": "hs.drop", "_onConnect": "noop", "_onOpen": "noop", "consumeData": "noop",
                 "_fail_connection": "noop"})
    reg.external("noop", lambda ex, state, args, kwargs, sv: VNone)
    KEYS = ["upgrade", "connection", "sec-websocket-accept", "sec-websocket-protocol", "sec-websocket-extensions"]
    reg.contract(P + ":parseHttpHeader", params={"data": "bytes"}, returns="tuple:str,dict:str->str,dict:str->int",
                 ensures=["('%s' in result[1]) == ('%s' in result[2]) and implies('%s' in result[2], result[2]['%s'] >= 1)"
                          % (k, k, k, k) for k in KEYS] + ["'sec-websocket-extensions' not in result[1]"],
                 verify=False, **common)
    reg.native_spec("strip", lambda ex, state, s_: ex.dist(state, [s_], lambda a: VStr(natives.str_fn(ex, state, "strip", a, []))))
    reg.native_spec("lower", lambda ex, state, s_: ex.dist(state, [s_], lambda a: VStr(natives.str_fn(ex, state, "lower", a, []))))
    CRLF2 = "b'\\r\\n\\r\\n'"
    END = "old(self.data).find(%s)" % CRLF2
    H = "self.http_headers"
    reg.contract(
        CLI + ".processHandshake", params={"self": "obj:HsClient"}, returns="any",
        requires=["self.state == 1", "len(self.websocket_key) == 24"],
        modifies=["self.*", "ghost.n_drop", "ghost.n_cancel", "ghost.n_onconnect", "ghost.n_timers", "HsTimer.*",
                  "ghost.rx_host", "ghost.rx_upgrade", "ghost.rx_connection", "ghost.rx_sec_websocket_key",
                  "ghost.rx_sec_websocket_version"],
        ensures=[
            # nothing happens before the header is complete, however the octets were segmented
            "implies(%s < 0, self.state == 1 and self.data == old(self.data) and ghost.n_drop == old(ghost.n_drop) and "
            "ghost.n_onconnect == old(ghost.n_onconnect))" % END,
            # a complete header either opens the connection or drops it -- never both, never neither
            "implies(%s >= 0, (self.state == 3) != (ghost.n_drop == old(ghost.n_drop) + 1))" % END,
            "implies(self.state != 3, self.state == 1 and ghost.n_onconnect == old(ghost.n_onconnect))",
            # what must have been true of the response whenever the connection is opened (RFC 6455 4.1):
            "implies(self.state == 3, 'upgrade' in %s and lower(strip(%s['upgrade'])) == 'websocket')" % (H, H),
            "implies(self.state == 3, 'sec-websocket-accept' in %s and "
            "strip(%s['sec-websocket-accept']) == accept_digest(self.websocket_key))" % (H, H),
            "implies(self.state == 3, self.websocket_protocol_in_use is None or "
            "self.websocket_protocol_in_use in self.factory.protocols)",
            # the octets that follow the handshake are kept for the frame decoder, exactly
            "implies(self.state == 3, self.data == old(self.data)[%s + 4:])" % END,
            "implies(self.state == 3, ghost.n_onconnect == old(ghost.n_onconnect) + 1 and "
            "self.openHandshakeTimeoutCall is None)",
            # (C17) once open, automatic pings are scheduled with the configured interval -- exactly when they are configured
            "implies(self.state == 3 and self.autoPingInterval != 0, self.autoPingPendingCall is not None and "
            "self.autoPingPendingCall.delay == self.autoPingInterval and self.autoPingPendingCall.kind == 5)",
            "implies(self.state == 3 and self.autoPingInterval == 0, self.autoPingPendingCall is old(self.autoPingPendingCall))"],
        loops={"target:c": {"index": "_i", "invariant": ["not connectionUpgrade"], "modifies": [], "pure_calls": True}},
        inline_calls=[CLI + ".failHandshake"], **common)

    build_server(reg, common)


def build_server(reg, common):
    """server side: WebSocketServerProtocol.processHandshake up to the point where onConnect is scheduled"""
    from pyvc import models, natives
    SRV = P + ":WebSocketServerProtocol"
    G = reg.shapes["Ghost"].fields
    G.update({"n_fail": "nat", "fail_code": "int", "n_status": "nat"})

    def bump(field):
        def f(ex, state, args, kwargs, sv):
            g = _g(state)
            g.fields[field] = VInt(simp(g.fields[field].t + 1))
            return VNone
        return f
    reg.external("hs.status", bump("n_status"))
    reg.external("hs.as_future", lambda ex, state, args, kwargs, sv: (bump("n_onconnect")(ex, state, args, kwargs, sv),
                                                                      VOpaque(fresh_name("onconnect_future")))[1])
    models.CLASS_MODELS["ConnectionRequest"] = lambda ex, state, args, kwargs: VOpaque(fresh_name("request"))
    reg.shape("SrvFactory", fields={"isServer": "const:True", "externalPort": "opt:int", "port": "int", "isSecure": "bool",
                                    "allowNullOrigin": "bool", "countConnections": "nat"})
    reg.shape("HsServer", cls=SRV, fields={
        "log": "logger", "data": "bytes", "state": "range:0:4", "http_request_data": "bytes", "http_status_line": "str",
        "http_headers": "dict:str->str", "http_request_uri": "str", "http_request_path": "any", "http_request_params": "any",
        "http_request_host": "str", "factory": "obj:SrvFactory", "trustXForwardedFor": "nat", "peer": "any",
        "webStatus": "bool", "versions": "list:int", "websocket_version": "int", "websocket_protocols": "any",
        "websocket_origin": "str", "allowedOriginsPatterns": "any", "websocket_extensions": "any", "_wskey": "opt:str",
        "maxConnections": "nat", "serveFlashSocketPolicy": "bool", "flashSocketPolicy": "str",
        "wasServingFlashSocketPolicyFile": "bool", "wasNotCleanReason": "opt:str"},
        methods={"dropConnection": "hs.drop", "sendServerStatus": "hs.status", "sendRedirect": "hs.status",
                 "sendHtml": "hs.status", "sendData": "noop", "onConnect": "noop", "succeedHandshake": "noop",
                 "sendHttpErrorResponse": "noop", "_parseExtensionsHeader": "hs.parse_ext"})
    reg.external("hs.parse_ext", lambda ex, state, args, kwargs, sv: VOpaque(fresh_name("extensions")))

    def ext_http_error(ex, state, args, kwargs, sv):
        g = _g(state)
        g.fields["n_fail"] = VInt(simp(g.fields["n_fail"].t + 1))
        g.fields["fail_code"] = args[0]
        return VNone
    reg.external("hs.http_error", ext_http_error)
    reg.shapes["HsServer"].methods["sendHttpErrorResponse"] = "hs.http_error"
    reg.external("txaio.as_future", reg.externals["hs.as_future"])
    reg.contract(P + ":_url_to_origin", params={"url": "str"}, returns="any", raises={"ValueError": "True"}, verify=False,
                 **common)
    reg.contract(P + ":_is_same_origin", params={"websocket_origin": "any", "host_scheme": "str", "host_port": "any",
                                                 "host_policy": "any"}, returns="bool", verify=False, **common)
    build_origin(reg, common)
    reg.external("urllib.parse.urlparse", lambda ex, state, args, kwargs, sv: (
        ex.raise_if(state, z3.Bool(fresh_name("urlparse_raises")), "ValueError"),
        VTuple([VStr(z3.String(fresh_name("url_" + n))) for n in ("scheme", "netloc", "path", "params", "query", "fragment")]))[1])
    reg.external("urllib.parse.parse_qs", lambda ex, state, args, kwargs, sv: ex.reg.fresh(ex, state, "dict:str->seq:str", "query"))
    # hyperlink (third party): from_text raises URLParseError (a ValueError) for text it cannot parse
    reg.shape("HUrl", fields={}, methods={"to_uri": "hurl.same", "normalize": "hurl.same", "to_text": "hurl.text"})
    reg.external("hurl.same", lambda ex, state, args, kwargs, sv: sv)
    reg.external("hurl.text", lambda ex, state, args, kwargs, sv: VStr(z3.String(fresh_name("url_text"))))
    reg.external("hyperlink.URL.from_text", lambda ex, state, args, kwargs, sv: (
        ex.raise_if(state, z3.Bool(fresh_name("url_from_text_raises")), "ValueError"),
        ex.reg.fresh_obj(ex, state, "HUrl", "url"))[1])
    CRLF2 = "b'\\r\\n\\r\\n'"
    END = "old(self.data).find(%s)" % CRLF2
    H = "self.http_headers"
    KEYS = ["host", "upgrade", "connection", "sec-websocket-version", "sec-websocket-protocol", "origin",
            "sec-websocket-origin", "sec-websocket-key", "sec-websocket-extensions", "x-forwarded-for"]
    reg.contracts.pop(P + ":parseHttpHeader", None)
    reg.contract(P + ":parseHttpHeader", params={"data": "bytes"}, returns="tuple:str,dict:str->str,dict:str->int",
                 ensures=["('%s' in result[1]) == ('%s' in result[2]) and implies('%s' in result[2], result[2]['%s'] >= 1)"
                          % (k, k, k, k) for k in KEYS + ["sec-websocket-accept"]]
                 + ["'sec-websocket-extensions' not in result[1]"],
                 verify=False, **common)
    def ext_parse_http(ex, state, args, kwargs, sv):
        """assumed: (status line, headers, counts) with counts >= 1 for exactly the present headers; which of the
        handshake-relevant headers the *received* header block carries is remembered in ghost state"""
        hdr = ex.reg.fresh(ex, state, "dict:str->str", "headers")
        cnt = ex.reg.fresh(ex, state, "dict:str->int", "header_counts")
        ho, co = state.heap[hdr.oid], state.heap[cnt.oid]
        g = _g(state)
        for k in KEYS + ["sec-websocket-accept"]:
            kk = z3.StringVal(k)
            state.assume(z3.Select(ho.sym["has"], kk) == z3.Select(co.sym["has"], kk))
            state.assume(z3.Implies(z3.Select(co.sym["has"], kk), z3.Select(co.sym["val"], kk) >= 1))
        state.assume(z3.Not(z3.Select(ho.sym["has"], z3.StringVal("sec-websocket-extensions"))))
        for k in ("host", "upgrade", "connection", "sec-websocket-key", "sec-websocket-version"):
            g.fields["rx_" + k.replace("-", "_")] = VBool(z3.Select(ho.sym["has"], z3.StringVal(k)))
        return VTuple([VStr(z3.String(fresh_name("status_line"))), hdr, cnt])
    reg.external("hs.parse_http", ext_parse_http)
    reg.overrides[(P, "parseHttpHeader")] = VFunc("builtin", "hs.parse_http")
    G.update({"rx_host": "bool", "rx_upgrade": "bool", "rx_connection": "bool", "rx_sec_websocket_key": "bool",
              "rx_sec_websocket_version": "bool"})
    SRV_OK = "(ghost.n_onconnect == old(ghost.n_onconnect) + 1)"
    reg.contract(
        SRV + ".processHandshake", params={"self": "obj:HsServer"}, returns="any",
        requires=["self.state == 1", "not self.serveFlashSocketPolicy", "self.trustXForwardedFor == 0"],
        modifies=["self.*", "ghost.n_drop", "ghost.n_onconnect", "ghost.n_fail", "ghost.fail_code", "ghost.n_status",
                  "ghost.rx_host", "ghost.rx_upgrade", "ghost.rx_connection", "ghost.rx_sec_websocket_key",
                  "ghost.rx_sec_websocket_version"],
        ensures=[
            "implies(%s < 0, self.data == old(self.data) and ghost.n_drop == old(ghost.n_drop) and "
            "ghost.n_onconnect == old(ghost.n_onconnect) and ghost.n_fail == old(ghost.n_fail))" % END,
            # a complete request is passed on to onConnect or answered with an HTTP error / status page and dropped
            "implies(%s >= 0, %s != (ghost.n_drop == old(ghost.n_drop) + 1))" % (END, SRV_OK),
            "ghost.n_onconnect <= old(ghost.n_onconnect) + 1 and ghost.n_drop <= old(ghost.n_drop) + 1",
            # what must have been true of the request whenever it is passed on (RFC 6455 4.2.1)
            "implies(%s, ghost.rx_host and ghost.rx_upgrade and ghost.rx_connection and ghost.rx_sec_websocket_key and "
            "ghost.rx_sec_websocket_version)" % SRV_OK,
            "implies(%s, self.websocket_version in self.versions)" % SRV_OK,
            "implies(%s, self._wskey is not None and len(self._wskey) == 24 and self._wskey.endswith('=='))" % SRV_OK,
            "implies(%s, self.data == old(self.data)[%s + 4:])" % (SRV_OK, END),
            "implies(%s, not (self.maxConnections > 0 and self.factory.countConnections > self.maxConnections))" % SRV_OK],
        loops={
            "iter:self.http_headers['upgrade'].split(',')": {"index": "_i", "invariant": ["not upgradeWebSocket"],
                                                             "modifies": [], "pure_calls": True},
            "iter:self.http_headers['connection'].split(',')": {"index": "_i", "invariant": ["not connectionUpgrade"],
                                                                "modifies": [], "pure_calls": True},
            "iter:protocols": {"index": "_i", "invariant": ["True"], "modifies": [], "pure_calls": True,
                               "vars": {"pp": "dict:str->int"}},
            "iter:key[:-2]": {"index": "_i", "invariant": ["True"], "modifies": [], "pure_calls": True}},
        inline_calls=[SRV + ".failHandshake"], **common)


def _magic():
    return z3.Concat(*[z3.Unit(z3.IntVal(b)) for b in MAGIC])


def build_origin(reg, common):
    """the origin policy functions themselves: _url_to_origin keeps exactly the scheme / host / port of the Origin URL
    (a port given explicitly -- any value, 0 included -- is never replaced by the scheme's default); _is_same_origin
    accepts exactly when one of the configured patterns matches the whole reconstituted origin scheme://host:port"""
    reg.shape("SplitResult", fields={"scheme": "str", "hostname": "opt:str", "port": "opt:int"})
    G = reg.shapes["Ghost"].fields
    G.update({"split": "obj:SplitResult"})

    def ext_urlsplit(ex, state, args, kwargs, sv):
        ex.raise_if(state, z3.Bool(fresh_name("urlsplit_raises")), "ValueError")       # (also stands for .port raising)
        r = ex.reg.fresh_obj(ex, state, "SplitResult", "split")
        _g(state).fields["split"] = r
        return r
    reg.external("urllib.parse.urlsplit", ext_urlsplit)
    reg.overrides[(P, "parse")] = VModule("urllib.parse")
    DEF = "(443 if ghost.split.scheme.lower() == 'https' else (80 if ghost.split.scheme.lower() == 'http' else None))"
    reg.contract(
        P + ":_url_to_origin", name=P + ":_url_to_origin[policy]", params={"url": "str"}, returns="any",
        modifies=["ghost.split"],
        ensures=[
            "result == 'null' or (isinstance(result, tuple) and len(result) == 3)",
            "implies(url.lower() == 'null', result == 'null')",
            "implies(result != 'null', result[0] == ghost.split.scheme.lower() and result[1] == ghost.split.hostname and "
            "ghost.split.hostname is not None and len(ghost.split.hostname) > 0)",
            # the port of the origin is the one given in the URL whenever one is given; the scheme's default otherwise
            "implies(result != 'null' and ghost.split.port is not None, result[2] == ghost.split.port)",
            "implies(result != 'null' and ghost.split.port is None, result[2] is %s)" % DEF,
            "implies(url.lower() != 'null' and ghost.split.scheme.lower() == 'file', result == 'null')",
        ],
        raises={"ValueError": "True"}, props=["C07"], spec_module="specs.c07")

    # compiled patterns are opaque identities; pattern.match(text) is an uninterpreted predicate of (pattern, text)
    match_f = z3.Function("re_matches", z3.IntSort(), z3.StringSort(), z3.BoolSort())

    def ext_match(ex, state, args, kwargs, sv):
        hit = match_f(sv.t, args[0].t)
        return mk_union([(hit, VOpaque(fresh_name("match_object"), truthy=True) if False else VInt(1)), (z3.Not(hit), VNone)])
    reg.external("pattern.match", ext_match)
    reg.shape("Pattern", fields={}, methods={"match": "pattern.match"})
    reg.native_spec("re_matches", lambda ex, state, p_, t: VBool(match_f(p_.t, t.t)))
    ORIGIN = "origin_text(websocket_origin)"

    def origin_text(ex, state, w):
        """scheme://host:port of an origin triple (port None prints as 'None', as str.format does)"""
        res = []
        for g, a in alts_of(w):
            if isinstance(a, VTuple) and len(a.items) == 3:
                pt = []
                for g2, p_ in alts_of(a.items[2]):
                    pt.append((g2, z3.StringVal("None") if isinstance(p_, VNoneT) else
                               z3.If(p_.t >= 0, z3.IntToStr(p_.t), z3.Concat(z3.StringVal("-"), z3.IntToStr(-p_.t)))))
                t = pt[-1][1]
                for g2, x in reversed(pt[:-1]):
                    t = z3.If(g2, x, t)
                res.append((g, z3.Concat(a.items[0].t, z3.StringVal("://"), a.items[1].t, z3.StringVal(":"), t)))
            else:
                res.append((g, z3.StringVal("")))
        t = res[-1][1]
        for g, x in reversed(res[:-1]):
            t = z3.If(g, x, t)
        return VStr(t)
    reg.native_spec("origin_text", origin_text)
    reg.contract(
        P + ":_is_same_origin", name=P + ":_is_same_origin[policy]",
        params={"websocket_origin": "const:'null'|tuple:str,str,opt:int", "host_scheme": "str", "host_port": "any",
                "host_policy": "list:sym:Pattern"}, returns="bool",
        ensures=[
            # nothing is the same as the null origin
            "implies(websocket_origin == 'null', result is False)",
            # otherwise: exactly when some configured pattern matches the whole origin scheme://host:port
            "implies(websocket_origin != 'null', result == exists(j, 0, len(host_policy), re_matches(host_policy[j], %s)))"
            % ORIGIN],
        loops={0: {"index": "_i", "invariant": [
            "0 <= _i <= len(host_policy)", "origin_header == %s" % ORIGIN,
            "forall(j, 0, _i, not re_matches(host_policy[j], origin_header))"],
            "vars": {"origin_pattern": "sym:Pattern"}, "pure_calls": True}},
        props=["C07"], spec_module="specs.c07")


def extra_checks(tier, seed):
    if tier != "thorough":
        return []
    from pyvc import replaylib as Rp
    return [Rp.native_crosscheck("C07/bounded/handshake-boundary-cases", _HARNESS,
                                 "valid / single-defect / undecodable requests and responses, each under four read boundaries, both roles")]


# ------------------------------------------------------------------------------------------ replay on the real code
_HARNESS = r'''
import json, base64, hashlib
import txaio; txaio.use_asyncio()
from autobahn.websocket import protocol as P
from autobahn.wamp.types import TransportDetails

class T:
    def __init__(self): self.w = []; self.aborted = False; self.closed = False
    def write(self, d): self.w.append(bytes(d))
    def abort(self): self.aborted = True
    def close(self): self.closed = True
    def get_extra_info(self, *a, **k): return None

def client(protocols=("p1", "p2")):
    f = P.WebSocketClientFactory("ws://localhost:9000/x", protocols=list(protocols))
    f.log = txaio.make_logger()
    class C(P.WebSocketClientProtocol):
        def _onConnect(self, response): return None
        def _onOpen(self): pass
        def _onClose(self, *a): pass
        def unregisterProducer(self): pass
        def _closeConnection(self, abort=False):
            if abort: self.transport.abort()
            else: self.transport.close()
    p = C(); p.log = txaio.make_logger()
    p.factory = f; p.transport = T(); p._transport_details = TransportDetails()
    p._connectionMade()
    class Timer:
        def cancel(self): pass
    p.openHandshakeTimeoutCall = Timer()
    p.websocket_key = base64.b64encode(b"0123456789abcdef")
    p.state = p.STATE_CONNECTING
    return p

def accept(key):
    return base64.b64encode(hashlib.sha1(key + b"258EAFA5-E914-47DA-95CA-C5AB0DC85B11").digest()).decode()

GOOD = ("HTTP/1.1 101 Switching Protocols\r\nUpgrade: websocket\r\nConnection: Upgrade\r\n"
        "Sec-WebSocket-Accept: %s\r\n%s\r\n")
cases = []
k = base64.b64encode(b"0123456789abcdef")
cases.append(("valid", (GOOD % (accept(k), "")).encode(), True))
cases.append(("valid+subprotocol", (GOOD % (accept(k), "Sec-WebSocket-Protocol: p2\r\n")).encode(), True))
cases.append(("unrequested subprotocol", (GOOD % (accept(k), "Sec-WebSocket-Protocol: zz\r\n")).encode(), False))
cases.append(("wrong digest", (GOOD % (accept(b"x" * 24), "")).encode(), False))
cases.append(("status 200", (GOOD % (accept(k), "")).replace("101", "200").encode(), False))
cases.append(("no upgrade header", (GOOD % (accept(k), "")).replace("Upgrade: websocket\r\n", "").encode(), False))
cases.append(("non-UTF-8 octets", b"HTTP/1.1 101 \xff\xfe\r\nUpgrade: websocket\r\n\r\n", False))
cases.append(("non-UTF-8 header value", (GOOD % (accept(k), "X-Note: caf\xe9\r\n")).encode("latin-1"), True))
cases.append(("garbage", b"\x00\x01\x02\r\n\r\n", False))
cases.append(("bad status code", b"HTTP/1.1 abc OK\r\n\r\n", False))
cases.append(("subprotocol selected, none announced", (GOOD % (accept(k), "Sec-WebSocket-Protocol: p1\r\n")).encode(), False, ()))
cases.append(("valid, none announced", (GOOD % (accept(k), "")).encode(), True, ()))
cases.append(("first of two announced", (GOOD % (accept(k), "Sec-WebSocket-Protocol: p1\r\n")).encode(), True))
bad = []
# once open, automatic pings are scheduled with the configured interval (and not at all when switched off)
class RecTimer:
    def __init__(self): self.calls = []
    def call_later(self, delay, fn, *a, **k):
        self.calls.append((delay, getattr(fn, "__name__", str(fn))))
        class H:
            def cancel(s): pass
        return H()
for interval, timeout in ((0, 5), (7, 3), (2.5, 0), (4, 4)):
    p = client()
    rec = RecTimer(); p.factory._batched_timer = rec
    p.autoPingInterval, p.autoPingTimeout = interval, timeout
    data = (GOOD % (accept(k), "")).encode()
    try:
        p.data = data; p.processHandshake()
    except Exception as e:
        bad.append({"case": "autoping arming", "side": "client", "escaped": repr(e)}); continue
    pings = [c for c in rec.calls if c[1] == "_sendAutoPing"]
    want = [(interval, "_sendAutoPing")] if interval else []
    if p.state == p.STATE_OPEN and pings != want:
        bad.append({"case": "autoping arming", "side": "client", "autoPingInterval": interval, "autoPingTimeout": timeout,
                    "scheduled": pings, "expected": want})
for name, data, should_open, *conf in cases:
    for cut in sorted({len(data), 1, len(data) // 2, len(data) - 1}):
        p = client(*conf)
        try:
            p.data = data[:cut]; p.processHandshake()
            if cut < len(data):
                p.data += data[cut:]; p.processHandshake()
        except Exception as e:
            bad.append({"case": name, "cut": cut, "escaped": "%s: %s" % (type(e).__name__, e)}); break
        opened = p.state == p.STATE_OPEN
        if opened != should_open:
            bad.append({"case": name, "cut": cut, "opened": opened, "expected": should_open}); break
        if not opened and not (p.transport.aborted or p.transport.closed):
            bad.append({"case": name, "cut": cut, "problem": "rejected but the connection was not dropped"}); break
        if opened and p.openHandshakeTimeoutCall is not None:
            bad.append({"case": name, "cut": cut, "problem": "open-handshake timer still referenced after the handshake"}); break

# ---- server side
def server():
    f = P.WebSocketServerFactory("ws://localhost:9000"); f.log = txaio.make_logger()
    class S(P.WebSocketServerProtocol):
        scheduled = 0
        def onConnect(self, request):
            S.scheduled += 1
            return None
        def unregisterProducer(self): pass
        def _closeConnection(self, abort=False):
            if abort: self.transport.abort()
            else: self.transport.close()
    p = S(); p.log = txaio.make_logger(); p.factory = f; p.transport = T(); p._transport_details = TransportDetails()
    p._connectionMade(); p.state = p.STATE_CONNECTING
    p._S = S
    return p

REQ = ("GET /x HTTP/1.1\r\nHost: localhost:9000\r\nUpgrade: websocket\r\nConnection: Upgrade\r\n"
       "Sec-WebSocket-Key: %s\r\nSec-WebSocket-Version: %s\r\n%s\r\n")
KEY = base64.b64encode(b"0123456789abcdef").decode()
scases = [("valid", (REQ % (KEY, "13", "")).encode(), True),
          ("short key", (REQ % (KEY[:-4] + "==", "13", "")).encode(), False),
          ("key not base64", (REQ % ("!" * 22 + "==", "13", "")).encode(), False),
          ("version 99", (REQ % (KEY, "99", "")).encode(), False),
          ("version abc", (REQ % (KEY, "abc", "")).encode(), False),
          ("POST", (REQ % (KEY, "13", "")).replace("GET", "POST").encode(), False),
          ("no host", (REQ % (KEY, "13", "")).replace("Host: localhost:9000\r\n", "").encode(), False),
          ("bad host port", (REQ % (KEY, "13", "")).replace("localhost:9000", "localhost:abc").encode(), False),
          ("status page, after=abc", b"GET /?redirect=http%3A%2F%2Fx.y&after=abc HTTP/1.1\r\nHost: localhost:9000\r\n\r\n", False),
          ("status page, bad redirect", b"GET /?redirect=http%3A%2F%2Fx.y%3Aabc HTTP/1.1\r\nHost: localhost:9000\r\n\r\n", False),
          ("garbage", b"\x00\xff\xfe garbage\r\n\r\n", False),
          ("valid + pipelined frame octets", (REQ % (KEY, "13", "")).encode() + b"\x81\x85abcd", True),
          ("connection limit reached", (REQ % (KEY, "13", "")).encode(), ("limit", 1, 3)),
          ("connection limit exceeded by one", (REQ % (KEY, "13", "")).encode(), ("limit", 1, 2)),
          ("connection limit exceeded by one (limit 5)", (REQ % (KEY, "13", "")).encode(), ("limit", 5, 6)),
          ("connection count at the limit", (REQ % (KEY, "13", "")).encode(), ("at-limit", 2, 2))]
for name, data, should_pass in scases:
    for cut in sorted({len(data), 1, len(data) // 2, len(data) - 1}):
        p = server(); before = p._S.scheduled
        if isinstance(should_pass, tuple):
            p.maxConnections = should_pass[1]; p.factory.countConnections = should_pass[2]
        expect = (should_pass[0] == "at-limit") if isinstance(should_pass, tuple) else should_pass
        try:
            p.data = data[:cut]; p.processHandshake()
            if cut < len(data):
                p.data += data[cut:]; p.processHandshake()
        except Exception as e:
            bad.append({"side": "server", "case": name, "cut": cut, "escaped": "%s: %s" % (type(e).__name__, e)}); break
        passed = p._S.scheduled == before + 1
        if passed and b"abcd" in data and bytes(p.data) != b"\x81\x85abcd":
            bad.append({"side": "server", "case": name, "cut": cut, "kept_for_decoder": list(bytes(p.data))}); break
        if passed != (expect is True):
            bad.append({"side": "server", "case": name, "cut": cut, "passed_on": passed, "expected": expect}); break
        if not passed and not (p.transport.aborted or p.transport.closed):
            bad.append({"side": "server", "case": name, "cut": cut, "problem": "refused but the connection was not dropped"}); break
print(json.dumps({"bad": bad}))
'''


_ORIGIN_HARNESS = r"""
import json, re
from urllib.parse import urlsplit
from autobahn.websocket.protocol import _url_to_origin, _is_same_origin
from autobahn.util import wildcards2patterns
bad, cases = [], 0
def chk(c, what, case):
    if not c and len(bad) < 6: bad.append({"what": what, "case": case})
DEFAULT = {"http": 80, "https": 443}
for scheme in ("http", "https", "HTTP", "ws", "chrome-extension", "file"):
    for host in ("www.example.com", "EXAMPLE.com", "10.0.0.1", "[::1]"):
        for port in (None, "0", "00", "1", "80", "443", "8080", "65535"):
            url = "%s://%s%s" % (scheme, host, "" if port is None else ":" + port)
            cases += 1
            try:
                got = _url_to_origin(url)
            except ValueError:
                got = "ValueError"
            ref = urlsplit(url)
            if scheme == "file": want = "null"
            else: want = (scheme.lower(), ref.hostname, int(port) if port is not None else DEFAULT.get(scheme.lower()))
            chk(got == want, "_url_to_origin(%r) = %r, the URL says %r" % (url, got, want), url)
for u in ("null", "NULL", "Null"):
    cases += 1; chk(_url_to_origin(u) == "null", "null origin not recognised", u)
# policy: accepted exactly when some pattern matches the whole scheme://host:port
POLICIES = [["*"], ["http://www.example.com:80"], ["https://*.example.com:443", "http://localhost:8080"], ["*://*.example.com:*"], []]
ORIGINS = [("http", "www.example.com", 80), ("http", "www.example.com", 0), ("http", "www.example.com", 8080), ("https", "a.example.com", 443),
           ("https", "a.example.com.evil.org", 443), ("http", "localhost", 8080), ("http", "xlocalhost", 8080), ("http", "localhost", 80801),
           ("ws", "b.example.com", None), "null"]
for pol in POLICIES:
    pats = wildcards2patterns(pol)
    for org in ORIGINS:
        cases += 1
        got = _is_same_origin(org, "http", 80, pats)
        if org == "null": want = False
        else:
            text = "%s://%s:%s" % org
            want = any(re.fullmatch(w.replace(".", r"\.").replace("*", ".*"), text) is not None for w in pol)
        chk(got == want, "_is_same_origin(%r) with %r = %r, expected %r" % (org, pol, got, want), [pol, org])
print(json.dumps({"bad": bad, "cases": cases}))
"""


def replay(o):
    from pyvc import replaylib as Rp
    unit = o.get("unit") or o.get("name", "")
    if "_url_to_origin" in unit or "_is_same_origin" in unit:
        out = Rp.run_py(_ORIGIN_HARNESS, timeout=120)
        bad = out.get("bad") if isinstance(out, dict) else None
        return {"reproduced": bool(bad), "cases": (bad or [])[:4], "observed": None if bad else out,
                "detail": "origin URLs with every port form (absent, 0, 00, default, explicit) and allow-lists, against "
                          "urllib / re.fullmatch as an independent reference"}
    if "processHandshake" not in unit:
        return {"reproduced": False, "detail": "no replay harness for this unit"}
    out = Rp.run_py(_HARNESS, timeout=120)
    side = "server" if "ServerProtocol" in unit else "client"
    hits = [b for b in (out.get("bad") or []) if b.get("side", "client") == side] if isinstance(out, dict) else None
    return {"reproduced": bool(hits), "cases": (hits or [])[:3], "observed": None if hits else out,
            "detail": "handshake responses (valid, each single defect, undecodable octets), each under several read "
                      "boundaries, against the real client protocol (finds real failing inputs only; proves nothing)"}
