"""C18 — Remote exceptions arrive with their URI, arguments and class.

Application values (positional and keyword arguments) are opaque identities (integers); sequences of them are
lists of identities and keyword arguments are tables str -> identity.  A user exception class is an opaque class
identity (integer) -- constructing one is an assumed primitive that records what it was constructed from or raises.
"""
import z3

from pyvc.values import *  # noqa
from pyvc.engine import HObj
from . import wamp_common as W
from .wamp_common import SESS, PR

ASSUMPTIONS = list(W.ASSUMPTIONS) + [
    "application values are opaque identities; equality of identities stands for 'the same value'",
    "calling a registered exception class (an opaque class identity) either raises an arbitrary Exception or returns an "
    "instance of exactly that class that records the positional / keyword arguments it was constructed from; the "
    "instance is truthy (a class defining __bool__/__len__ as falsy is outside the model)",
    "the payload codec is off here (self._payload_codec is None, msg.enc_algo is None): encrypted errors belong to C20",
    "BaseSession.define / the uri.error decorator store non-empty pattern lists (precondition of "
    "_message_from_exception); define() itself is not under contract",
]
MSG = "autobahn.wamp.message"
BASE = PR + ":BaseSession"
EXC = "autobahn.wamp.exception"


def ext_construct(ex, state, args, kwargs, sv):
    """ecls(*args, **kwargs) for a registered class identity"""
    ecls = args[0]
    rest = args[1:]
    g = state.heap[state.ghost.oid]
    g.fields["n_attempted"] = VInt(simp(g.fields["n_attempted"].t + 1))
    b = z3.Bool(fresh_name("ctor_raises"))
    rs = state.copy()
    rs.pending = []
    rs.assume(b)
    state.pending.append((rs, ex.mk_exc(rs, "Exception", exact=False)))
    state.assume(z3.Not(b))
    g.fields["n_constructed"] = VInt(simp(g.fields["n_constructed"].t + 1))
    o = HObj("inst", None, "RegExc")
    o.fields["__class__"] = VInt(ecls.t)
    star = [a for a in rest if getattr(a, "kind", None) == "starargs"]
    plain = [a for a in rest if getattr(a, "kind", None) != "starargs"]
    if plain:
        raise Unsupported("registered exception class called with explicit positional arguments")
    o.fields["ctor_args"] = star[0].v if star else VNone
    o.fields["ctor_kwargs"] = kwargs.get("**", VNone) if kwargs else VNone
    if kwargs and set(kwargs) - {"**"}:
        raise Unsupported("registered exception class called with explicit keyword arguments")
    return state.alloc(o)


def _seq_of(ex, state, v):
    """the sequence of value identities of a list / tuple / None (None and the empty sequence are the same payload)"""
    IS = z3.SeqSort(z3.IntSort())
    if isinstance(v, VNoneT):
        return z3.Empty(IS)
    if isinstance(v, VTuple):
        items = v.items
    elif isinstance(v, VListView):
        from pyvc.models import lv_seq
        return lv_seq(ex, state, v)
    elif isinstance(v, VRef) and ex.obj(state, v).kind == "list":
        o = ex.obj(state, v)
        if o.items is None:
            return o.seq
        items = o.items
    else:
        raise Unsupported("same_seq of %r" % (v,))
    if not items:
        return z3.Empty(IS)
    units = [z3.Unit(ex.num(x)) for x in items]
    return units[0] if len(units) == 1 else z3.Concat(*units)


def _map_at(ex, state, m, k):
    """(present, value) of key k in a table / concrete dict / None"""
    if isinstance(m, VNoneT):
        return z3.BoolVal(False), z3.IntVal(0)
    o = ex.obj(state, m) if isinstance(m, VRef) else None
    if o is None or o.kind != "dict":
        raise Unsupported("same_map of %r" % (m,))
    if o.sym is not None:
        return z3.Select(o.sym["has"], k), z3.Select(o.sym["val"], k)
    has, val = z3.BoolVal(False), z3.IntVal(0)
    for key, v in o.d.items():
        has = z3.Or(has, k == z3.StringVal(key))
        val = z3.If(k == z3.StringVal(key), ex.num(v), val)
    return has, val


def build(reg):
    reg.native_spec("same_seq", lambda ex, state, a, b: VBool(_seq_of(ex, state, a) == _seq_of(ex, state, b)))

    def same_map(ex, state, a, b, k):
        ha, va = _map_at(ex, state, a, k.t)
        hb, vb = _map_at(ex, state, b, k.t)
        return VBool(z3.And(ha == hb, z3.Implies(ha, va == vb)))
    reg.native_spec("same_map", same_map)
    W.build_shapes(reg)
    W.install_message_models(reg)
    common = dict(props=["C18"], spec_module="specs.wamp")
    reg.shape("Pattern", cls="autobahn.wamp.uri:Pattern", fields={"_uri": "str"})
    reg.shapes["Session"].fields.update({"_ecls_to_uri_pat": "dict:int->seq:sym:Pattern", "_uri_to_ecls": "dict:str->int"})
    reg.shapes["Session"].methods.update({"onUserError": "noop"})
    reg.external("noop", lambda ex, state, args, kwargs, sv: VNone)
    reg.external("txaio.create_failure", lambda ex, state, args, kwargs, sv: VOpaque(fresh_name("failure")))
    reg.shapes["Ghost"].fields.update({"n_constructed": "nat", "n_attempted": "nat"})
    reg.external("call:int", ext_construct)
    reg.shape("RegExc", fields={"__class__": "int", "ctor_args": "any", "ctor_kwargs": "any"})
    reg.shapes["RegExc"].open_attrs = True      # an instance of a user's exception class: any further attribute may exist
    # an ApplicationError or an instance of a subclass of it; its class may itself be registered (class identity)
    reg.shape("AppErrIn", cls=EXC + ":ApplicationError",
              fields={"error": "str", "args": "list:int", "kwargs": "opt:dict:str->int", "__class__": "int"})
    reg.shape("UserExcKw", fields={"__class__": "int", "args": "list:int", "kwargs": "opt:dict:str->int"},
              isa=("Exception", "BaseException"))
    reg.shape("UserExc", fields={"__class__": "int", "args": "list:int"}, isa=("Exception", "BaseException"))
    reg.shapes["UserExc"].absent = ("kwargs",)      # this unit is the case "a user exception without a kwargs attribute"
    reg.shape("ErrorOut", cls=MSG + ":Error", fields={"request_type": "int", "request": "int", "error": "str",
                                                      "args": "any", "kwargs": "any"})
    # payload equality is equality of content (None and empty are the same payload), never object identity
    ARGS = "same_seq(result.args, exc.args)"
    KW_SAME = "implies(not tb, same_map(result.kwargs, exc.kwargs, forall_k))"
    KW_TB = ("implies(tb, result.kwargs['traceback'] == tb and implies(forall_k != 'traceback', "
             "(forall_k in result.kwargs) == old(exc.kwargs is not None and forall_k in exc.kwargs) and "
             "implies(forall_k in result.kwargs, result.kwargs[forall_k] == old(exc.kwargs[forall_k]))))")
    URI_REG = ["implies(exc.__class__ in self._ecls_to_uri_pat, "
               "result.error == self._ecls_to_uri_pat[exc.__class__][0]._uri)",
               "implies(exc.__class__ not in self._ecls_to_uri_pat, result.error == 'wamp.error.runtime_error')"]
    NONEMPTY = "implies(exc.__class__ in self._ecls_to_uri_pat, len(self._ecls_to_uri_pat[exc.__class__]) >= 1)"
    P = {"self": "obj:Session", "request_type": "int", "request": "int", "tb": "opt:int", "enc_algo": "none",
         "forall_k": "str"}
    HEAD = "result.request_type == request_type and result.request == request"
    reg.contract(BASE + "._message_from_exception", name=BASE + "._message_from_exception<ApplicationError>",
                 params=dict(P, exc="obj:AppErrIn"), returns="obj:ErrorOut", modifies=["exc.kwargs"],
                 ensures=[HEAD, "result.error == exc.error", ARGS, KW_SAME, KW_TB], **common)
    reg.contract(BASE + "._message_from_exception", name=BASE + "._message_from_exception<user exception with kwargs>",
                 params=dict(P, exc="obj:UserExcKw"), returns="obj:ErrorOut", requires=[NONEMPTY], modifies=["exc.kwargs"],
                 ensures=[HEAD, ARGS, KW_SAME, KW_TB] + URI_REG, **common)
    reg.contract(BASE + "._message_from_exception", name=BASE + "._message_from_exception<user exception>",
                 params=dict(P, exc="obj:UserExc"), returns="obj:ErrorOut", requires=[NONEMPTY],
                 ensures=[HEAD, ARGS, "implies(not tb, same_map(result.kwargs, None, forall_k))",
                          "implies(tb, result.kwargs['traceback'] == tb and "
                          "implies(forall_k != 'traceback', forall_k not in result.kwargs))"] + URI_REG, **common)

    # ------------------------------------------------------------------ ERROR -> exception (caller side)
    reg.inline.add(EXC + ":ApplicationError.__init__")
    reg.shape("ErrorIn", cls=MSG + ":Error", fields={
        "request_type": "int", "request": "int", "error": "str", "args": "opt:list:int", "kwargs": "opt:dict:str->int",
        "payload": "none", "enc_algo": "none", "enc_key": "none", "enc_serializer": "none", "callee": "any",
        "callee_authid": "any", "callee_authrole": "any", "forward_for": "any"})
    RESERVED = "('enc_algo', 'callee', 'callee_authid', 'callee_authrole', 'forward_for')"
    KW_GENERIC = "same_map(result.kwargs, msg.kwargs, forall_k)"
    ENS = [
        # an unregistered URI surfaces as the generic application error
        "implies(msg.error not in self._uri_to_ecls, isinstance(result, ApplicationError))",
        # a registered URI surfaces as an instance of exactly the registered class, built from the carried arguments ...
        "implies(not isinstance(result, ApplicationError), msg.error in self._uri_to_ecls and "
        "result.__class__ == self._uri_to_ecls[msg.error] and same_seq(result.ctor_args, msg.args) and "
        "same_map(result.ctor_kwargs, msg.kwargs, forall_k))",
        # ... whenever that class could be constructed; the class is tried exactly once
        "implies(msg.error in self._uri_to_ecls, ghost.n_attempted == old(ghost.n_attempted) + 1)",
        "implies(ghost.n_constructed > old(ghost.n_constructed), not isinstance(result, ApplicationError))",
        # the generic error carries URI and positional arguments (never lost, also when construction failed)
        "implies(isinstance(result, ApplicationError), result.error == msg.error and same_seq(result.args, msg.args))",
    ]
    CP = {"self": "obj:Session", "msg": "obj:ErrorIn", "forall_k": "str"}
    MODS = ["ghost.n_attempted", "ghost.n_constructed"]
    reg.contract(BASE + "._exception_from_message", params=CP, returns="any", modifies=MODS,
                 ensures=ENS + ["implies(isinstance(result, ApplicationError), %s)" % KW_GENERIC],
                 known={}, **common)
    reg.contract(BASE + "._exception_from_message", name=BASE + "._exception_from_message[outside-known-finding]",
                 params=CP, returns="any", modifies=MODS,
                 ensures=["implies(isinstance(result, ApplicationError) and forall_k not in %s, %s)" % (RESERVED, KW_GENERIC)],
                 **common)


def extra_checks(tier, seed):
    return []


# ------------------------------------------------------------------------------------------ replay on the real code
_HARNESS = r'''
import json, sys
import txaio; txaio.use_asyncio()
from autobahn.wamp.protocol import ApplicationSession
from autobahn.wamp.exception import ApplicationError
from autobahn.wamp import message, types, uri as _uri
case = json.loads(sys.stdin.readline()) if False else CASE
s = ApplicationSession(types.ComponentConfig(realm="r"))
s.onUserError = lambda *a, **k: None
out = {"violations": []}
V = out["violations"]

def mkcls(i):
    class Registered(Exception):
        def __init__(self, *a, **k):
            Exception.__init__(self, *a)
            self.ctor_args, self.ctor_kwargs = list(a), dict(k)
    Registered.__name__ = "Registered%d" % i
    return Registered

if case["fn"] == "exception_from_message":
    classes = {}
    for u, cid in case["uri_to_ecls"].items():
        classes.setdefault(cid, mkcls(cid))
        s._uri_to_ecls[u] = classes[cid]
    args, kwargs = case["args"], case["kwargs"]
    m = message.Error(message.Call.MESSAGE_TYPE, 1, case["error"], args=args, kwargs=kwargs)
    try:
        e = s._exception_from_message(m)
    except Exception as x:
        V.append("raised %s: %s" % (type(x).__name__, x)); e = None
    if e is not None:
        reg = s._uri_to_ecls.get(case["error"])
        if reg is not None and reg in classes.values():
            if type(e) is not reg: V.append("not an instance of the registered class: %r" % type(e).__name__)
            elif e.ctor_args != list(args or []) or e.ctor_kwargs != dict(kwargs or {}):
                V.append("registered class built from %r %r" % (e.ctor_args, e.ctor_kwargs))
        else:
            if not isinstance(e, ApplicationError): V.append("not an ApplicationError: %r" % type(e).__name__)
            else:
                if e.error != case["error"]: V.append("error URI %r" % e.error)
                if list(e.args) != list(args or []): V.append("args %r" % (list(e.args),))
                if dict(e.kwargs or {}) != dict(kwargs or {}): V.append("kwargs %r instead of %r" % (e.kwargs, kwargs))
else:
    kind = case["kind"]
    args, kwargs = case["args"], case["kwargs"]
    if kind == "app":
        exc = ApplicationError(case["error"], *args)
        exc.kwargs = dict(kwargs) if kwargs is not None else None
    else:
        class U(Exception): pass
        exc = U(*args)
        if kind == "user_kw":
            exc.kwargs = dict(kwargs) if kwargs is not None else None
        if case["registered"]:
            s.define(U, "com.registered.u")
    before = dict(kwargs) if kwargs else {}
    tb = ["trace"] if case["tb"] else None
    try:
        m = s._message_from_exception(message.Invocation.MESSAGE_TYPE, 7, exc, tb=tb)
    except Exception as x:
        V.append("raised %s: %s" % (type(x).__name__, x)); m = None
    if m is not None:
        want = case["error"] if kind == "app" else ("com.registered.u" if case["registered"] else "wamp.error.runtime_error")
        if m.error != want: V.append("error URI %r instead of %r" % (m.error, want))
        if m.request_type != message.Invocation.MESSAGE_TYPE or m.request != 7: V.append("request type/id")
        if list(m.args or []) != list(args): V.append("args %r" % (m.args,))
        wantkw = dict(before)
        if tb: wantkw["traceback"] = tb
        if dict(m.kwargs or {}) != wantkw: V.append("kwargs %r instead of %r" % (m.kwargs, wantkw))
print(json.dumps(out))
'''


def _run_case(case):
    from pyvc import replaylib as R
    return R.run_py(_HARNESS.replace("CASE", repr(case)))


def _tbl(x):
    return dict(x["dict"]) if isinstance(x, dict) and "dict" in x else None


def _lst(x):
    if isinstance(x, dict) and "list" in x:
        return [v for v in x["list"] if isinstance(v, int)]
    return None


def replay(o):
    inp = o.get("inputs") or {}
    unit = o.get("unit") or o.get("name", "")
    if "_exception_from_message" in unit:
        case = {"fn": "exception_from_message", "error": inp.get("msg.error") or "", "args": _lst(inp.get("msg.args")),
                "kwargs": _tbl(inp.get("msg.kwargs")),
                "uri_to_ecls": {k: v for k, v in (_tbl(inp.get("self._uri_to_ecls")) or {}).items() if isinstance(v, int)}}
    elif "_message_from_exception" in unit:
        kind = "app" if "ApplicationError" in unit else ("user_kw" if "with kwargs" in unit else "user")
        reg = _tbl(inp.get("self._ecls_to_uri_pat")) or {}
        case = {"fn": "message_from_exception", "kind": kind, "error": inp.get("exc.error") or "com.x",
                "args": _lst(inp.get("exc.args")) or [], "kwargs": _tbl(inp.get("exc.kwargs")),
                "registered": inp.get("exc.__class__") in reg or str(inp.get("exc.__class__")) in reg,
                "tb": bool(inp.get("tb"))}
    else:
        return {"reproduced": False, "detail": "no replay harness for this unit"}
    out = _run_case(case)
    bad = out.get("violations") if isinstance(out, dict) else None
    return {"reproduced": bool(bad), "case": case, "observed": out,
            "detail": "the real function called on the counterexample, checked against the property statement directly"}


def replay_known(k):
    out = _run_case(k["witness"])
    return {"reproduced": bool(isinstance(out, dict) and out.get("violations")), "observed": out}
