"""C15 — Frame masking is exact XOR with the running key in every implementation."""
import z3

from pyvc import natives
from pyvc.values import VInt, VBool

ASSUMPTIONS = [
    "cffi: ffi.new('uint8_t[]', n) is a zeroed n-octet buffer, ffi.memmove copies n octets, bytes(ffi.buffer(b, n)) reads them back",
    "array('B', bytes) / tobytes() convert element-wise (stated as quantified axioms per use)",
    "octet XOR of two symbolic operands is the defined function bxor8 (exact bitwise XOR on 0..255); the same symbol is "
    "produced for Python `^` on octets, for C uint8_t `^` and for each lane of _mm_xor_si128",
]

PYMOD = "autobahn.websocket.xormasker"
CMOD = "cnvx._xormasker"
NVXPY = "autobahn.nvx._xormasker"


def sym_bxor8(ex, state, a, b):
    return VInt(natives.bxor8(ex.num(a), ex.num(b)))


# result[k] == data[k] XOR key[(ptr0 + k) mod 4]  — the spec function `xormask`, stated pointwise
def MASKED(res, data, key, ptr0, n="len(%s)"):
    return "forall(k, 0, len({d}), {r}[k] == bxor8({d}[k], {key}[({p} + k) % 4]))".format(r=res, d=data, key=key, p=ptr0)


def build(reg):
    reg.native_spec("bxor8", sym_bxor8)
    reg.native_spec("data_base", sym_data_base)
    reg.native_spec("ptr_off", sym_ptr_off)
    reg.native_spec("ptr_addr", sym_ptr_addr)
    common = dict(props=["C15"], spec_module="specs.common")
    # ---------------------------------------------------------------- pure Python maskers
    reg.shape("XorMaskerNull", cls=PYMOD + ":XorMaskerNull", fields={"_ptr": "nat"})
    reg.contract(PYMOD + ":XorMaskerNull.process", params={"self": "obj:XorMaskerNull", "data": "bytes"}, returns="bytes",
                 modifies=["self._ptr"], ensures=["result == data", "self._ptr == old(self._ptr) + len(data)"], **common)
    reg.contract(PYMOD + ":XorMaskerNull.pointer", params={"self": "obj:XorMaskerNull"}, returns="int",
                 ensures=["result == self._ptr"], **common)

    reg.shape("XorMaskerSimplePy", cls=PYMOD + ":XorMaskerSimple", fields={"_ptr": "nat", "_msk": "barray:4"})
    reg.contract(PYMOD + ":XorMaskerSimple.__init__", params={"self": "obj:XorMaskerSimplePy", "mask": "abytes"},
                 requires=["len(mask) == 4"], modifies=["self._ptr", "self._msk"],
                 ensures=["self._ptr == 0", "len(self._msk) == 4", "forall(j, 0, 4, self._msk[j] == mask[j])"], **common)
    reg.contract(
        PYMOD + ":XorMaskerSimple.process", params={"self": "obj:XorMaskerSimplePy", "data": "abytes"}, returns="abytes",
        modifies=["self._ptr"],
        ensures=["len(result) == len(data)", MASKED("result", "data", "self._msk", "old(self._ptr)"),
                 "self._ptr == old(self._ptr) + len(data)"],
        loops={0: {"invariant": [
            "dlen == len(data) and len(payload) == dlen and 0 <= _i <= dlen",
            "self._ptr == old(self._ptr) + _i",
            "forall(j, 0, _i, payload[j] == bxor8(data[j], self._msk[(old(self._ptr) + j) % 4]))",
            "forall(j, _i, dlen, payload[j] == data[j])",
        ]}}, **common)
    reg.contract(PYMOD + ":XorMaskerSimple.pointer", params={"self": "obj:XorMaskerSimplePy"}, returns="int",
                 ensures=["result == self._ptr"], **common)

    reg.shape("XorMaskerShifted1Py", cls=PYMOD + ":XorMaskerShifted1",
              fields={"_ptr": "nat", "_mskarray": "clist:4:barray:4"})
    REP = "forall(r, 0, 4, forall(j, 0, 4, self._mskarray[r][j] == self._mskarray[0][(j + r) % 4]))"
    reg.contract(PYMOD + ":XorMaskerShifted1.__init__", params={"self": "obj:XorMaskerShifted1Py", "mask": "abytes"},
                 requires=["len(mask) == 4"], modifies=["self._ptr", "self._mskarray"],
                 ensures=["self._ptr == 0", "len(self._mskarray) == 4",
                          "forall(r, 0, 4, len(self._mskarray[r]) == 4)",
                          "forall(j, 0, 4, self._mskarray[0][j] == mask[j])", REP], **common)
    reg.contract(
        PYMOD + ":XorMaskerShifted1.process", params={"self": "obj:XorMaskerShifted1Py", "data": "abytes"}, returns="abytes",
        requires=[REP], modifies=["self._ptr"],
        ensures=["len(result) == len(data)", MASKED("result", "data", "self._mskarray[0]", "old(self._ptr)"),
                 "self._ptr == old(self._ptr) + len(data)", REP],
        loops={0: {"invariant": [
            "dlen == len(data) and len(payload) == dlen and 0 <= _i <= dlen",
            "self._ptr == old(self._ptr)",
            "forall(j, 0, _i, payload[j] == bxor8(data[j], self._mskarray[0][(old(self._ptr) + j) % 4]))",
            "forall(j, _i, dlen, payload[j] == data[j])",
        ]}}, **common)
    reg.contract(PYMOD + ":XorMaskerShifted1.pointer", params={"self": "obj:XorMaskerShifted1Py"}, returns="int",
                 ensures=["result == self._ptr"], **common)


    build_factory(reg, common)
    build_c(reg, common)
    build_lemmas(reg, common)


def build_factory(reg, common):
    # create_xor_masker (pure Python branch): whichever class is chosen satisfies the same process() contract
    reg.contract(PYMOD + ":create_xor_masker", params={"mask": "abytes", "length": "opt:int"}, returns="any",
                 requires=["len(mask) == 4"],
                 ensures=["result._ptr == 0",
                          "implies(length is None or length < 128, isinstance(result, XorMaskerSimple) and "
                          "forall(j, 0, 4, result._msk[j] == mask[j]))",
                          "implies(length is not None and length >= 128, isinstance(result, XorMaskerShifted1) and "
                          "forall(j, 0, 4, result._mskarray[0][j] == mask[j]))"],
                 spec_module=PYMOD, props=["C15"])


def build_c(reg, common):
    import os
    from pyvc import cfront, loader
    src = os.path.join(loader.REPO, "src/autobahn/nvx/_xormasker.c")
    loader.set_virtual_module(CMOD, cfront.translate_file(src))
    reg.shape("NvxXorMasker", fields={"mask": "barray:4", "ptr": "nat", "impl": "int"})
    P = {"xormask": "obj:NvxXorMasker", "data": "ptr:barray", "length": "nat"}
    pre = ["len(data_base(data)) == length", "xormask.ptr + length < 2**64", "length < 2**62"]
    post = ["forall(k, 0, length, data[k] == bxor8(old(data[k]), xormask.mask[(old(xormask.ptr) + k) % 4]))",
            "xormask.ptr == old(xormask.ptr) + length", "len(data_base(data)) == length"]
    reg.contract(
        CMOD + ":_nvx_xormask_process_simple", params=P, requires=pre, modifies=["xormask.ptr", "data"], ensures=post,
        loops={0: {"invariant": [
            "0 <= i <= length and ptr == old(xormask.ptr) + i and xormask.ptr == old(xormask.ptr)",
            "len(data_base(data)) == length",
            "forall(j, 0, i, data[j] == bxor8(old(data[j]), xormask.mask[(old(xormask.ptr) + j) % 4]))",
            "forall(j, i, length, data[j] == old(data[j]))",
        ]}}, **common)
    B = "data_0"
    P0 = "old(xormask.ptr)"
    DONE = "forall(j, 0, %s, data_0[j] == bxor8(old(data_0[j]), xormask.mask[(old(xormask.ptr) + j) %% 4]))"
    REST = "forall(j, %s, length_0, data_0[j] == old(data_0[j]))"
    LANES = "forallq(l, 0, 16, xmm_mask[l] == xormask.mask[(old(xormask.ptr) + head_len + l) % 4])"
    reg.contract(
        CMOD + ":_nvx_xormask_process_sse2", params=P, requires=pre, modifies=["xormask.ptr", "data"], ensures=post,
        loops={
            1: {"invariant": [      # unaligned head
                "0 <= i <= head_len and 1 <= head_len <= 15 and length == length_0 and length >= 16",
                "ptr == old(xormask.ptr) + i and xormask.ptr == old(xormask.ptr)",
                "ptr_off(data) == 0 and (ptr_addr(data_0) + head_len) % 16 == 0",
                "len(data_base(data)) == length_0",
                DONE % "i", REST % "i"]},
            3: {"invariant": [      # aligned 16-octet chunks
                "0 <= i <= chunks and chunks == length // 16 and length == length_0 - head_len and 0 <= head_len <= length_0",
                "ptr == old(xormask.ptr) + head_len and xormask.ptr == old(xormask.ptr)",
                "ptr_off(ptr128) == head_len + 16 * i",
                "implies(chunks > 0, (ptr_addr(data_0) + head_len) % 16 == 0)",
                "len(data_base(data)) == length_0",
                LANES, DONE % "head_len + 16 * i", REST % "head_len + 16 * i"]},
            4: {"invariant": [      # tail
                "0 <= i <= tail_len and tail_len == length_0 - head_len - 16 * chunks and chunks >= 0 and 0 <= head_len",
                "ptr == old(xormask.ptr) + head_len + 16 * chunks + i and xormask.ptr == old(xormask.ptr)",
                "ptr_off(tail_data) == head_len + 16 * chunks",
                "len(data_base(data)) == length_0",
                DONE % "head_len + 16 * chunks + i", REST % "head_len + 16 * chunks + i"]},
        }, **common)
    # dispatcher: every impl value reaches an implementation with the same contract
    reg.contract(CMOD + ":nvx_xormask_process", params=P, requires=pre, modifies=["xormask.ptr", "data"], ensures=post,
                 **common)
    # cffi wrapper
    reg.external("ffi.new", ffi_new)
    reg.external("ffi.memmove", ffi_memmove)
    reg.external("ffi.buffer", ffi_buffer)
    reg.external("ffi.gc", ffi_gc)
    reg.shape("FFI", fields={}, methods={"new": "ffi.new", "memmove": "ffi.memmove", "buffer": "ffi.buffer", "gc": "ffi.gc"})
    reg.shape("NvxMaskLib", fields={}, methods={
        "nvx_xormask_process": "repo:" + CMOD + ":nvx_xormask_process",
        "nvx_xormask_pointer": "repo:" + CMOD + ":nvx_xormask_pointer",
        "nvx_xormask_reset": "repo:" + CMOD + ":nvx_xormask_reset"})
    reg.shape("XorMaskerNvx", cls=NVXPY + ":XorMaskerNvx",
              fields={"ffi": "obj:FFI", "lib": "obj:NvxMaskLib", "_masker": "obj:NvxXorMasker", "_mask_buffer": "any"})
    reg.contract(NVXPY + ":XorMaskerNvx.process", params={"self": "obj:XorMaskerNvx", "data": "abytes"}, returns="abytes",
                 requires=["self._masker.ptr + len(data) < 2**64", "len(data) < 2**62"],
                 modifies=["self._masker.ptr"],
                 ensures=["len(result) == len(data)",
                          MASKED("result", "data", "self._masker.mask", "old(self._masker.ptr)"),
                          "self._masker.ptr == old(self._masker.ptr) + len(data)"], **common)
    reg.contract(NVXPY + ":XorMaskerNvx.pointer", params={"self": "obj:XorMaskerNvx"}, returns="int",
                 ensures=["result == self._masker.ptr"], **common)
    reg.contract(CMOD + ":nvx_xormask_pointer", params={"xormask": "obj:NvxXorMasker"}, returns="int",
                 ensures=["result == xormask.ptr"], **common)
    reg.contract(CMOD + ":nvx_xormask_reset", params={"xormask": "obj:NvxXorMasker"}, modifies=["xormask.ptr"],
                 ensures=["xormask.ptr == 0"], **common)


def sym_data_base(ex, state, p):
    from pyvc.values import VPtr
    return p.base if isinstance(p, VPtr) else p



# ------------------------------------------------------------------------------------------ cffi (assumed contracts)
def ffi_new(ex, state, args, kwargs, sv):
    """ffi.new("uint8_t[]", n) -> zeroed n-octet buffer; ffi.new("uint8_t[4]", init) -> buffer initialised from init"""
    from pyvc.engine import HObj
    from pyvc.values import VABytes, VBytes
    import z3
    decl = args[0].t.as_string()
    o = HObj("barray")
    if decl == "uint8_t[]":
        o.arr = z3.K(z3.IntSort(), z3.IntVal(0))
        o.n = ex.num(args[1])
        return state.alloc(o)
    if decl == "uint8_t[4]" and isinstance(args[1], VABytes):
        o.arr, o.n = args[1].arr, z3.IntVal(4)
        return state.alloc(o)
    from pyvc.values import Unsupported
    raise Unsupported("ffi.new(%s)" % decl)


def ffi_memmove(ex, state, args, kwargs, sv):
    import z3
    from pyvc.values import VABytes, fresh_name, VNone
    dst, src, n = args
    o = state.heap[dst.oid]
    n = ex.num(n)
    k = z3.Int(fresh_name("mm_k"))
    old = o.arr
    o.arr = z3.Lambda([k], z3.If(z3.And(k >= 0, k < n), z3.Select(src.arr, k), z3.Select(old, k)))
    return VNone


def ffi_buffer(ex, state, args, kwargs, sv):
    from pyvc.values import VABytes
    o = ex.obj(state, args[0])
    return VABytes(o.arr, ex.num(args[1]))


def ffi_gc(ex, state, args, kwargs, sv):
    return args[0]


def sym_ptr_off(ex, state, p):
    from pyvc.values import VPtr
    return VInt(p.off) if isinstance(p, VPtr) else VInt(0)


def sym_ptr_addr(ex, state, p):
    from pyvc import models_c
    return models_c.c_ptr_addr(ex, state, [p], {}, None)


def lem_involution(ex, state, x, m):
    """instance of: octets x, m  ==>  bxor8(bxor8(x, m), m) == x   (proved over bit-vectors in extra_checks)"""
    x, m = ex.num(x), ex.num(m)
    return VBool(z3.Implies(z3.And(x >= 0, x <= 255, m >= 0, m <= 255), natives.bxor8(natives.bxor8(x, m), m) == x))


def build_lemmas(reg, common):
    reg.lemma_fn("bxor8_involution", lem_involution)
    impls = [("py-simple", "XorMaskerSimplePy", "%s._msk", "%s._ptr", []),
             ("py-shifted1", "XorMaskerShifted1Py", "%s._mskarray[0]", "%s._ptr",
              ["forall(r, 0, 4, forall(j, 0, 4, %s._mskarray[r][j] == %s._mskarray[0][(j + r) %% 4]))"]),
             ("nvx", "XorMaskerNvx", "%s._masker.mask", "%s._masker.ptr", [])]
    for name, shape, key, ptr, rep in impls:
        k1, k2, p1, p2 = key % "m1", key % "m2", ptr % "m1", ptr % "m2"
        same = ["forall(j, 0, 4, %s[j] == %s[j])" % (k1, k2)] + [r % (m, m) for r in rep for m in ("m1", "m2")]
        bound = ["%s + len(a) + len(b) < 2**62" % p1] if name == "nvx" else []
        mods = ["m1.*", "m2.*"] + (["m1._masker.ptr", "m2._masker.ptr"] if name == "nvx" else [])
        reg.contract(
            "specs.xor_lemmas:chunk_lemma", name="C15/lemma/chunk-independence[%s]" % name,
            params={"m1": "obj:" + shape, "m2": "obj:" + shape, "a": "abytes", "b": "abytes"}, returns="any",
            requires=same + ["%s == %s" % (p1, p2)] + bound, modifies=mods,
            ensures=["forall(k, 0, len(a), result[2][k] == result[0][k])",
                     "forall(k, 0, len(b), result[2][len(a) + k] == result[1][k])",
                     "len(result[2]) == len(result[0]) + len(result[1])",
                     "%s == %s and %s == old(%s) + len(a) + len(b)" % (p1, p2, p1, p1)], **common)
        bound = ["%s + len(a) < 2**62 and %s + len(a) < 2**62" % (p1, p2)] if name == "nvx" else []
        reg.contract(
            "specs.xor_lemmas:involution_lemma", name="C15/lemma/involution[%s]" % name,
            params={"m1": "obj:" + shape, "m2": "obj:" + shape, "a": "abytes"}, returns="any",
            requires=same + ["%s %% 4 == %s %% 4" % (p1, p2)] + bound, modifies=mods,
            ensures=["len(result[1]) == len(a)", "forall(k, 0, len(a), result[1][k] == a[k])",
                     "%s == old(%s) + len(a)" % (p1, p1)],
            hints=["forall(k, 0, len(a), bxor8_involution(a[k], %s[(old(%s) + k) %% 4]))" % (k1, p1)], **common)


def extra_checks(tier, seed):
    """lemmas about the defined function bxor8 (Python's `^` on octets IS the definition): decided by complete
    enumeration of the finite domain (2^16 operand pairs), reported as such"""
    import time
    out = []
    t0 = time.time()
    inv = all(((a ^ b) ^ b) == a for a in range(256) for b in range(256))
    rng = all(0 <= (a ^ b) <= 255 for a in range(256) for b in range(256))
    zero = all((a ^ 0) == a for a in range(256))
    dt = round(time.time() - t0, 3)
    for name, ok in (("bxor8-involution", inv), ("bxor8-range", rng), ("bxor8-zero-key", zero)):
        out.append({"name": "C15/lemma/" + name, "kind": "lemma-finite", "status": "proved" if ok else "refuted",
                    "backend": "enumeration(2^16, exhaustive)", "time": dt, "info": {}})
    return out


# ------------------------------------------------------------------------------------------ replay
def _expected(key, ptr, data):
    return bytes(d ^ key[(ptr + k) % 4] for k, d in enumerate(data)), ptr + len(data)


def run_real(impl, key, ptr, data, align=0):
    """impl: py-simple | py-shifted1 (AUTOBAHN_USE_NVX=0) | c-simple | c-sse2 (working-tree C, ctypes)"""
    from pyvc import replaylib as R
    key, data = bytes(key), bytes(data)
    if impl.startswith("py-"):
        cls = "XorMaskerSimple" if impl == "py-simple" else "XorMaskerShifted1"
        code = ("import json\nfrom autobahn.websocket.xormasker import %s as M\nm = M(%r); m._ptr = %d\n"
                "r = m.process(%r)\nprint(json.dumps([list(r), m.pointer()]))" % (cls, key, ptr, data))
        out = R.run_py(code, env={"AUTOBAHN_USE_NVX": "0"})
        return (bytes(out[0]), out[1]) if isinstance(out, list) else out
    # the native code runs in a child process: a crash (misaligned SSE access, out-of-bounds write) must not take
    # the checker down and is itself a reproduced violation
    so = R.build_c_cached("src/autobahn/nvx/_xormasker.c", "xormask")
    code = """
import ctypes, json
lib = ctypes.CDLL(%r)
class S(ctypes.Structure):
    _fields_ = [("mask", ctypes.c_uint8 * 4), ("ptr", ctypes.c_size_t), ("impl", ctypes.c_int)]
key, ptr, data, align = %r, %d, %r, %d
s = S((ctypes.c_uint8 * 4)(*key), ptr, 0)
raw = ctypes.create_string_buffer(len(data) + 64)
base = ctypes.addressof(raw)
off = (-base) %% 16 + (align %% 16)
ctypes.memmove(base + off, data, len(data))
fn = getattr(lib, %r)
fn.argtypes = [ctypes.c_void_p, ctypes.c_void_p, ctypes.c_size_t]
fn.restype = None
fn(ctypes.byref(s), base + off, len(data))
print(json.dumps([list(ctypes.string_at(base + off, len(data))), int(s.ptr)]))
""" % (so, key, ptr, data, align, "_nvx_xormask_process_simple" if impl == "c-simple" else "_nvx_xormask_process_sse2")
    out = R.run_py(code)
    if isinstance(out, list):
        return bytes(out[0]), out[1]
    return {"crash": out}


def replay(o):
    from pyvc import replaylib as R
    inp = o.get("inputs") or {}
    unit = o.get("unit") or ""
    def arr(x, n=None):
        if isinstance(x, dict) and "barray" in x:
            return bytes(v % 256 for v in x["barray"])
        return R.to_bytes(x)
    try:
        if "chunk-independence" in unit or "involution" in unit or "create_xor_masker" in unit or "XorMaskerNvx" in unit:
            return {"reproduced": False, "detail": "lemma / wrapper unit: no direct replay harness"}
        if "XorMaskerSimple" in unit and "process" not in unit:
            impl, key, ptr, data = "py-simple", arr(inp.get("mask")), 0, b"abcdefgh"
        elif "XorMaskerShifted1" in unit and "process" not in unit:
            impl, key, ptr, data = "py-shifted1", arr(inp.get("mask")), 0, b"abcdefgh"
        elif "XorMaskerSimple.process" in unit:
            impl, key, ptr, data = "py-simple", arr(inp.get("self._msk")), inp.get("self._ptr"), arr(inp.get("data"))
        elif "XorMaskerShifted1.process" in unit:
            impl, key, ptr, data = "py-shifted1", arr(inp.get("self._mskarray[0]")), inp.get("self._ptr"), arr(inp.get("data"))
        elif "_nvx_xormask_process_simple" in unit or "_nvx_xormask_process_sse2" in unit:
            impl = "c-simple" if "simple" in unit else "c-sse2"
            key, ptr, data = arr(inp.get("xormask.mask")), inp.get("xormask.ptr"), arr(inp.get("data"))
        else:
            return {"reproduced": False, "detail": "no replay harness for this unit"}
    except Exception as e:
        return {"reproduced": False, "detail": "cannot build inputs: %r" % e}
    key = (bytes(key) + b"\x01\x02\x04\x08")[:4]
    if key == b"\0\0\0\0":
        key = b"\x01\x02\x04\x08"
    if not isinstance(ptr, int):
        ptr = 0
    bad = []
    # the counter-model's input first, then its neighbourhood (all alignments / a few lengths): the model may rely on
    # loop-havoc values that are not inputs
    cands = [(data, a, ptr) for a in range(16)] + [(bytes((i * 7 + 1) % 256 for i in range(n)), a, p)
                                                    for n in (1, 5, 17, 40, 130, 70001) for a in (0, 1, 7, 15)
                                                    for p in (ptr, 0, 1, 2, 3, 70000)]
    for d, a, p in cands:
        if impl.startswith("py-") and a > 0:
            continue            # buffer alignment is not observable from Python
        p = p % (2 ** 32)
        got = run_real(impl, key, p, d, align=a)
        want = _expected(key, p, d)
        ptr = p
        if got != want:
            bad.append({"key": list(key), "ptr": ptr % (2 ** 32), "data": list(d), "align": a,
                        "got": [list(got[0]), got[1]] if isinstance(got, tuple) else got,
                        "required": [list(want[0]), want[1]]})
            break

    return {"reproduced": bool(bad), "impl": impl, "failing": bad[:1],
            "detail": "real process() vs byte-wise XOR with the running key"}
