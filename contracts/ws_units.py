"""Contracts of the WebSocketProtocol units shared by C01 C02 C05 C16 C17 (each contract lists the properties
it serves; a property's check verifies exactly the units tagged with it, and uses the others' contracts at calls)."""
from .ws_common import WSP, P, build_shapes

S = {"self": "obj:WSProto"}

# object invariant of a connection (ghost counters are changed by sendFrame / _closeConnection / _onClose only)
INV = [
    "(self.state == 0) == self.is_closed.done",                                  # CLOSED <=> is_closed completed
    "ghost.close_frames <= 1",                                                   # at most one close frame is sent
    "implies(ghost.close_frames == 1, self.state == 2 or self.state == 0)",      # ... and then we are CLOSING/CLOSED
    "ghost.data_frames_after_close == 0",                                        # no data frame follows it
    "ghost.n_onclose <= 1 and implies(ghost.n_onclose == 1, self.state == 0)",   # onClose fires once, in CLOSED
    "implies(self.state == 3, ghost.close_frames == 0)",
    "implies(self.state == 2, ghost.close_frames == 1)",                         # CLOSING is entered by sending it
]
MONO = "rank(self.state) >= rank(old(self.state))"
NOT_CLEANER = ("implies(self.wasClean, old(self.wasClean)) and "      # failing never turns an unclean close into a clean one
               "implies(old(self.state) != 3, ghost.last_close_payload == old(ghost.last_close_payload))")

GHOST_FRAME = ["ghost.close_frames", "ghost.last_close_payload", "ghost.data_frames_after_close", "ghost.frames_sent",
               "ghost.last_frame_opcode", "ghost.last_frame_payload", "ghost.last_frame_fin", "ghost.last_frame_rsv",
               "ghost.wire", "self.trafficStats.*", "ghost.cur_msg", "ghost.in_msg", "ghost.sent_msgs", "ghost.sent_binary",
               "ghost.cur_binary", "ghost.wellformed", "ghost.cur_rsv", "ghost.sent_rsv", "ghost.sent_rsv1_msgs"]
IS_DATA_OP = "(opcode == 0 or opcode == 1 or opcode == 2)"
# message-level effect of emitting one frame (RFC 6455 5.4: a message is a first frame with opcode 1/2 followed by
# continuation frames with opcode 0, the last one carrying FIN; control frames may be interleaved)
SENDFRAME_MSG = [
    "implies(not %s, ghost.cur_msg == old(ghost.cur_msg) and ghost.in_msg == old(ghost.in_msg) and "
    "len(ghost.sent_msgs) == old(len(ghost.sent_msgs)) and ghost.wellformed == old(ghost.wellformed) and "
    "ghost.cur_binary == old(ghost.cur_binary))" % IS_DATA_OP,
    "implies(%s, ghost.wellformed == (old(ghost.wellformed) and ((opcode == 0) == old(ghost.in_msg)) and "
    "(opcode != 0 or rsv == 0)) and ghost.in_msg == (not fin))" % IS_DATA_OP,
    "implies(%s and not fin, ghost.cur_msg == old(ghost.cur_msg) + payload and "
    "len(ghost.sent_msgs) == old(len(ghost.sent_msgs)) and "
    "ghost.cur_binary == (old(ghost.cur_binary) if opcode == 0 else (opcode == 2)))" % IS_DATA_OP,
    "implies(%s and fin, ghost.cur_msg == b'' and len(ghost.sent_msgs) == old(len(ghost.sent_msgs)) + 1 and "
    "ghost.sent_msgs[len(ghost.sent_msgs) - 1] == old(ghost.cur_msg) + payload and "
    "ghost.sent_binary[len(ghost.sent_binary) - 1] == (old(ghost.cur_binary) if opcode == 0 else (opcode == 2)) and "
    "len(ghost.sent_binary) == old(len(ghost.sent_binary)) + 1)" % IS_DATA_OP,
    # RSV bits: those of the first frame are the message's; a continuation frame carrying any makes the sequence ill-formed
    "implies(not %s, ghost.cur_rsv == old(ghost.cur_rsv) and len(ghost.sent_rsv) == old(len(ghost.sent_rsv)) and "
    "ghost.sent_rsv1_msgs == old(ghost.sent_rsv1_msgs))" % IS_DATA_OP,
    "implies(%s, ghost.cur_rsv == (old(ghost.cur_rsv) if opcode == 0 else rsv))" % IS_DATA_OP,
    "implies(%s and not fin, len(ghost.sent_rsv) == old(len(ghost.sent_rsv)) and "
    "ghost.sent_rsv1_msgs == old(ghost.sent_rsv1_msgs))" % IS_DATA_OP,
    "implies(%s and fin, len(ghost.sent_rsv) == old(len(ghost.sent_rsv)) + 1 and "
    "ghost.sent_rsv[len(ghost.sent_rsv) - 1] == ghost.cur_rsv and "
    "ghost.sent_rsv1_msgs == old(ghost.sent_rsv1_msgs) + (1 if ghost.cur_rsv == 4 else 0))" % IS_DATA_OP,
]

DROP_MOD = ["self.droppedByMe", "self.state", "self.is_closed.done", "ghost.n_drop", "ghost.drop_abort"]
CLOSEFRAME_MOD = ["self.state", "self.closedByMe", "self.localCloseCode", "self.localCloseReason",
                  "self.closeHandshakeTimeoutCall", "ghost.timers_armed"] + GHOST_FRAME
FAIL_MOD = sorted(set(["self.failedByMe", "self.wasClean", "self.wasNotCleanReason"] + DROP_MOD + CLOSEFRAME_MOD))


def build(reg):
    build_shapes(reg)
    reg.mark_inline(WSP + ".onAutoPong", WSP + ".onOpen", WSP + ".onPong", WSP + ".onMessage", WSP + ".onClose")
    common = dict(spec_module="specs.ws")

    # ---------------------------------------------------------------- frame emission (event primitive for ghost state)
    reg.contract(
        WSP + ".sendFrame", props=["C01"], verify=False,
        params=dict(S, opcode="int", payload="bytes", fin="bool", rsv="int", mask="opt:bytes", payload_len="opt:int",
                    chopsize="opt:int", sync="bool"),
        modifies=GHOST_FRAME,
        ensures=[
            "ghost.frames_sent == old(ghost.frames_sent) + 1",
            "ghost.last_frame_opcode == opcode and ghost.last_frame_fin == fin and ghost.last_frame_rsv == rsv",
            "implies(payload_len is None, ghost.last_frame_payload == payload)",
            "ghost.close_frames == old(ghost.close_frames) + (1 if opcode == 8 else 0)",
            "implies(opcode == 8, ghost.last_close_payload == payload)",
            "implies(opcode != 8, ghost.last_close_payload == old(ghost.last_close_payload))",
            "ghost.data_frames_after_close == old(ghost.data_frames_after_close) + "
            "(1 if (opcode == 0 or opcode == 1 or opcode == 2) and old(ghost.close_frames) > 0 else 0)",
        ] + SENDFRAME_MSG,
        raises={"Exception": "payload_len is not None or len(payload) > 0x7FFFFFFFFFFFFFFF"}, **common)

    # ---------------------------------------------------------------- dropping / failing
    reg.contract(
        WSP + ".dropConnection", props=["C05", "C17"], params=dict(S, abort="bool"),
        requires=[INV[0]], modifies=DROP_MOD,
        ensures=[
            "implies(old(self.state) != 0, self.state == 0 and self.droppedByMe and "
            "ghost.n_drop == old(ghost.n_drop) + 1 and ghost.drop_abort == abort)",
            "implies(old(self.state) == 0, self.state == 0 and ghost.n_drop == old(ghost.n_drop) and "
            "self.droppedByMe == old(self.droppedByMe) and ghost.drop_abort == old(ghost.drop_abort))",
            INV[0], MONO],
        **common)

    reg.contract(
        WSP + "._fail_connection", props=["C05", "C02", "C16"], params=dict(S, code="range:1000:1011", reason="str"),
        requires=INV, modifies=FAIL_MOD,
        ensures=INV + [
            MONO, NOT_CLEANER,
            "implies(old(self.state) != 0, self.failedByMe)",
            "implies(old(self.state) == 0, self.failedByMe == old(self.failedByMe) and ghost.n_drop == old(ghost.n_drop) "
            "and ghost.close_frames == old(ghost.close_frames) and self.wasClean == old(self.wasClean))",
            # fail by drop: TCP dropped, reported unclean
            "implies(old(self.state) != 0 and self.failByDrop, self.state == 0 and not self.wasClean and "
            "ghost.n_drop == old(ghost.n_drop) + 1 and ghost.close_frames == old(ghost.close_frames))",
            # fail by closing handshake: exactly one close frame announcing `code`
            "implies(old(self.state) == 3 and not self.failByDrop, self.state == 2 and "
            "ghost.close_frames == old(ghost.close_frames) + 1 and ghost.last_close_payload[0:2] == be16(code) and "
            "len(ghost.last_close_payload) <= 125 and ghost.n_drop == old(ghost.n_drop))",
            # second failure while closing: drop
            "implies(old(self.state) == 2 and not self.failByDrop, self.state == 0 and "
            "ghost.close_frames == old(ghost.close_frames) and ghost.n_drop == old(ghost.n_drop) + 1)",
        ],
        raises={"Exception": "(self.state == 1 or self.state == 4) and not self.failByDrop"}, **common)

    for name, code, props in (("_protocol_violation", 1002, ["C02", "C05"]), ("_invalid_payload", 1007, ["C02"])):
        reg.contract(
            WSP + "." + name, props=props, params=dict(S, reason="str"), returns="bool",
            requires=INV + ["self.state != 1 and self.state != 4"], modifies=FAIL_MOD,
            ensures=INV + [
                MONO, NOT_CLEANER, "result == self.failByDrop",
                "implies(old(self.state) != 0, self.failedByMe)",
                "implies(old(self.state) == 0, self.failedByMe == old(self.failedByMe) and ghost.n_drop == old(ghost.n_drop) "
                "and ghost.close_frames == old(ghost.close_frames))",
                "implies(old(self.state) != 0 and self.failByDrop, self.state == 0 and not self.wasClean and "
                "ghost.n_drop == old(ghost.n_drop) + 1 and ghost.close_frames == old(ghost.close_frames))",
                "implies(old(self.state) == 3 and not self.failByDrop, self.state == 2 and "
                "ghost.close_frames == old(ghost.close_frames) + 1 and ghost.last_close_payload[0:2] == be16(%d) and "
                "ghost.n_drop == old(ghost.n_drop))" % code,
                "implies(old(self.state) == 2 and not self.failByDrop, self.state == 0 and "
                "ghost.close_frames == old(ghost.close_frames) and ghost.n_drop == old(ghost.n_drop) + 1)",
            ], **common)

    reg.contract(
        WSP + "._max_message_size_exceeded", props=["C16"],
        params=dict(S, msg_size="int", max_msg_size="int", reason="str"),
        requires=INV + ["self.state != 1 and self.state != 4"], modifies=FAIL_MOD,
        ensures=INV + [
            MONO, NOT_CLEANER, "implies(old(self.state) != 0, self.failedByMe)",
            "implies(old(self.state) != 0 and self.failByDrop, self.state == 0 and not self.wasClean and "
            "ghost.n_drop == old(ghost.n_drop) + 1)",
            "implies(old(self.state) == 3 and not self.failByDrop, self.state == 2 and "
            "ghost.close_frames == old(ghost.close_frames) + 1 and ghost.last_close_payload[0:2] == be16(1009))",
            "implies(old(self.state) == 2 and not self.failByDrop, self.state == 0)",
            "implies(old(self.state) == 0, self.failedByMe == old(self.failedByMe) and "
            "ghost.close_frames == old(ghost.close_frames) and ghost.n_drop == old(ghost.n_drop))",
        ], **common)

    # ---------------------------------------------------------------- close frame
    reg.contract(
        WSP + ".sendCloseFrame", props=["C05", "C17"],
        params=dict(S, code="opt:int", reasonUtf8="opt:bytes", isReply="bool"),
        requires=INV + ["implies(code is not None, 0 <= code <= 65535)",
                        "implies(reasonUtf8 is not None, len(reasonUtf8) <= 123)"], modifies=CLOSEFRAME_MOD,
        ensures=INV + [
            MONO, "old(self.state) != 1 and old(self.state) != 4",     # (a connecting endpoint always gets the exception)
            "implies(old(self.state) == 3, self.state == 2 and ghost.close_frames == old(ghost.close_frames) + 1 and "
            "ghost.last_close_payload == close_payload(code, reasonUtf8) and self.closedByMe == (not isReply) and "
            "self.localCloseCode == code)",
            # bounded time: whoever initiates the close arms the close-handshake timer with the configured delay
            "implies(old(self.state) == 3 and not isReply and self.closeHandshakeTimeout > 0, "
            "self.closeHandshakeTimeoutCall is not None and self.closeHandshakeTimeoutCall.active and "
            "self.closeHandshakeTimeoutCall.delay == self.closeHandshakeTimeout and self.closeHandshakeTimeoutCall.kind == 2)",
            "implies(old(self.state) == 3 and (isReply or not (self.closeHandshakeTimeout > 0)), "
            "self.closeHandshakeTimeoutCall is old(self.closeHandshakeTimeoutCall))",
            "implies(old(self.state) == 2 or old(self.state) == 0, self.state == old(self.state) and "
            "ghost.close_frames == old(ghost.close_frames) and ghost.frames_sent == old(ghost.frames_sent) and "
            "self.closedByMe == old(self.closedByMe) and self.closeHandshakeTimeoutCall is old(self.closeHandshakeTimeoutCall) "
            "and ghost.last_close_payload == old(ghost.last_close_payload))",
        ],
        raises={"Exception": "self.state == 1 or self.state == 4"},
        raises_ensures={"Exception": ["self.state == old(self.state) and ghost.frames_sent == old(ghost.frames_sent)"]},
        **common)

    reg.contract(
        "autobahn.util:encode_truncate", props=["C05"], verify=False,
        params={"text": "opt:str", "limit": "nat", "encoding": "str", "return_encoded": "bool"}, returns="opt:bytes",
        ensures=["(result is None) == (text is None)",
                 "implies(result is not None, len(result) <= limit and utf8_valid(result))"], **common)

    reg.contract(
        WSP + ".sendClose", props=["C05"], params=dict(S, code="none|int|bool|str|bytes", reason="none|str|int|bytes"),
        requires=INV, modifies=CLOSEFRAME_MOD,
        ensures=INV + [
            MONO,
            # accepted arguments: no code, 1000 or 3000..4999; a str reason only together with a code
            "code is None or (isinstance(code, int) and (code == 1000 or 3000 <= code <= 4999))",
            "reason is None or (isinstance(reason, str) and code is not None)",
            "implies(old(self.state) == 3, self.state == 2 and ghost.close_frames == 1 and self.closedByMe)",
            # wire format: !H code ++ reason, reason at most 123 octets of valid UTF-8
            "implies(old(self.state) == 3 and code is None, ghost.last_close_payload == b'')",
            "implies(old(self.state) == 3 and code is not None, ghost.last_close_payload[0:2] == be16(code) and "
            "len(ghost.last_close_payload) <= 125 and (reason is not None or len(ghost.last_close_payload) == 2) and "
            "utf8_valid(ghost.last_close_payload[2:]))",
            "implies(old(self.state) != 3, ghost.frames_sent == old(ghost.frames_sent) and self.state == old(self.state))",
        ],
        raises={"Exception": "self.state == 1 or self.state == 4 or not (code is None or (isinstance(code, int) and "
                             "(code == 1000 or 3000 <= code <= 4999))) or not (reason is None or "
                             "(isinstance(reason, str) and code is not None))"},
        raises_ensures={"Exception": ["ghost.frames_sent == old(ghost.frames_sent) and self.state == old(self.state)"]},
        **common)

    build_close(reg, common)
    build_receive(reg, common)
    build_connection_made(reg, common)


def build_close(reg, common):
    TIMER_ACTIVE = "({f} is not None and {f}.active and {f}.delay == {d} and {f}.kind == {k})"
    # ---------------------------------------------------------------- timeout handlers (C05 forward-only, C17 no effect when closed)
    NOEFFECT = ("self.wasClean == old(self.wasClean) and self.wasNotCleanReason is old(self.wasNotCleanReason) and "
                "ghost.n_drop == old(ghost.n_drop) and self.state == 0 and self.droppedByMe == old(self.droppedByMe)")
    for name, field, flag, guard_open in (
            ("onCloseHandshakeTimeout", "closeHandshakeTimeoutCall", "wasCloseHandshakeTimeout", "old(self.state) != 0"),
            ("onServerConnectionDropTimeout", "serverConnectionDropTimeoutCall", "wasServerConnectionDropTimeout",
             "old(self.state) != 0"),
            ("onOpenHandshakeTimeout", "openHandshakeTimeoutCall", "wasOpenHandshakeTimeout",
             "(old(self.state) == 1 or old(self.state) == 4)")):
        reg.contract(
            WSP + "." + name, props=["C05", "C17"], params=dict(S), requires=INV,
            modifies=["self." + field, "self.wasClean", "self.wasNotCleanReason", "self." + flag] + DROP_MOD,
            ensures=INV + [
                MONO, "self.%s is None" % field,
                # deadline passed and the condition still holds: drop, unclean, with the corresponding reason flag
                "implies(%s, self.state == 0 and not self.wasClean and self.%s and self.wasNotCleanReason is not None and "
                "ghost.n_drop == old(ghost.n_drop) + 1 and ghost.drop_abort)" % (guard_open, flag),
                # otherwise the timer has no effect at all
                "implies(not %s, self.wasClean == old(self.wasClean) and self.wasNotCleanReason is old(self.wasNotCleanReason) "
                "and ghost.n_drop == old(ghost.n_drop) and self.state == old(self.state) and "
                "self.droppedByMe == old(self.droppedByMe) and self.%s == old(self.%s))" % (guard_open, flag, flag),
            ], **common)
    reg.contract(
        WSP + ".onAutoPingTimeout", props=["C05", "C17"], params=dict(S), requires=INV,
        modifies=["self.autoPingTimeoutCall", "self.wasClean", "self.wasNotCleanReason"] + DROP_MOD,
        ensures=INV + [
            MONO, "self.autoPingTimeoutCall is None",
            "implies(old(self.state) != 0, self.state == 0 and not self.wasClean and self.wasNotCleanReason is not None and "
            "ghost.n_drop == old(ghost.n_drop) + 1 and ghost.drop_abort)",
            "implies(old(self.state) == 0, " + NOEFFECT + ")",
        ], **common)

    # ---------------------------------------------------------------- received close frame
    CLIENT_DROP_TIMER = TIMER_ACTIVE.format(f="self.serverConnectionDropTimeoutCall", d="self.serverConnectionDropTimeout", k=3)
    CLOSE_TIMER = TIMER_ACTIVE.format(f="self.closeHandshakeTimeoutCall", d="self.closeHandshakeTimeout", k=2)
    reg.contract(
        WSP + ".onCloseFrame", props=["C02", "C05", "C17"],
        params=dict(S, code="opt:int", reasonRaw="opt:bytes"), returns="opt:bool",
        requires=INV + ["implies(code is not None, 0 <= code <= 65535)", "self.state != 1 and self.state != 4",
                        "implies(code is None, reasonRaw is None)",     # a reason only follows a status code (5.5.1)
                        "implies(self.closeHandshakeTimeoutCall is not None, self.closeHandshakeTimeoutCall.kind == 2)"],
        modifies=sorted(set(FAIL_MOD + ["self.remoteCloseCode", "self.remoteCloseReason", "self.wasClean",
                                        "self.closeHandshakeTimeoutCall", "self.closeHandshakeTimeoutCall.active",
                                        "self.serverConnectionDropTimeoutCall",
                                        "self.serverConnectionDropTimeoutCall.active", "ghost.timers_armed"])),
        ensures=INV + [
            MONO,
            # ---- C02: verdict on the close payload (code per RFC 6455 7.4 / IANA; reason complete valid UTF-8)
            "implies(old(self.state) != 0 and code is not None and rfc_close_code_invalid(code), self.failedByMe)",
            "implies(old(self.state) != 0 and reasonRaw is not None and not utf8_complete(reasonRaw), self.failedByMe)",
            "implies(not old(self.failedByMe) and (code is None or rfc_close_code_valid(code)) and "
            "(reasonRaw is None or utf8_complete(reasonRaw)), not self.failedByMe)",
            "implies(self.failedByMe and not old(self.failedByMe) and self.failByDrop, self.state == 0 and not self.wasClean)",
            # announced status: 1002 for a bad code (checked first), 1007 for a bad reason
            "implies(old(self.state) == 3 and not self.failByDrop and code is not None and rfc_close_code_invalid(code), "
            "ghost.close_frames == 1 and ghost.last_close_payload[0:2] == be16(1002))",
            "implies(old(self.state) == 3 and not self.failByDrop and (code is None or rfc_close_code_valid(code)) and "
            "reasonRaw is not None and not utf8_complete(reasonRaw), "
            "ghost.close_frames == 1 and ghost.last_close_payload[0:2] == be16(1007))",
            # ---- C05: clean only with close frames in both directions; code/reason reported are the peer's
            "implies(self.wasClean and not old(self.wasClean), ghost.close_frames == 1)",
            "implies(old(self.state) != 0 and not old(self.failedByMe) and not self.failedByMe, self.remoteCloseCode is code)",
            "implies(not old(self.failedByMe) and not self.failedByMe and reasonRaw is None, self.remoteCloseReason is None)",
            # reply to a peer-initiated close: exactly one close frame; an echoed code has passed validation
            "implies(old(self.state) == 3 and not self.failedByMe, ghost.close_frames == 1 and "
            "len(ghost.last_close_payload) <= 125 and (self.state == 2 or self.state == 0))",
            "implies(old(self.state) == 3 and not self.failedByMe and len(ghost.last_close_payload) >= 2, "
            "exists_code(ghost.last_close_payload))",
            # server side: TCP dropped right after the handshake completes
            "implies(self.factory.isServer and not self.failedByMe and old(self.state) != 0, self.state == 0)",
            # ---- C05/C17 bounded time: a client left in CLOSING has a drop timer pending (or none is configured)
            "implies(self.state == 2 and not self.factory.isServer and not self.failedByMe, "
            + CLIENT_DROP_TIMER + " or " + CLOSE_TIMER + " or not (self.serverConnectionDropTimeout > 0))",
            # ---- C17: our close frame was answered: the close-handshake timer is cancelled
            "implies(old(self.state) == 2 and not self.failedByMe, self.closeHandshakeTimeoutCall is None and "
            "implies(old(self.closeHandshakeTimeoutCall) is not None, not old(self.closeHandshakeTimeoutCall).active))",
            "implies(old(self.state) == 2 and not self.failedByMe and not self.factory.isServer and "
            "self.serverConnectionDropTimeout > 0, " + CLIENT_DROP_TIMER + ")",
            # ---- C05/C17 bounded time over histories: a drop deadline that is already pending is never pushed back by
            #      (further) close frames -- the handle armed first stays active until it fires or the transport is lost
            "implies(old(self.serverConnectionDropTimeoutCall) is not None and "
            "old(self.serverConnectionDropTimeoutCall.active), old(self.serverConnectionDropTimeoutCall).active)",
        ],
        hints=["utf8_decoder_agrees(reasonRaw)"], **common)

    # ---------------------------------------------------------------- transport lost
    CL_MOD = ["self.serverConnectionDropTimeoutCall", "self.serverConnectionDropTimeoutCall.active",
              "self.autoPingPendingCall", "self.autoPingPendingCall.active", "self.autoPingTimeoutCall",
              "self.autoPingTimeoutCall.active", "self.openHandshakeTimeoutCall", "self.openHandshakeTimeoutCall.active",
              "self.state", "self.is_closed.done", "self.wasNotCleanReason", "ghost.n_onclose", "ghost.onclose_clean",
              "ghost.onclose_code", "ghost.onclose_reason"]
    CL_POST = [
        "self.state == 0",
        # the application is told exactly once, after the transport is gone
        "implies(not self.wasServingFlashSocketPolicyFile, ghost.n_onclose == 1 and ghost.onclose_clean == self.wasClean)",
        "implies(self.wasServingFlashSocketPolicyFile, ghost.n_onclose == 0)",
        # clean => the peer's code and reason; unclean => 1006
        "implies(not self.wasServingFlashSocketPolicyFile and self.wasClean, ghost.onclose_code is self.remoteCloseCode "
        "and ghost.onclose_reason is self.remoteCloseReason)",
        "implies(not self.wasServingFlashSocketPolicyFile and not self.wasClean, ghost.onclose_code == 1006)",
        # every timer that could still act on the connection is cancelled
        "self.autoPingPendingCall is None or not self.autoPingPendingCall.active",
        "self.autoPingTimeoutCall is None or not self.autoPingTimeoutCall.active",
        "self.openHandshakeTimeoutCall is None",
        "implies(not self.factory.isServer, self.serverConnectionDropTimeoutCall is None)",
        "implies(old(self.openHandshakeTimeoutCall) is not None, not old(self.openHandshakeTimeoutCall).active)",
        "implies(not self.factory.isServer and old(self.serverConnectionDropTimeoutCall) is not None, "
        "not old(self.serverConnectionDropTimeoutCall).active)",
        "self.wasClean == old(self.wasClean)",
    ]
    CL_PRE = INV + ["ghost.n_onclose == 0"]     # the framework delivers connectionLost at most once (assumed)
    reg.contract(WSP + "._connectionLost", props=["C05", "C17"], params=dict(S, reason="any"),
                 requires=CL_PRE, modifies=CL_MOD, ensures=INV + [MONO] + CL_POST, **common)
    reg.contract(P + ":WebSocketServerProtocol._connectionLost", props=["C05", "C17"],
                 params={"self": "obj:WSServer", "reason": "any"}, requires=CL_PRE + ["self.factory.isServer"],
                 modifies=CL_MOD + ["self.factory.countConnections"], ensures=INV + [MONO] + CL_POST, **common)
    reg.contract(P + ":WebSocketClientProtocol._connectionLost", props=["C05", "C17"],
                 params={"self": "obj:WSClient", "reason": "any"}, requires=CL_PRE + ["not self.factory.isServer"],
                 modifies=CL_MOD, ensures=INV + [MONO] + CL_POST, **common)


def build_receive(reg, common):
    SIZE_BAD = "size_bad(old(self.message_data_total_length), length, self.maxMessagePayloadSize, self.maxFramePayloadSize)"
    RECV_PRE = INV + ["self.state != 1 and self.state != 4"]
    # ---------------------------------------------------------------- streaming callbacks (default implementations)
    reg.contract(WSP + ".onMessageBegin", props=["C16", "C02"], params=dict(S, isBinary="bool"),
                 modifies=["self.message_is_binary", "self.message_data", "self.message_data_total_length"],
                 ensures=["self.message_is_binary == isBinary", "self.message_data is not None and len(self.message_data) == 0",
                          "self.message_data_total_length == 0"], **common)
    reg.contract(
        WSP + ".onMessageFrameBegin", props=["C16"], params=dict(S, length="nat"), requires=RECV_PRE,
        modifies=sorted(set(FAIL_MOD + ["self.frame_length", "self.frame_data", "self.message_data_total_length",
                                        "self.wasMaxMessagePayloadSizeExceeded", "self.wasMaxFramePayloadSizeExceeded"])),
        ensures=INV + [
            MONO, NOT_CLEANER,
            "self.frame_length == length and self.frame_data is not None and len(self.frame_data) == 0",
            # the *declared* length is accumulated (before any payload octet is read)
            "self.message_data_total_length == old(self.message_data_total_length) + length",
            # fails with 1009 iff a configured limit is exceeded; at or below the limit nothing fails
            "self.failedByMe == (old(self.failedByMe) or (old(self.state) != 0 and %s))" % SIZE_BAD,
            "implies(not old(self.failedByMe) and %s and old(self.state) == 3 and not self.failByDrop, self.state == 2 and "
            "ghost.close_frames == 1 and ghost.last_close_payload[0:2] == be16(1009))" % SIZE_BAD,
            "implies(not old(self.failedByMe) and %s and old(self.state) != 0 and self.failByDrop, self.state == 0 and "
            "not self.wasClean)" % SIZE_BAD,
            "implies(old(self.failedByMe) or not %s, self.state == old(self.state) and "
            "ghost.close_frames == old(ghost.close_frames) and ghost.n_drop == old(ghost.n_drop) and "
            "self.wasClean == old(self.wasClean))" % SIZE_BAD,
        ], **common)
    reg.contract(
        WSP + ".onMessageFrameData", props=["C16", "C02"], params=dict(S, payload="bytes"),
        requires=["self.frame_data is not None"], modifies=["self.frame_data"],
        ensures=[
            "self.frame_data is not None",
            # nothing is buffered once the connection has been failed
            "implies(self.failedByMe, self.frame_data is old(self.frame_data) and len(self.frame_data) == old(len(self.frame_data)))",
            "implies(not self.failedByMe, len(self.frame_data) == old(len(self.frame_data)) + 1 and "
            "self.frame_data[len(self.frame_data) - 1] == payload and "
            "join(self.frame_data) == old(join(self.frame_data)) + payload)"],
        **common)
    reg.contract(
        WSP + ".onMessageFrame", props=["C16", "C02"], params=dict(S, payload="list:bytes"),
        requires=["self.message_data is not None"], modifies=["self.message_data"],
        ensures=["self.message_data is not None",
                 "implies(self.failedByMe, len(self.message_data) == old(len(self.message_data)))",
                 "implies(not self.failedByMe, join(self.message_data) == old(join(self.message_data)) + join(payload))"],
        **common)
    reg.contract(
        WSP + ".onMessageFrameEnd", props=["C16", "C02"], params=dict(S),
        requires=["self.message_data is not None and self.frame_data is not None"],
        modifies=["self.message_data", "self.frame_data"],
        ensures=["self.frame_data is None", "self.message_data is not None",
                 "implies(self.failedByMe, len(self.message_data) == old(len(self.message_data)))",
                 "implies(not self.failedByMe, join(self.message_data) == old(join(self.message_data)) + old(join(self.frame_data)))"],
        **common)
    reg.contract(
        WSP + ".onMessageEnd", props=["C16", "C02"], params=dict(S),
        requires=["self.message_data is not None"],
        modifies=["self.message_data", "ghost.delivered", "ghost.delivered_binary"],
        ensures=[
            "self.message_data is None",
            # delivered exactly once, whole, with its type -- and never after the connection was failed
            "implies(not self.failedByMe, len(ghost.delivered) == old(len(ghost.delivered)) + 1 and "
            "ghost.delivered[len(ghost.delivered) - 1] == old(join(self.message_data)) and "
            "ghost.delivered_binary[len(ghost.delivered_binary) - 1] == self.message_is_binary)",
            "implies(self.failedByMe, len(ghost.delivered) == old(len(ghost.delivered)))"],
        **common)
    build_frames(reg, common, RECV_PRE)


def build_frames(reg, common, RECV_PRE):
    CF = "self.current_frame"
    DATA_MOD = sorted(set(FAIL_MOD + [
        "self.control_frame_data", "self.inside_message", "self._isMessageCompressed", "self.utf8validator._state",
        "self.utf8validator._index", "self.utf8validator._codepoint", "self.utf8validateIncomingCurrentMessage", "self.utf8validateLast",
        "self.message_is_binary", "self.message_data", "self.message_data_total_length", "self.frame_length",
        "self.frame_data", "self.wasMaxMessagePayloadSizeExceeded", "self.wasMaxFramePayloadSizeExceeded"]))
    TOTAL0 = "(old(self.message_data_total_length) if old(self.inside_message) else 0)"
    SIZE_BAD = ("size_bad(%s, self.current_frame.length, self.maxMessagePayloadSize, self.maxFramePayloadSize)" % TOTAL0)
    # ---------------------------------------------------------------- onFrameBegin
    reg.contract(
        WSP + ".onFrameBegin", props=["C02", "C16", "C12"], params=dict(S),
        requires=RECV_PRE + [CF + " is not None",
                             "implies(%s.opcode <= 7 and self.inside_message, self.message_data is not None)" % CF],
        modifies=DATA_MOD,
        ensures=INV + [
            MONO, NOT_CLEANER,
            "implies(%s.opcode > 7, self.control_frame_data is not None and len(self.control_frame_data) == 0 and "
            "self.failedByMe == old(self.failedByMe) and self.state == old(self.state) and "
            "self.inside_message == old(self.inside_message) and self.message_data is old(self.message_data) and "
            "ghost.close_frames == old(ghost.close_frames) and ghost.n_drop == old(ghost.n_drop))" % CF,
            # data frame: the declared length is checked against the limits before any payload octet is read
            "implies(%s.opcode <= 7, self.inside_message and self.frame_data is not None and len(self.frame_data) == 0 and "
            "self.message_data is not None and "
            "self.message_data_total_length == %s + %s.length)" % (CF, TOTAL0, CF),
            "implies(%s.opcode <= 7, self.failedByMe == (old(self.failedByMe) or (old(self.state) != 0 and %s)))" % (CF, SIZE_BAD),
            "implies(%s.opcode <= 7 and not old(self.failedByMe) and %s and old(self.state) == 3 and not self.failByDrop, "
            "self.state == 2 and ghost.close_frames == 1 and ghost.last_close_payload[0:2] == be16(1009))" % (CF, SIZE_BAD),
            "implies(%s.opcode <= 7 and (old(self.failedByMe) or not %s), self.state == old(self.state) and "
            "ghost.close_frames == old(ghost.close_frames) and ghost.n_drop == old(ghost.n_drop))" % (CF, SIZE_BAD),
            # first frame of a message: type, empty buffers, UTF-8 validation armed for text messages
            "implies(%s.opcode <= 7 and not old(self.inside_message), len(self.message_data) == 0 and "
            "self.message_is_binary == (%s.opcode == 2) and "
            "self.utf8validateIncomingCurrentMessage == (%s.opcode == 1 and self.utf8validateIncoming) and "
            "implies(self.utf8validateIncomingCurrentMessage, self.utf8validator._state == 0 and self.utf8validateLast[1]))"
            % (CF, CF, CF),
            "implies(%s.opcode <= 7 and old(self.inside_message), self.message_data is old(self.message_data) and "
            "len(self.message_data) == old(len(self.message_data)) and "
            "self.utf8validateIncomingCurrentMessage == old(self.utf8validateIncomingCurrentMessage) and "
            "self.utf8validator._state == old(self.utf8validator._state) and "
            "self.utf8validateLast[1] == old(self.utf8validateLast[1]))" % CF,
            # (C12) a message is inflated exactly when its *first* frame carries RSV1 and an extension is negotiated;
            # continuation and control frames never change that
            "implies(%s.opcode <= 7 and not old(self.inside_message), self._isMessageCompressed == "
            "(self._perMessageCompress is not None and %s.rsv == 4))" % (CF, CF),
            "implies(%s.opcode > 7 or old(self.inside_message), self._isMessageCompressed == old(self._isMessageCompressed))" % CF,
        ], **common)

    # ---------------------------------------------------------------- onFrameData
    # the application-level octets of this chunk: the payload itself, or -- inside a compressed message -- what the
    # negotiated extension inflates it to (arbitrary octets as far as this unit knows; a damaged stream makes the codec raise)
    AP = "(ghost.last_inflated if (%s.opcode <= 7 and old(self._isMessageCompressed)) else payload)" % CF
    VALID_CHUNK = "utf8_run(from_table(old(self.utf8validator._state)), %s, len(%s)) != 8" % (AP, AP)
    reg.contract(
        WSP + ".onFrameData", props=["C02", "C16", "C12"], params=dict(S, payload="bytes"), returns="opt:bool",
        requires=RECV_PRE + [CF + " is not None", "implies(self._isMessageCompressed, self._perMessageCompress is not None)",
                             "implies(%s.opcode > 7, self.control_frame_data is not None)" % CF,
                             "implies(%s.opcode <= 7, self.frame_data is not None)" % CF,
                             "len(payload) < 2**62 and self.utf8validator._index + len(payload) < 2**63"],
        modifies=sorted(set(FAIL_MOD + ["self.control_frame_data", "self.frame_data", "self.utf8validator._state",
                                        "self.utf8validator._index", "self.utf8validateLast", "ghost.last_inflated"])),
        ensures=INV + [
            MONO, NOT_CLEANER,
            "implies(%s.opcode > 7, join(self.control_frame_data) == old(join(self.control_frame_data)) + payload and "
            "self.failedByMe == old(self.failedByMe) and self.state == old(self.state))" % CF,
            # text message payload: fail with 1007 at the first chunk that makes the octets so far invalid UTF-8
            "implies(%s.opcode <= 7 and self.utf8validateIncomingCurrentMessage and old(self.state) != 0 and not (%s), "
            "self.failedByMe)" % (CF, VALID_CHUNK),
            "implies(%s.opcode <= 7 and self.utf8validateIncomingCurrentMessage and old(self.state) == 3 and not (%s) "
            "and not self.failByDrop, ghost.close_frames == 1 and ghost.last_close_payload[0:2] == be16(1007))" % (CF, VALID_CHUNK),
            "implies(%s.opcode <= 7 and self.utf8validateIncomingCurrentMessage and old(self.state) != 0 and not (%s) "
            "and self.failByDrop, result is False and self.state == 0)" % (CF, VALID_CHUNK),
            "implies(%s.opcode <= 7 and (not self.utf8validateIncomingCurrentMessage or %s), "
            "self.failedByMe == old(self.failedByMe) and self.state == old(self.state) and result is None)" % (CF, VALID_CHUNK),
            "implies(%s.opcode <= 7 and self.utf8validateIncomingCurrentMessage and %s, "
            "self.utf8validator._state == to_table(utf8_run(from_table(old(self.utf8validator._state)), %s, len(%s))) "
            "and self.utf8validateLast[1] == (self.utf8validator._state == 0))" % (CF, VALID_CHUNK, AP, AP),
            # buffered only while the connection has not been failed
            "implies(%s.opcode <= 7 and not self.failedByMe and not (result is False), "
            "join(self.frame_data) == old(join(self.frame_data)) + %s)" % (CF, AP),
            "implies(%s.opcode <= 7 and self.failedByMe and not (result is False), len(self.frame_data) == old(len(self.frame_data)))" % CF,
        ],
        # a damaged compressed stream: the codec's exception escapes this unit with nothing buffered from the chunk
        raises={"Exception": "self.current_frame.opcode <= 7 and self._isMessageCompressed"},
        raises_ensures={"Exception": ["implies(self.frame_data is not None and old(self.frame_data) is not None, "
                                      "len(self.frame_data) == old(len(self.frame_data)))"]}, **common)

    # ---------------------------------------------------------------- ping / pong
    reg.contract(
        WSP + ".sendPong", props=["C02", "C05"], params=dict(S, payload="opt:bytes"), requires=INV,
        modifies=GHOST_FRAME,
        ensures=INV + [
            "implies(self.state == 3, ghost.frames_sent == old(ghost.frames_sent) + 1 and ghost.last_frame_opcode == 10 "
            "and ghost.last_frame_payload == (payload if payload is not None else b'') and ghost.last_frame_fin)",
            "implies(self.state != 3, ghost.frames_sent == old(ghost.frames_sent))",      # nothing is written unless OPEN
            "ghost.close_frames == old(ghost.close_frames)"],
        raises={"Exception": "self.state == 3 and payload is not None and len(payload) > 125"}, **common)
    reg.contract(
        WSP + ".sendPing", props=["C05", "C17"], params=dict(S, payload="opt:bytes"), requires=INV,
        modifies=GHOST_FRAME,
        ensures=INV + [
            "implies(self.state == 3, ghost.frames_sent == old(ghost.frames_sent) + 1 and ghost.last_frame_opcode == 9 "
            "and ghost.last_frame_payload == (payload if payload is not None else b''))",
            "implies(self.state != 3, ghost.frames_sent == old(ghost.frames_sent))",
            "ghost.close_frames == old(ghost.close_frames)"],
        raises={"Exception": "self.state == 3 and payload is not None and len(payload) > 125"}, **common)
    reg.contract(
        WSP + ".onPing", props=["C02"], params=dict(S, payload="bytes"), requires=INV + ["len(payload) <= 125"],
        modifies=GHOST_FRAME,
        ensures=INV + [
            # every ping received while OPEN is answered by a pong carrying the same payload
            "implies(self.state == 3, ghost.frames_sent == old(ghost.frames_sent) + 1 and ghost.last_frame_opcode == 10 "
            "and ghost.last_frame_payload == payload)",
            "implies(self.state != 3, ghost.frames_sent == old(ghost.frames_sent))",
            "ghost.close_frames == old(ghost.close_frames)"], **common)

    build_control(reg, common, RECV_PRE, DATA_MOD)


def build_control(reg, common, RECV_PRE, DATA_MOD):
    CF = "self.current_frame"
    PING_MOD = ["self.autoPingPending", "self.autoPingPendingSent", "self.autoPingTimeoutCall",
                "self.autoPingTimeoutCall.active", "self.autoPingPendingCall", "self.autoPingPendingCall.active",
                "ghost.timers_armed", "ghost.pongs_received"]
    CLOSE_MOD = ["self.remoteCloseCode", "self.remoteCloseReason", "self.wasClean", "self.closeHandshakeTimeoutCall",
                 "self.closeHandshakeTimeoutCall.active", "self.serverConnectionDropTimeoutCall"]
    TIMER_KINDS_OK = ["implies(self.closeHandshakeTimeoutCall is not None, self.closeHandshakeTimeoutCall.kind == 2)"]
    PING_TIMER = ("(self.autoPingPendingCall is not None and self.autoPingPendingCall.active and "
                  "self.autoPingPendingCall.delay == self.autoPingInterval and self.autoPingPendingCall.kind == 5)")
    # ---------------------------------------------------------------- processControlFrame
    reg.contract(
        WSP + ".processControlFrame", props=["C02", "C17"], params=dict(S), returns="bool",
        requires=RECV_PRE + TIMER_KINDS_OK + [
            CF + " is not None and " + CF + ".opcode > 7", "self.control_frame_data is not None",
            "len(join(self.control_frame_data)) <= 125",
            "implies(%s.opcode == 8, len(join(self.control_frame_data)) != 1)" % CF,
            # an outstanding auto-ping payload is (sent-time: 8, sequence: 4, random: autoPingSize - 12) octets
            "implies(self.autoPingPending is not None, len(self.autoPingPending) >= 12)"],
        modifies=sorted(set(FAIL_MOD + ["self.control_frame_data"] + PING_MOD + CLOSE_MOD)),
        ensures=INV + [
            MONO, "self.control_frame_data is None",
            # ping: answered by a pong with the same payload while OPEN
            "implies(%s.opcode == 9 and self.state == 3 and not old(self.failedByMe), ghost.frames_sent == old(ghost.frames_sent) + 1 "
            "and ghost.last_frame_opcode == 10 and ghost.last_frame_payload == old(join(self.control_frame_data)))" % CF,
            # once this side has failed the connection neither pings nor pongs are handed to the application any more
            "implies(old(self.failedByMe) and %s.opcode != 8, ghost.frames_sent == old(ghost.frames_sent) and "
            "len(ghost.pongs_received) == old(len(ghost.pongs_received)))" % CF,
            "implies(%s.opcode == 9, self.state == old(self.state) and self.failedByMe == old(self.failedByMe) and "
            "ghost.close_frames == old(ghost.close_frames))" % CF,
            # pong: delivered; the matching auto-ping timeout is cancelled and the next ping scheduled
            "implies(%s.opcode == 10, len(ghost.pongs_received) == old(len(ghost.pongs_received)) + "
            "(0 if old(self.failedByMe) else 1) and "
            "self.state == old(self.state) and self.failedByMe == old(self.failedByMe) and "
            "ghost.frames_sent == old(ghost.frames_sent))" % CF,
            "implies(%s.opcode == 10 and old(self.autoPingPending) is not None and "
            "old(join(self.control_frame_data)) == old(self.autoPingPending), self.autoPingPending is None and "
            "self.autoPingTimeoutCall is None and "
            "implies(old(self.autoPingTimeoutCall) is not None, not old(self.autoPingTimeoutCall).active) and "
            "implies(self.autoPingInterval != 0, %s))" % (CF, PING_TIMER),
            "implies(%s.opcode == 10 and (old(self.autoPingPending) is None or "
            "old(join(self.control_frame_data)) != old(self.autoPingPending)), "
            "self.autoPingTimeoutCall is old(self.autoPingTimeoutCall) and self.autoPingPending is old(self.autoPingPending))" % CF,
            # close: the verdict on code / reason is that of onCloseFrame (its own unit); first violation fails the connection
            "implies(%s.opcode == 8 and old(self.state) != 0 and len(old(join(self.control_frame_data))) >= 2 and "
            "rfc_close_code_invalid(old(join(self.control_frame_data))[0] * 256 + old(join(self.control_frame_data))[1]), "
            "self.failedByMe)" % CF,
            "implies(%s.opcode == 8 and len(old(join(self.control_frame_data))) == 0 and not old(self.failedByMe), "
            "not self.failedByMe)" % CF,
        ],
        known={}, **common)
    # ---------------------------------------------------------------- auto-ping restart on traffic (C17)
    reg.contract(
        WSP + "._cancelAutoPingTimeoutCall", props=["C17"], params=dict(S),
        requires=["self.autoPingTimeoutCall is not None"], modifies=PING_MOD,
        ensures=[
            "self.autoPingTimeoutCall is None and not old(self.autoPingTimeoutCall).active and self.autoPingPending is None",
            "implies(old(self.autoPingPendingCall) is not None, not old(self.autoPingPendingCall).active)",
            # pings keep being scheduled at the configured interval
            "implies(self.autoPingInterval != 0, %s)" % PING_TIMER,
            "implies(self.autoPingInterval == 0, self.autoPingPendingCall is None)",
            "len(ghost.pongs_received) == old(len(ghost.pongs_received))"], **common)

    # ---------------------------------------------------------------- onFrameEnd
    FIN_OK = ("(old(%s.fin) and (not self.utf8validateIncomingCurrentMessage or old(self.utf8validateLast[1])))" % CF)
    reg.contract(
        WSP + ".onFrameEnd", props=["C02", "C16", "C17"], params=dict(S), returns="opt:bool",
        requires=RECV_PRE + TIMER_KINDS_OK + [
            CF + " is not None", "implies(self._isMessageCompressed, self._perMessageCompress is not None)",
            "implies(%s.opcode > 7, self.control_frame_data is not None and len(join(self.control_frame_data)) <= 125 and "
            "implies(%s.opcode == 8, len(join(self.control_frame_data)) != 1))" % (CF, CF),
            "implies(%s.opcode <= 7, self.frame_data is not None and self.message_data is not None)" % CF,
            "implies(self.autoPingPending is not None, len(self.autoPingPending) >= 12)"],
        modifies=sorted(set(FAIL_MOD + ["self.control_frame_data", "self.frame_data", "self.message_data",
                                        "self.inside_message", "self.current_frame", "ghost.delivered",
                                        "ghost.delivered_binary"] + PING_MOD + CLOSE_MOD)),
        ensures=INV + [
            MONO, "implies(not (result is False), self.current_frame is None)",
            # data frame that does not end a message: nothing is delivered yet
            "implies(old(%s.opcode) <= 7 and not old(%s.fin), len(ghost.delivered) == old(len(ghost.delivered)) and "
            "self.inside_message == old(self.inside_message) and self.failedByMe == old(self.failedByMe))" % (CF, CF),
            # final frame of a text message that stops inside a code point: invalid payload (1007), nothing delivered
            "implies(old(%s.opcode) <= 7 and old(%s.fin) and self.utf8validateIncomingCurrentMessage and "
            "not old(self.utf8validateLast[1]) and old(self.state) != 0, self.failedByMe and "
            "len(ghost.delivered) == old(len(ghost.delivered)))" % (CF, CF),
            "implies(old(%s.opcode) <= 7 and old(%s.fin) and self.utf8validateIncomingCurrentMessage and "
            "not old(self.utf8validateLast[1]) and old(self.state) == 3 and not self.failByDrop, "
            "ghost.close_frames == 1 and ghost.last_close_payload[0:2] == be16(1007))" % (CF, CF),
            # complete message: delivered exactly once, whole (all frames' payload in order), with its type
            "implies(old(%s.opcode) <= 7 and %s and not old(self.failedByMe), "
            "len(ghost.delivered) == old(len(ghost.delivered)) + 1 and "
            "ghost.delivered[len(ghost.delivered) - 1] == old(join(self.message_data)) + old(join(self.frame_data)) and "
            "ghost.delivered_binary[len(ghost.delivered_binary) - 1] == self.message_is_binary and "
            "not self.inside_message and not self.failedByMe)" % (CF, FIN_OK),
            # no message after the connection has been failed
            "implies(old(self.failedByMe), len(ghost.delivered) == old(len(ghost.delivered)))",
            "implies(old(%s.opcode) > 7, len(ghost.delivered) == old(len(ghost.delivered)))" % CF,
        ], **common)
    build_process_data(reg, common, RECV_PRE, DATA_MOD)


def build_process_data(reg, common, RECV_PRE, DATA_MOD):
    D = "old(self.data)"
    HDR_OK = ("rfc_header_ok(%s[0], %s[1], self.factory.isServer, self.requireMaskedClientFrames, "
              "self.acceptMaskedServerFrames, self._perMessageCompress is not None, old(self.inside_message))" % (D, D))
    COMPLETE = "(len(%s) >= 2 and len(%s) >= header_len(%s[1]))" % (D, D, D)
    IS_DATA = "(%s[0] %% 16 <= 7)" % D
    SIZE_BAD = ("size_bad((old(self.message_data_total_length) if old(self.inside_message) else 0), payload_len(%s), "
                "self.maxMessagePayloadSize, self.maxFramePayloadSize)" % D)
    VIOLATION = "(len(%s) >= 2 and (not %s or (%s and not rfc_extlen_ok(%s))))" % (D, HDR_OK, COMPLETE, D)
    PD_MOD = sorted(set(DATA_MOD + ["self.data", "self.current_frame", "self.current_frame_masker"]))
    reg.contract(
        WSP + ".processData", name=WSP + ".processData[header]", props=["C02", "C16", "C01"], params=dict(S), returns="bool",
        requires=RECV_PRE + ["self.current_frame is None", "self.state == 3 and not self.failedByMe",
                             "implies(self.inside_message, self.message_data is not None)"],
        modifies=PD_MOD,
        ensures=INV + [
            MONO,
            # ---- C02: the connection is failed iff the header violates RFC 6455 (for every pair of header octets, every
            #      receiver configuration, every extended length) -- or a configured size limit (C16)
            "self.failedByMe == (%s or (%s and not %s and %s and %s))" % (VIOLATION, COMPLETE, VIOLATION, IS_DATA, SIZE_BAD),
            "implies(%s and self.failByDrop, result is False and self.state == 0 and not self.wasClean)" % VIOLATION,
            "implies(%s and not self.failByDrop, ghost.close_frames == 1 and ghost.last_close_payload[0:2] == be16(1002) and "
            "(self.state == 2 or self.state == 0))" % VIOLATION,
            # ---- C16: an over-limit frame is refused with 1009 as soon as its header is complete; none of its payload
            #      has been consumed or buffered at that point
            "implies(%s and not %s and %s and %s and not self.failByDrop, ghost.close_frames == 1 and "
            "ghost.last_close_payload[0:2] == be16(1009) and self.frame_data is not None and len(self.frame_data) == 0)"
            % (COMPLETE, VIOLATION, IS_DATA, SIZE_BAD),
            # ---- need more data: nothing consumed, nothing changed
            "implies(not %s and not %s, result is False and self.data == old(self.data) and self.current_frame is None "
            "and self.state == 3)" % (COMPLETE, VIOLATION),
            # ---- complete valid header: exactly the header is consumed and decoded (RFC 6455 5.2)
            "implies(%s and not %s, self.current_frame is not None and self.data == %s[header_len(%s[1]):] and "
            "self.current_frame.opcode == %s[0] %% 16 and self.current_frame.fin == (%s[0] // 128 == 1) and "
            "self.current_frame.rsv == (%s[0] // 16) %% 8 and self.current_frame.length == payload_len(%s))"
            % (COMPLETE, VIOLATION, D, D, D, D, D, D),
            "implies(%s and not %s and %s[1] // 128 == 1, self.current_frame.mask == "
            "%s[header_len(%s[1]) - 4:header_len(%s[1])])" % (COMPLETE, VIOLATION, D, D, D, D),
            "implies(%s and not %s, self.current_frame_masker._ptr == 0 and self.current_frame_masker._null == "
            "(not (%s[1] // 128 == 1 and payload_len(%s) > 0 and self.applyMask)))" % (COMPLETE, VIOLATION, D, D),
            "implies(%s and not %s and not self.failedByMe, result == (payload_len(%s) == 0 or len(self.data) > 0))"
            % (COMPLETE, VIOLATION, D),
        ],
        raises={}, **common)

    build_send(reg, common)


def build_send(reg, common):
    PM = "self._perMessageCompress"
    # the compressor and the wire agree: every message the current compressor has absorbed went out, in full, flagged RSV1
    SYNC = ("(%s is None or %s._compressor is None or ghost.n_absorbed == ghost.sent_rsv1_msgs - ghost.rsv1_base)" % (PM, PM))
    SEND_PRE = INV + ["not ghost.in_msg", "ghost.cur_msg == b''", "not ghost.comp_open", SYNC]
    UNCHANGED = ("ghost.frames_sent == old(ghost.frames_sent) and len(ghost.sent_msgs) == old(len(ghost.sent_msgs)) and "
                 "ghost.cur_msg == old(ghost.cur_msg) and ghost.close_frames == old(ghost.close_frames)")
    COMPRESS = "(%s is not None and not doNotCompress)" % PM
    # history the message is compressed against: empty for a new compressor (none yet, reset, or no context takeover)
    H0 = "(0 if (old(%s._compressor) is None or not %s._takeover) else old(ghost.comp_hist))" % (PM, PM)
    Z = "(cz_data(%s, b'', payload) + cz_end(%s, payload))" % (H0, H0)
    WIRE = "(%s if %s else payload)" % (Z, COMPRESS)
    OVER = "(0 < self.maxMessagePayloadSize and self.maxMessagePayloadSize < len(%s))" % WIRE
    H0P = H0.replace("old(", "(")            # the same terms in clauses evaluated in the pre-state
    ZP, OVERP = Z.replace(H0, H0P), OVER.replace(H0, H0P)
    LAST = "ghost.sent_msgs[len(ghost.sent_msgs) - 1]"
    reg.contract(
        WSP + ".sendMessage", props=["C01", "C05", "C16", "C12"],
        params=dict(S, payload="bytes", isBinary="bool", fragmentSize="opt:int", sync="bool", doNotCompress="bool"),
        requires=SEND_PRE + ["len(payload) < 2**62", "implies(%s is not None, len(%s) < 2**62)" % (PM, ZP)],
        modifies=GHOST_FRAME + ["self.wasMaxMessagePayloadSizeExceeded", "ghost.comp_hist", "ghost.comp_in", "ghost.comp_open",
                                "ghost.n_absorbed", "ghost.rsv1_base", PM + "._compressor"],
        ensures=INV + [
            # exactly one message is emitted: same type, as a well-formed frame sequence, carrying the payload itself --
            # or, with a compression extension negotiated and not switched off for this message, the complete output
            # of the compressor for it, flagged RSV1 on the first frame only
            "len(ghost.sent_msgs) == old(len(ghost.sent_msgs)) + 1 and ghost.sent_binary[len(ghost.sent_binary) - 1] == isBinary",
            "implies(not %s, %s == payload and ghost.sent_rsv[len(ghost.sent_rsv) - 1] == 0)" % (COMPRESS, LAST),
            "implies(%s, %s == %s and ghost.sent_rsv[len(ghost.sent_rsv) - 1] == 4)" % (COMPRESS, LAST, Z),
            # messages flagged do-not-compress never touch the compressor
            "implies(not %s, ghost.n_absorbed == old(ghost.n_absorbed) and ghost.comp_hist == old(ghost.comp_hist))" % COMPRESS,
            SYNC, "not ghost.comp_open",
            "ghost.wellformed == old(ghost.wellformed) and not ghost.in_msg and ghost.cur_msg == b''",
            "old(self.state) == 3 and not %s" % OVER,
            "ghost.close_frames == old(ghost.close_frames)",
        ],
        raises={"Disconnected": "self.state != 3",                         # nothing is written unless OPEN (C05)
                "PayloadExceededError": "self.state == 3 and %s" % OVERP,  # refused locally, nothing written (C16)
                "Exception": "self.state == 3 and fragmentSize is not None and fragmentSize < 1"},
        raises_ensures={"Disconnected": [UNCHANGED, SYNC, "ghost.n_absorbed == old(ghost.n_absorbed)"],
                        # a refused message must not leave the two ends' compression contexts out of step (C12)
                        "PayloadExceededError": [UNCHANGED, SYNC]},
        loops={0: {"invariant": [
            "n == len(payload) and pfs >= 1 and 0 <= i and (done or i <= n) and implies(done, i >= n)",
            "first == (i == 0) and ghost.in_msg == ((not first) and not done)",
            "implies(not done, ghost.cur_msg == payload[0:i] and len(ghost.sent_msgs) == old(len(ghost.sent_msgs)) and "
            "len(ghost.sent_rsv) == old(len(ghost.sent_rsv)) and ghost.sent_rsv1_msgs == old(ghost.sent_rsv1_msgs))",
            "implies(done, ghost.cur_msg == b'' and len(ghost.sent_msgs) == old(len(ghost.sent_msgs)) + 1 and "
            "ghost.sent_msgs[len(ghost.sent_msgs) - 1] == payload and "
            "ghost.sent_binary[len(ghost.sent_binary) - 1] == isBinary and "
            "ghost.sent_rsv[len(ghost.sent_rsv) - 1] == (4 if sendCompressed else 0) and "
            "ghost.sent_rsv1_msgs == old(ghost.sent_rsv1_msgs) + (1 if sendCompressed else 0))",
            "implies(not first and not done, ghost.cur_binary == isBinary and ghost.cur_rsv == (4 if sendCompressed else 0))",
            "ghost.wellformed == old(ghost.wellformed) and ghost.close_frames == old(ghost.close_frames) and self.state == 3",
            "opcode == (2 if isBinary else 1)",
        ] + INV, "modifies": GHOST_FRAME,
            "hints": ["seq_slice_concat(payload, i, i + pfs)", "seq_slice_concat(payload, i, n)"]}},
        asserts="oblige", **common)


def build_connection_made(reg, common):
    """_connectionMade: a new connection starts CONNECTING with no close bookkeeping, no pending ping and exactly the
    open-handshake timer armed (configured delay) -- or no timer at all when that timeout is switched off"""
    OPEN_TIMER = ("(self.openHandshakeTimeoutCall is not None and self.openHandshakeTimeoutCall.active and "
                  "self.openHandshakeTimeoutCall.delay == self.openHandshakeTimeout and self.openHandshakeTimeoutCall.kind == 1)")
    # configuration attributes are copied from the factory unless set on the protocol object: which ones are set is
    # irrelevant here, so the protocol and factory objects of this unit are declared open (further attributes may exist)
    reg.mark_inline(P + ":TrafficStats.reset", P + ":TrafficStats.__init__", P + ":Timings.__init__")
    reg.shape("WSFactoryOpen", fields=dict(reg.shapes["WSFactory"].fields), methods=dict(reg.shapes["WSFactory"].methods))
    reg.shapes["WSFactoryOpen"].open_attrs = True
    for shape, cls in (("WSServer", P + ":WebSocketServerProtocol"), ("WSClient", P + ":WebSocketClientProtocol")):
        reg.shape(shape + "Open", cls=cls, fields=dict(reg.shapes[shape].fields, factory="obj:WSFactoryOpen"),
                  methods=dict(reg.shapes[shape].methods, setTrackTimings="noop"))
        reg.shapes[shape + "Open"].open_attrs = True
        reg.contract(
            WSP + "._connectionMade", name=WSP + "._connectionMade<%s>" % shape, props=["C17", "C05"],
            params={"self": "obj:" + shape + "Open"},
            requires=["self.factory.isServer == %s" % (shape == "WSServer")],
            modifies=["self.*", "ghost.timers_armed"],
            ensures=[
                "self.state == 1 or self.state == 4", "self.send_state == 0 and self.data == b''",
                "implies(self.openHandshakeTimeout > 0, %s)" % OPEN_TIMER,
                "implies(not (self.openHandshakeTimeout > 0), self.openHandshakeTimeoutCall is None)",
                "ghost.timers_armed == old(ghost.timers_armed) + (1 if self.openHandshakeTimeout > 0 else 0)",
                "self.closeHandshakeTimeoutCall is None and self.autoPingTimeoutCall is None and self.autoPingPending is None "
                "and self.autoPingPendingCall is None",
                "not self.closedByMe and not self.failedByMe and not self.droppedByMe and not self.wasClean and "
                "not self.wasOpenHandshakeTimeout and not self.wasCloseHandshakeTimeout and "
                "not self.wasServerConnectionDropTimeout",
                "ghost.frames_sent == old(ghost.frames_sent) and ghost.n_drop == old(ghost.n_drop)",
            ], **common)
