"""Contracts of the WebSocketProtocol units shared by C01 C02 C05 C16 C17 (each contract lists the properties
it serves; a property's check verifies exactly the units tagged with it, and uses the others' contracts at calls)."""
from .ws_common import WSP, P, build_shapes

S = {"self": "obj:WSProto"}

# object invariant of a connection (ghost counters are changed by sendFrame / _closeConnection / _onClose only)
INV = [
    "(self.state == 0) == self.is_closed.done",                                  # CLOSED <=> is_closed completed
    "ghost.close_frames <= 1",                                                   # at most one close frame is sent
    "implies(ghost.close_frames == 1, self.state == 2 or self.state == 0)",      # ... and then we are CLOSING/CLOSED
    "ghost.data_frames_after_close == 0",                                        # no data frame follows it
    "ghost.n_onclose <= 1 and implies(ghost.n_onclose == 1, self.state == 0)",   # onClose fires once, in CLOSED
    "implies(self.state == 3, ghost.close_frames == 0)",
]
MONO = "rank(self.state) >= rank(old(self.state))"

GHOST_FRAME = ["ghost.close_frames", "ghost.last_close_payload", "ghost.data_frames_after_close", "ghost.frames_sent",
               "ghost.last_frame_opcode", "ghost.last_frame_payload", "ghost.last_frame_fin", "ghost.last_frame_rsv",
               "ghost.wire", "self.trafficStats.*"]
DROP_MOD = ["self.droppedByMe", "self.state", "self.is_closed.done", "ghost.n_drop", "ghost.drop_abort"]
CLOSEFRAME_MOD = ["self.state", "self.closedByMe", "self.localCloseCode", "self.localCloseReason",
                  "self.closeHandshakeTimeoutCall", "ghost.timers_armed"] + GHOST_FRAME
FAIL_MOD = sorted(set(["self.failedByMe", "self.wasClean", "self.wasNotCleanReason"] + DROP_MOD + CLOSEFRAME_MOD))


def build(reg):
    build_shapes(reg)
    common = dict(spec_module="specs.ws")

    # ---------------------------------------------------------------- frame emission (event primitive for ghost state)
    reg.contract(
        WSP + ".sendFrame", props=["C01"], verify=False,
        params=dict(S, opcode="int", payload="bytes", fin="bool", rsv="int", mask="opt:bytes", payload_len="opt:int",
                    chopsize="opt:int", sync="bool"),
        modifies=GHOST_FRAME,
        ensures=[
            "ghost.frames_sent == old(ghost.frames_sent) + 1",
            "ghost.last_frame_opcode == opcode and ghost.last_frame_fin == fin and ghost.last_frame_rsv == rsv",
            "implies(payload_len is None, ghost.last_frame_payload == payload)",
            "ghost.close_frames == old(ghost.close_frames) + (1 if opcode == 8 else 0)",
            "implies(opcode == 8, ghost.last_close_payload == payload)",
            "implies(opcode != 8, ghost.last_close_payload == old(ghost.last_close_payload))",
            "ghost.data_frames_after_close == old(ghost.data_frames_after_close) + "
            "(1 if (opcode == 0 or opcode == 1 or opcode == 2) and old(ghost.close_frames) > 0 else 0)",
        ],
        raises={"Exception": "payload_len is not None or len(payload) > 0x7FFFFFFFFFFFFFFF"}, **common)

    # ---------------------------------------------------------------- dropping / failing
    reg.contract(
        WSP + ".dropConnection", props=["C05", "C17"], params=dict(S, abort="bool"),
        requires=[INV[0]], modifies=DROP_MOD,
        ensures=[
            "implies(old(self.state) != 0, self.state == 0 and self.droppedByMe and "
            "ghost.n_drop == old(ghost.n_drop) + 1 and ghost.drop_abort == abort)",
            "implies(old(self.state) == 0, self.state == 0 and ghost.n_drop == old(ghost.n_drop) and "
            "self.droppedByMe == old(self.droppedByMe) and ghost.drop_abort == old(ghost.drop_abort))",
            INV[0], MONO],
        **common)

    reg.contract(
        WSP + "._fail_connection", props=["C05", "C02", "C16"], params=dict(S, code="range:1000:1011", reason="str"),
        requires=INV, modifies=FAIL_MOD,
        ensures=INV + [
            MONO,
            "implies(old(self.state) != 0, self.failedByMe)",
            "implies(old(self.state) == 0, self.failedByMe == old(self.failedByMe) and ghost.n_drop == old(ghost.n_drop) "
            "and ghost.close_frames == old(ghost.close_frames) and self.wasClean == old(self.wasClean))",
            # fail by drop: TCP dropped, reported unclean
            "implies(old(self.state) != 0 and self.failByDrop, self.state == 0 and not self.wasClean and "
            "ghost.n_drop == old(ghost.n_drop) + 1 and ghost.close_frames == old(ghost.close_frames))",
            # fail by closing handshake: exactly one close frame announcing `code`
            "implies(old(self.state) == 3 and not self.failByDrop, self.state == 2 and "
            "ghost.close_frames == old(ghost.close_frames) + 1 and ghost.last_close_payload[0:2] == be16(code) and "
            "len(ghost.last_close_payload) <= 125 and ghost.n_drop == old(ghost.n_drop))",
            # second failure while closing: drop
            "implies(old(self.state) == 2 and not self.failByDrop, self.state == 0 and "
            "ghost.close_frames == old(ghost.close_frames) and ghost.n_drop == old(ghost.n_drop) + 1)",
        ],
        raises={"Exception": "(self.state == 1 or self.state == 4) and not self.failByDrop"}, **common)

    for name, code, props in (("_protocol_violation", 1002, ["C02", "C05"]), ("_invalid_payload", 1007, ["C02"])):
        reg.contract(
            WSP + "." + name, props=props, params=dict(S, reason="str"), returns="bool",
            requires=INV + ["self.state != 1 and self.state != 4"], modifies=FAIL_MOD,
            ensures=INV + [
                MONO, "result == self.failByDrop",
                "implies(old(self.state) != 0, self.failedByMe)",
                "implies(old(self.state) == 0, self.failedByMe == old(self.failedByMe) and ghost.n_drop == old(ghost.n_drop) "
                "and ghost.close_frames == old(ghost.close_frames))",
                "implies(old(self.state) != 0 and self.failByDrop, self.state == 0 and not self.wasClean and "
                "ghost.n_drop == old(ghost.n_drop) + 1 and ghost.close_frames == old(ghost.close_frames))",
                "implies(old(self.state) == 3 and not self.failByDrop, self.state == 2 and "
                "ghost.close_frames == old(ghost.close_frames) + 1 and ghost.last_close_payload[0:2] == be16(%d) and "
                "ghost.n_drop == old(ghost.n_drop))" % code,
                "implies(old(self.state) == 2 and not self.failByDrop, self.state == 0 and "
                "ghost.close_frames == old(ghost.close_frames) and ghost.n_drop == old(ghost.n_drop) + 1)",
            ], **common)

    reg.contract(
        WSP + "._max_message_size_exceeded", props=["C16"],
        params=dict(S, msg_size="int", max_msg_size="int", reason="str"),
        requires=INV + ["self.state != 1 and self.state != 4"], modifies=FAIL_MOD,
        ensures=INV + [
            MONO, "implies(old(self.state) != 0, self.failedByMe)",
            "implies(old(self.state) != 0 and self.failByDrop, self.state == 0 and not self.wasClean and "
            "ghost.n_drop == old(ghost.n_drop) + 1)",
            "implies(old(self.state) == 3 and not self.failByDrop, self.state == 2 and "
            "ghost.close_frames == old(ghost.close_frames) + 1 and ghost.last_close_payload[0:2] == be16(1009))",
            "implies(old(self.state) == 2 and not self.failByDrop, self.state == 0)",
            "implies(old(self.state) == 0, self.failedByMe == old(self.failedByMe) and "
            "ghost.close_frames == old(ghost.close_frames) and ghost.n_drop == old(ghost.n_drop))",
        ], **common)

    # ---------------------------------------------------------------- close frame
    reg.contract(
        WSP + ".sendCloseFrame", props=["C05", "C17"],
        params=dict(S, code="opt:int", reasonUtf8="opt:bytes", isReply="bool"),
        requires=INV + ["implies(code is not None, 0 <= code <= 65535)",
                        "implies(reasonUtf8 is not None, len(reasonUtf8) <= 123)"], modifies=CLOSEFRAME_MOD,
        ensures=INV + [
            MONO, "old(self.state) != 1 and old(self.state) != 4",     # (a connecting endpoint always gets the exception)
            "implies(old(self.state) == 3, self.state == 2 and ghost.close_frames == old(ghost.close_frames) + 1 and "
            "ghost.last_close_payload == close_payload(code, reasonUtf8) and self.closedByMe == (not isReply) and "
            "self.localCloseCode == code)",
            # bounded time: whoever initiates the close arms the close-handshake timer with the configured delay
            "implies(old(self.state) == 3 and not isReply and self.closeHandshakeTimeout > 0, "
            "self.closeHandshakeTimeoutCall is not None and self.closeHandshakeTimeoutCall.active and "
            "self.closeHandshakeTimeoutCall.delay == self.closeHandshakeTimeout and self.closeHandshakeTimeoutCall.kind == 2)",
            "implies(old(self.state) == 3 and (isReply or not (self.closeHandshakeTimeout > 0)), "
            "self.closeHandshakeTimeoutCall is old(self.closeHandshakeTimeoutCall))",
            "implies(old(self.state) == 2 or old(self.state) == 0, self.state == old(self.state) and "
            "ghost.close_frames == old(ghost.close_frames) and ghost.frames_sent == old(ghost.frames_sent) and "
            "self.closedByMe == old(self.closedByMe) and self.closeHandshakeTimeoutCall is old(self.closeHandshakeTimeoutCall) "
            "and ghost.last_close_payload == old(ghost.last_close_payload))",
        ],
        raises={"Exception": "self.state == 1 or self.state == 4"},
        raises_ensures={"Exception": ["self.state == old(self.state) and ghost.frames_sent == old(ghost.frames_sent)"]},
        **common)

    reg.contract(
        "autobahn.util:encode_truncate", props=["C05"], verify=False,
        params={"text": "str", "limit": "nat", "encoding": "str", "return_encoded": "bool"}, returns="bytes",
        ensures=["len(result) <= limit", "utf8_valid(result)"], **common)

    reg.contract(
        WSP + ".sendClose", props=["C05"], params=dict(S, code="none|int|bool|str|bytes", reason="none|str|int|bytes"),
        requires=INV, modifies=CLOSEFRAME_MOD,
        ensures=INV + [
            MONO,
            # accepted arguments: no code, 1000 or 3000..4999; a str reason only together with a code
            "code is None or (isinstance(code, int) and (code == 1000 or 3000 <= code <= 4999))",
            "reason is None or (isinstance(reason, str) and code is not None)",
            "implies(old(self.state) == 3, self.state == 2 and ghost.close_frames == 1 and self.closedByMe)",
            # wire format: !H code ++ reason, reason at most 123 octets of valid UTF-8
            "implies(old(self.state) == 3 and code is None, ghost.last_close_payload == b'')",
            "implies(old(self.state) == 3 and code is not None, ghost.last_close_payload[0:2] == be16(code) and "
            "len(ghost.last_close_payload) <= 125 and (reason is not None or len(ghost.last_close_payload) == 2) and "
            "utf8_valid(ghost.last_close_payload[2:]))",
            "implies(old(self.state) != 3, ghost.frames_sent == old(ghost.frames_sent) and self.state == old(self.state))",
        ],
        raises={"Exception": "self.state == 1 or self.state == 4 or not (code is None or (isinstance(code, int) and "
                             "(code == 1000 or 3000 <= code <= 4999))) or not (reason is None or "
                             "(isinstance(reason, str) and code is not None))"},
        raises_ensures={"Exception": ["ghost.frames_sent == old(ghost.frames_sent) and self.state == old(self.state)"]},
        **common)
