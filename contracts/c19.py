"""C19 — Authentication signatures interoperate and mutual authentication is enforced."""
import z3

from pyvc.values import *  # noqa
from pyvc.engine import HObj
from pyvc import natives

ASSUMPTIONS = [
    "HMAC, SHA-1/SHA-256, PBKDF2, Argon2id, Ed25519, base32/base64 are uninterpreted functions: the check proves that the "
    "library composes them as the RFCs prescribe (arguments, order, encodings, truncation arithmetic), not their "
    "cryptographic strength; 'any alteration yields a different signature' holds given collision resistance (assumed)",
    "hmac.compare_digest(a, b) == (a == b); binascii.b2a_base64(x).strip() == base64 of x without the trailing newline",
    "time.time() is the ghost clock ghost.now (>= 0)",
]

A = "autobahn.wamp.auth"

hmac_f = z3.Function("HMAC", z3.StringSort(), BytesSort, BytesSort, BytesSort)
b32dec_f = z3.Function("b32dec", z3.StringSort(), BytesSort)
b64_f = z3.Function("b64", BytesSort, BytesSort)
b64dec_f = z3.Function("b64dec", BytesSort, BytesSort)
pbkdf2_f = z3.Function("PBKDF2", z3.StringSort(), BytesSort, BytesSort, z3.IntSort(), z3.IntSort(), BytesSort)
DIGEST_LEN = {"sha1": 20, "sha256": 32}


_hmac_names = {}


def _hmac(state, algo, key, msg):
    """named result (keeps later terms small); the same application always gets the same name"""
    app = hmac_f(z3.StringVal(algo), key, msg)
    k = app.get_id()
    if k not in _hmac_names:
        _hmac_names[k] = (app, z3.Const(fresh_name("hmac_" + algo), BytesSort))
    t = _hmac_names[k][1]
    state.assume(t == app)
    state.assume(z3.Length(t) == DIGEST_LEN[algo])
    return t


def _hmac_v(ex, state, algo, k, m):
    if not (isinstance(k, VBytes) and isinstance(m, VBytes)):
        ex.raise_if(state, z3.BoolVal(True), "TypeError")
    return VBytes(_hmac(state, algo, k.t, m.t))


def ext_hmac_new(ex, state, args, kwargs, sv):
    key, msg, dig = args[0], args[1], args[2]
    name = getattr(dig, "name", "")
    algo = "sha1" if name.endswith("sha1") else ("sha256" if name.endswith("sha256") else None)
    if algo is None:
        raise Unsupported("hmac.new with digest %r" % (dig,))
    o = HObj("inst", None, "HmacObj")
    o.fields = {"algo": VStr(algo), "key": key, "msg": msg}
    return state.alloc(o)


def ext_hmac_digest(ex, state, args, kwargs, sv):
    o = state.heap[sv.oid]
    algo = o.fields["algo"].t.as_string()
    return ex.dist(state, [o.fields["key"], o.fields["msg"]], lambda k, m: _hmac_v(ex, state, algo, k, m))


def ext_b32decode(ex, state, args, kwargs, sv):
    ex.raise_if(state, z3.Bool(fresh_name("b32_invalid")), "binascii.Error")
    return VBytes(b32dec_f(args[0].t))


def ext_b2a_base64(ex, state, args, kwargs, sv):
    return VBytes(z3.Concat(b64_f(args[0].t), z3.Unit(z3.IntVal(10))))


def ext_bytes_strip(ex, state, args, kwargs, sv):
    # only the shape  b2a_base64(x).strip()  occurs: base64 text has no other leading/trailing whitespace
    t = sv.t
    if z3.is_app(t) and t.decl().kind() == z3.Z3_OP_SEQ_CONCAT and t.num_args() == 2 and z3.is_app(t.arg(0)) \
            and t.arg(0).decl().name() == "b64":
        return VBytes(t.arg(0))
    raise Unsupported("bytes.strip on a value that is not b2a_base64(...)")


def ext_b64decode(ex, state, args, kwargs, sv):
    ex.raise_if(state, z3.Bool(fresh_name("b64_invalid")), "binascii.Error")
    a = args[0]
    t = a.t if isinstance(a, VBytes) else natives.utf8_encode(a.t)
    return VBytes(b64dec_f(t))


def ext_compare_digest(ex, state, args, kwargs, sv):
    return VBool(args[0].t == args[1].t)


def ext_time(ex, state, args, kwargs, sv):
    g = state.heap[state.ghost.oid]
    return g.fields["now"]


def ext_pbkdf2hmac(ex, state, args, kwargs, sv):
    o = HObj("inst", None, "Kdf")
    o.fields = {"algorithm": kwargs["algorithm"], "length": kwargs["length"], "salt": kwargs["salt"],
                "iterations": kwargs["iterations"]}
    return state.alloc(o)


def ext_kdf_derive(ex, state, args, kwargs, sv):
    o = state.heap[sv.oid]
    ex.raise_if(state, z3.Bool(fresh_name("kdf_raises")), "ValueError")
    return VBytes(pbkdf2_f(o.fields["algorithm"].t, args[0].t, o.fields["salt"].t, ex.num(o.fields["iterations"]),
                           ex.num(o.fields["length"])))


def build(reg):
    common = dict(props=["C19"], spec_module="specs.c19")
    reg.shape("Ghost", fields={"now": "real"}, ghost=True)
    reg.shape("HmacObj", fields={"algo": "str", "key": "bytes", "msg": "bytes"}, methods={"digest": "hmac.digest"})
    reg.shape("Kdf", fields={"algorithm": "str", "length": "int", "salt": "bytes", "iterations": "int"},
              methods={"derive": "kdf.derive"})
    for name, fn in (("hmac.new", ext_hmac_new), ("hmac.digest", ext_hmac_digest), ("base64.b32decode", ext_b32decode),
                     ("binascii.b2a_base64", ext_b2a_base64), ("bytes.strip", ext_bytes_strip),
                     ("base64.b64decode", ext_b64decode), ("hmac.compare_digest", ext_compare_digest),
                     ("time.time", ext_time), ("kdf.derive", ext_kdf_derive),
                     ("cryptography.hazmat.primitives.kdf.pbkdf2.PBKDF2HMAC", ext_pbkdf2hmac),
                     ("cryptography.hazmat.backends.default_backend", lambda *a: VOpaque("backend")),
                     ("cryptography.hazmat.primitives.hashes.SHA256", lambda *a: VStr("sha256")),
                     ("cryptography.hazmat.primitives.hashes.SHA1", lambda *a: VStr("sha1"))):
        reg.external(name, fn, pure=True)
    reg.native_spec("HMAC_SHA1", lambda ex, state, k, m: VBytes(_hmac(state, "sha1", k.t, m.t)))
    reg.native_spec("HMAC_SHA256", lambda ex, state, k, m: VBytes(_hmac(state, "sha256", k.t, m.t)))
    reg.native_spec("B64", lambda ex, state, x: VBytes(b64_f(x.t)))
    reg.native_spec("B32DEC", lambda ex, state, s: VBytes(b32dec_f(s.t)))
    reg.native_spec("B64DEC", lambda ex, state, x: VBytes(b64dec_f(x.t)))
    reg.native_spec("UTF8", lambda ex, state, s: VBytes(natives.utf8_encode(s.t)))
    reg.native_spec("PBKDF2", lambda ex, state, a, d, s, i, n: VBytes(pbkdf2_f(a.t, d.t, s.t, ex.num(i), ex.num(n))))
    reg.native_spec("fmt06d", lambda ex, state, v: VStr(natives.fmt06d(ex.num(v))))
    reg.native_spec("floor", lambda ex, state, r: VInt(z3.ToInt(r.t)))

    reg.contract(
        A + ":compute_totp", params={"secret": "str", "offset": "int"}, returns="str",
        requires=["ghost.now >= 0", "offset + floor(ghost.now) // 30 >= 0", "offset + floor(ghost.now) // 30 < 2**64"],
        ensures=["result == fmt06d(hotp(B32DEC(secret), totp_counter(floor(ghost.now), offset)))"],
        raises={"binascii.Error": "True"}, asserts="oblige", **common)
    reg.contract(
        A + ":check_totp", params={"secret": "str", "ticket": "str"}, returns="bool",
        requires=["ghost.now >= 30", "floor(ghost.now) // 30 + 1 < 2**64"],
        ensures=["result == (ticket == fmt06d(hotp(B32DEC(secret), totp_counter(floor(ghost.now), 0))) or "
                 "ticket == fmt06d(hotp(B32DEC(secret), totp_counter(floor(ghost.now), 1))) or "
                 "ticket == fmt06d(hotp(B32DEC(secret), totp_counter(floor(ghost.now), -1))))"],
        raises={"binascii.Error": "True"}, **common)
    reg.contract(
        A + ":compute_wcs", params={"key": "str|bytes", "challenge": "str|bytes"}, returns="bytes",
        ensures=["result == wcs(UTF8(key) if isinstance(key, str) else key, "
                 "UTF8(challenge) if isinstance(challenge, str) else challenge)"],
        raises={"UnicodeEncodeError": "True"}, asserts="oblige", **common)
    reg.contract(
        A + ":pbkdf2", params={"data": "bytes", "salt": "bytes", "iterations": "int", "keylen": "int", "hashfunc": "none"},
        returns="bytes", ensures=["result == PBKDF2('sha256', data, salt, iterations, keylen)"],
        raises={"ValueError": "True"}, **common)
    reg.contract(
        A + ":derive_key", params={"secret": "str|bytes", "salt": "str|bytes", "iterations": "int", "keylen": "int"},
        returns="bytes",
        ensures=["result == B64(PBKDF2('sha256', UTF8(secret) if isinstance(secret, str) else secret, "
                 "UTF8(salt) if isinstance(salt, str) else salt, iterations, keylen))"],
        raises={"ValueError": "True", "UnicodeEncodeError": "True"}, **common)
    # WAMP-SCRAM with PBKDF2 (RFC 5802: SaltedPassword := Hi(password, salt, i)) over the raw salt octets; on_challenge
    # (not under contract: string formatting of the auth message) decodes the base64 salt of the CHALLENGE first --
    # checked natively by the reference harness
    reg.contract(A + ":_hash_pbkdf2_secret", params={"password": "bytes", "salt": "bytes", "iterations": "int"},
                 returns="bytes", ensures=["result == PBKDF2('sha256', password, salt, iterations, 32)"],
                 raises={"ValueError": "True"}, **common)
    # SCRAM mutual authentication (RFC 5802): ServerSignature = HMAC(HMAC(SaltedPassword, "Server Key"), AuthMessage)
    reg.shape("Logger", fields={}, methods={"error": "noop", "info": "noop"})
    reg.external("noop", lambda *a: VNone)
    reg.shape("SessionL", fields={"log": "logger"})
    reg.shape("AuthScramS", cls=A + ":AuthScram", fields={"_salted_password": "bytes", "_auth_message": "bytes",
                                                          "_args": "any", "_client_nonce": "any"})
    reg.contract(
        A + ":AuthScram.on_welcome", params={"self": "obj:AuthScramS", "session": "obj:SessionL",
                                             "authextra": "cdict:scram_server_signature=str"},
        returns="opt:str",
        ensures=["(result is None) == (B64DEC(UTF8(authextra['scram_server_signature'])) == "
                 "HMAC_SHA256(HMAC_SHA256(self._salted_password, b'Server Key'), self._auth_message))"],
        raises={"binascii.Error": "True"}, **common)
    # WAMP-SCRAM client proof (RFC 5802 section 3, with PBKDF2-HMAC-SHA256 as Hi):
    #   AuthMessage  = n=<saslprep(authid)>,r=<client nonce>,r=<server nonce>,s=<salt>,i=<iterations>,c=<cbind>,r=<server nonce>
    #   ClientKey    = HMAC(SaltedPassword, "Client Key");  ClientProof = ClientKey XOR HMAC(H(ClientKey), AuthMessage)
    sha256_f = z3.Function("SHA256", BytesSort, BytesSort)
    xor_f = z3.Function("XOR", BytesSort, BytesSort, BytesSort)
    sasl_f = z3.Function("saslprep", z3.StringSort(), z3.StringSort())
    reg.native_spec("SHA256", lambda ex, state, b: VBytes(sha256_f(b.t)))
    reg.native_spec("XOR", lambda ex, state, a, b: VBytes(xor_f(a.t, b.t)))
    reg.native_spec("SASLPREP", lambda ex, state, s_: VStr(sasl_f(s_.t)))
    reg.shape("HashObj", fields={"algo": "str", "msg": "bytes"}, methods={"digest": "hash.digest"})

    def ext_hashlib_new(ex, state, args, kwargs, sv):
        o = HObj("inst", None, "HashObj")
        o.fields = {"algo": args[0], "msg": args[1] if len(args) > 1 else VBytes(b"")}
        return state.alloc(o)

    def ext_hash_digest(ex, state, args, kwargs, sv):
        o = state.heap[sv.oid]
        if not (z3.is_string_value(simp(o.fields["algo"].t)) and simp(o.fields["algo"].t).as_string() == "sha256"):
            raise Unsupported("hashlib.new with an algorithm other than sha256")
        return VBytes(sha256_f(o.fields["msg"].t))
    reg.external("hashlib.new", ext_hashlib_new, pure=True)
    reg.external("hash.digest", ext_hash_digest, pure=True)
    reg.external("autobahn.util.xor", lambda ex, state, args, kwargs, sv: VBytes(xor_f(args[0].t, args[1].t)), pure=True)
    reg.external("xor_array", lambda ex, state, args, kwargs, sv: VBytes(xor_f(args[0].t, args[1].t)), pure=True)
    reg.external("passlib.utils.saslprep", lambda ex, state, args, kwargs, sv: VStr(sasl_f(args[0].t)), pure=True)
    reg.external("saslprep", lambda ex, state, args, kwargs, sv: VStr(sasl_f(args[0].t)), pure=True)
    reg.external("base64.b64encode", lambda ex, state, args, kwargs, sv: VBytes(b64_f(args[0].t)), pure=True)
    reg.overrides[(A, "xor_array")] = VFunc("builtin", "xor_array")
    reg.overrides[(A, "saslprep")] = VFunc("builtin", "saslprep")
    reg.shape("ScramArgs", fields={})
    reg.shape("AuthScramC", cls=A + ":AuthScram", fields={
        "_salted_password": "opt:bytes", "_auth_message": "opt:bytes", "_args": "cdict:password=str,authid=str",
        "_client_nonce": "str"})          # (the nonce is created by authextra before any CHALLENGE can arrive; asserted)
    reg.shape("ChallengeScram", fields={"method": "str",
                                        "extra": "odict:nonce=str,kdf=str,salt=str,iterations=int,memory=int,channel_binding=str"})
    X = "challenge.extra"
    CB = "(%s['channel_binding'] if 'channel_binding' in %s else '')" % (X, X)
    # the auth message is pure ASCII by construction (.encode("ascii") raises otherwise): octet = code point
    reg.native_spec("ASCIIENC", lambda ex, state, t: VBytes(natives.latin1_encode(t.t)))
    AM = ("ASCIIENC('{client_first_bare},{server_first},{client_final_no_proof}'.format("
          "client_first_bare=f\"n={SASLPREP(self._args['authid'])},r={self._client_nonce}\", "
          "server_first=f\"r={%s['nonce']},s={%s['salt']},i={%s['iterations']}\", "
          "client_final_no_proof=f\"c={%s},r={%s['nonce']}\"))" % (X, X, X, CB, X))
    SP = "PBKDF2('sha256', UTF8(self._args['password']), B64DEC(UTF8(%s['salt'])), %s['iterations'], 32)" % (X, X)
    CK = "HMAC_SHA256(%s, b'Client Key')" % SP
    reg.contract(
        A + ":AuthScram.on_challenge", name=A + ":AuthScram.on_challenge[pbkdf2]",
        params={"self": "obj:AuthScramC", "session": "any", "challenge": "obj:ChallengeScram"}, returns="bytes",
        requires=["'kdf' in %s and %s['kdf'] == 'pbkdf2'" % (X, X), "'iterations' in %s and %s['iterations'] >= 0" % (X, X)],
        modifies=["self._auth_message", "self._salted_password"],
        ensures=[
            "'nonce' in %s and 'salt' in %s and self._client_nonce is not None" % (X, X),
            "self._auth_message == %s" % AM,
            "self._salted_password == %s" % SP,
            "result == B64(XOR(%s, HMAC_SHA256(SHA256(%s), %s)))" % (CK, CK, AM)],
        raises={"AssertionError": "True", "RuntimeError": "True", "ValueError": "True", "UnicodeEncodeError": "True",
                "binascii.Error": "True"}, **common)
    # WAMP-CRA: signature over the challenge with the (optionally PBKDF2-salted) secret
    reg.shape("AuthCra", cls=A + ":AuthWampCra", fields={"_secret": "str", "_args": "any"})
    reg.shape("ChallengePlain", fields={"method": "str", "extra": "cdict:challenge=str"})
    reg.shape("ChallengeSalted", fields={"method": "str",
                                         "extra": "cdict:challenge=str,salt=str,iterations=int,keylen=int"})
    reg.native_spec("ASCII", lambda ex, state, b: VStr(natives.latin1_decode(b.t)))
    reg.contract(
        A + ":AuthWampCra.on_challenge", name=A + ":AuthWampCra.on_challenge[unsalted]",
        params={"self": "obj:AuthCra", "session": "any", "challenge": "obj:ChallengePlain"}, returns="str",
        ensures=["result == ASCII(wcs(UTF8(self._secret), UTF8(challenge.extra['challenge'])))"],
        raises={"UnicodeEncodeError": "True", "UnicodeDecodeError": "True"}, **common)
    reg.contract(
        A + ":AuthWampCra.on_challenge", name=A + ":AuthWampCra.on_challenge[salted]",
        params={"self": "obj:AuthCra", "session": "any", "challenge": "obj:ChallengeSalted"}, returns="str",
        ensures=["result == ASCII(wcs(B64(PBKDF2('sha256', UTF8(self._secret), UTF8(challenge.extra['salt']), "
                 "challenge.extra['iterations'], challenge.extra['keylen'])), UTF8(challenge.extra['challenge'])))"],
        raises={"UnicodeEncodeError": "True", "UnicodeDecodeError": "True", "ValueError": "True"}, **common)
    # util.xor (cryptosign channel binding, SCRAM client proof): byte-wise XOR of equal-length strings
    reg.native_spec("bxor8", lambda ex, state, a, b: VInt(natives.bxor8(ex.num(a), ex.num(b))))
    reg.contract(
        "autobahn.util:xor", params={"d1": "abytes", "d2": "abytes"}, returns="abytes",
        ensures=["len(result) == len(d1) and len(d1) == len(d2)",
                 "forall(k, 0, len(d1), result[k] == bxor8(d1[k], d2[k]))"],
        raises={"Exception": "len(d1) != len(d2)"},
        loops={0: {"invariant": ["0 <= _i <= len(d1) and len(d1) == len(d2)",
                                 "forall(j, 0, _i, d1[j] == bxor8(d1_0[j], d2_0[j]))",
                                 "forall(j, _i, len(d1), d1[j] == d1_0[j])",
                                 "forall(j, 0, len(d2), d2[j] == d2_0[j])", "len(d1) == len(d1_0)"]}}, **common)


import os as _os
_REFERENCE_HARNESS = open(_os.path.join(_os.path.dirname(_os.path.abspath(__file__)), "c19_reference_harness.py.txt")).read()


def replay(o):
    """the real functions against independent reference verifiers written from the RFCs with the standard library
    (hashlib.pbkdf2_hmac, hmac, base64, struct): WAMP-CRA key derivation and signatures for key lengths 1..128 (incl. the
    base64 line-length boundaries 57 / 58), iteration counts and non-ASCII secrets; TOTP around step boundaries and far
    future times with the +-1 window; WAMP-SCRAM (PBKDF2) client proof and server-signature check; util.xor"""
    from pyvc import replaylib as R
    out = R.run_py(_REFERENCE_HARNESS, timeout=300)
    bad = out.get("bad") if isinstance(out, dict) else None
    unit = o.get("unit") or o.get("name", "")
    fams = {"derive_key": ("derive_key", "pbkdf2", "AuthWampCra"), "pbkdf2": ("derive_key", "pbkdf2"), "compute_wcs": ("compute_wcs", "AuthWampCra"),
            "AuthWampCra": ("AuthWampCra", "derive_key", "compute_wcs"), "totp": ("compute_totp", "check_totp"), "xor": ("xor",),
            "AuthScram": ("AuthScram",)}
    want = None
    for k, v in fams.items():
        if k in unit:
            want = v
    hits = [b for b in (bad or []) if want is None or any(w in str(b.get("case", {}).get("fn", "")) for w in want)]
    return {"reproduced": bool(hits), "cases": hits[:4], "observed": out if not hits else {"cases": out.get("cases")},
            "detail": "the real auth functions against reference verifiers written from the RFCs (standard library only)"}


def extra_checks(tier, seed):
    # AuthScram.on_challenge (auth-message formatting, client proof) is not within the verifier's reach: the reference
    # harness stands in for it on every run, as a *bounded* obligation (685 cases; never counted as proved)
    from pyvc import replaylib as R
    return _extra_checks(tier, seed) + [R.native_crosscheck(
        "C19/bounded/reference-verifiers", _REFERENCE_HARNESS,
        "685 cases: CRA key lengths 1..128 x iterations x secrets, TOTP step boundaries and windows, SCRAM-PBKDF2 "
        "proof / server signature for 3 password / iteration / channel-binding combinations, xor")]


def _extra_checks(tier, seed):
    return []
