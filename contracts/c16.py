"""C16 — see DESIGN.md section 5; units and contracts live in ws_units.py (shared WebSocketProtocol family)."""
from . import ws_units, ws_common

ASSUMPTIONS = list(ws_common.ASSUMPTIONS)


def build(reg):
    ws_units.build(reg)
    build_deflate(reg)


def extra_checks(tier, seed):
    """lemmas about spec functions used as axioms in this property's VCs"""
    from pyvc import natives
    from pyvc.spec_tools import solve
    out = []
    from . import ws_common as _wc
    for name, (hyps, goal) in natives.join_lemma_obligations() + _wc.ws_lemma_obligations():
        out.append(solve("%s/lemma/" % __name__.split(".")[-1].upper() + name, hyps, goal, 20000))
    return out


# ------------------------------------------------------------------------------------------ decompression limit
DEFLATE = "autobahn.websocket.compress_deflate:PerMessageDeflate"


def ext_zlib_decompress(ex, state, args, kwargs, sv):
    """assumed contract of zlib's decompressobj.decompress(data[, max_length]): returns at most max_length octets of
    the inflation of `data` (in the current stream state) and keeps the unconsumed input in `unconsumed_tail`"""
    import z3
    from pyvc.values import VBytes, VBool, BytesSort, fresh_name
    o = state.heap[sv.oid]
    full = z3.Const(fresh_name("inflated"), BytesSort)
    o.fields["_last_full"] = VBytes(full)
    ex.raise_if(state, z3.Bool(fresh_name("zlib_error")), "zlib.error")
    if len(args) > 1:
        def limited(a):
            mx = ex.num(a)
            if mx is None:
                ex.raise_if(state, z3.BoolVal(True), "TypeError")
            ex.raise_if(state, mx < 0, "ValueError")
            n = z3.Length(full)
            cut = z3.If(z3.And(mx > 0, n > mx), mx, n)          # max_length == 0 means "no limit"
            state.heap[sv.oid].fields["_tail_nonempty"] = VBool(z3.And(mx > 0, n > mx))
            return VBytes(z3.Extract(full, 0, cut))
        return ex.dist(state, [args[1]], limited)
    o.fields["_tail_nonempty"] = VBool(False)
    return VBytes(full)


def build_deflate(reg):
    reg.external("zlib.decompress", ext_zlib_decompress)
    reg.shape("ZDecomp", fields={"_last_full": "bytes", "_tail_nonempty": "bool"}, methods={"decompress": "zlib.decompress"})
    reg.shape("PMDeflate", cls=DEFLATE, fields={"max_message_size": "opt:nat", "_decompressor": "obj:ZDecomp",
                                                 "server_no_context_takeover": "bool", "client_no_context_takeover": "bool"})
    reg.contract(
        DEFLATE + ".decompress_message_data", props=["C16"], params={"self": "obj:PMDeflate", "data": "bytes"},
        returns="bytes", modifies=["self._decompressor._last_full", "self._decompressor._tail_nonempty"],
        ensures=[
            # never truncated or altered: what is handed on is the whole inflation of this chunk ...
            "result == self._decompressor._last_full",
            # ... and nothing is left behind in the decompressor that would corrupt the next message
            "not self._decompressor._tail_nonempty"],
        raises={"zlib.error": "True", "ValueError": "False"},
        known={}, spec_module="specs.ws")
    # the same clauses re-posed outside the recorded finding's input class (see known_findings.json, except_when):
    # any counterexample that is *not* "limit configured and exceeded" is a fresh violation
    reg.contract(
        DEFLATE + ".decompress_message_data", name=DEFLATE + ".decompress_message_data[outside-known-finding]",
        props=["C16"], params={"self": "obj:PMDeflate", "data": "bytes"}, returns="bytes",
        modifies=["self._decompressor._last_full", "self._decompressor._tail_nonempty"],
        ensures=["implies(self.max_message_size is None or self.max_message_size == 0 or "
                 "len(self._decompressor._last_full) <= self.max_message_size, "
                 "result == self._decompressor._last_full and not self._decompressor._tail_nonempty)"],
        raises={"zlib.error": "True", "ValueError": "False"}, spec_module="specs.ws")


def replay_known(k):
    """witness of the recorded finding, run against the real PerMessageDeflate + real zlib"""
    from pyvc import replaylib as R
    if k["id"] != "C16-deflate-limit-truncates":
        return None
    w = k["witness"]
    code = """
import json, zlib
from autobahn.websocket.compress_deflate import PerMessageDeflate
tx = PerMessageDeflate(True, False, False, 15, 15, 8)
rx = PerMessageDeflate(False, False, False, 15, 15, 8, max_message_size=%d)
def send(m):
    tx.start_compress_message(); d = tx.compress_message_data(m) + tx.end_compress_message(); return d
out = []
for m in %r:
    rx.start_decompress_message()
    try:
        got = rx.decompress_message_data(send(m)); rx.end_decompress_message(); out.append([len(got), got == m])
    except Exception as e:
        out.append(["exception", type(e).__name__])
print(json.dumps(out))
""" % (w["limit"], [bytes(m) for m in w["messages"]])
    out = R.run_py(code)
    truncated = isinstance(out, list) and out and out[0][0] != "exception" and out[0][1] is False
    return {"reproduced": bool(truncated), "observed": out,
            "required": "first message delivered whole or not at all; later messages unaffected"}
