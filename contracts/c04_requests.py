"""C04, request-issuing side: publish / call / subscribe / register / _unsubscribe / _unregister build exactly one request
message that carries the fresh request id and the given URI, arguments and options, record the request *before* handing
the message to the transport, and leave no record behind when the transport refuses it."""
from .wamp_common import SESS

T = "autobahn.wamp.types"
TABLES = ["_publish_reqs", "_subscribe_reqs", "_unsubscribe_reqs", "_register_reqs", "_unregister_reqs", "_call_reqs"]

# the id generator has not wrapped: every id handed out so far is <= _next, so next() is an id no pending request bears
GEN = "0 <= self._request_id_gen._next and self._request_id_gen._next < 2**53"
NEW = "old(self._request_id_gen._next) + 1"


def pending_le_next(t):
    return "forall(k, 0, 2**53 + 1, implies(k in self.%s, k <= self._request_id_gen._next))" % t


def others_kept(t, strict_values=True):
    r = ["forall(k, 0, 2**53 + 1, implies(k != %s, (k in self.%s) == old(k in self.%s)))" % (NEW, t, t)]
    if strict_values:
        r.append("forall(k, 0, 2**53 + 1, implies(k != %s and k in self.%s, self.%s[k] is old(self.%s[k])))" % (NEW, t, t, t))
    return r


def table_unchanged(t):
    return "forall(k, 0, 2**53 + 1, (k in self.%s) == old(k in self.%s))" % (t, t)


SEND_RAISES = {"SerializationError": "True", "PayloadExceededError": "True", "TransportLost": "True"}
CORR = ["correlation_id", "correlation_uri", "correlation_is_anchor", "correlation_is_last"]


def corr_clauses(opt):
    # correlation attributes given in the options are copied to the message
    return ["implies(%s is not None and %s.%s is not None, ghost.last_sent.%s is %s.%s)" % (opt, opt, c, c, opt, c)
            for c in CORR]


def build_requests(reg, common):
    OPT_COMMON = {c: "any" for c in CORR}
    reg.shape("PublishOptions", cls=T + ":PublishOptions", fields=dict(
        OPT_COMMON, acknowledge="opt:bool", exclude_me="opt:bool", exclude="any", exclude_authid="any",
        exclude_authrole="any", eligible="any", eligible_authid="any", eligible_authrole="any", retain="opt:bool",
        forward_for="any", transaction_hash="opt:str"))
    reg.shape("CallOptions", cls=T + ":CallOptions", fields=dict(
        OPT_COMMON, on_progress="any", timeout="opt:int", transaction_hash="opt:str", caller="opt:int",
        caller_authid="opt:str", caller_authrole="opt:str", forward_for="any", details="any"))
    reg.shape("SubscribeOptions", cls=T + ":SubscribeOptions", fields=dict(
        OPT_COMMON, match="opt:str", details="any", details_arg="opt:str", get_retained="opt:bool", forward_for="any"))
    reg.shape("RegisterOptions", cls=T + ":RegisterOptions", fields=dict(
        OPT_COMMON, match="opt:str", invoke="opt:str", concurrency="opt:int", force_reregister="opt:bool",
        forward_for="any", details="any", details_arg="opt:str"))
    for c in ("PublishOptions", "CallOptions", "SubscribeOptions", "RegisterOptions"):
        reg.mark_inline(T + ":%s.message_attr" % c)

    # ------------------------------------------------------------------ _unregister
    reg.contract(
        SESS + "._unregister", name=SESS + "._unregister[request]",
        params={"self": "obj:Session", "registration": "sym:Registration"}, returns="any",
        requires=["self._transport is not None", GEN, pending_le_next("_unregister_reqs")],
        modifies=["self._unregister_reqs", "UnregisterRequest.*", "Request.*", "Fut.*", "ghost.n_sent", "ghost.last_sent",
                  "self._request_id_gen._next"],
        ensures=[
            "ghost.n_sent == old(ghost.n_sent) + 1",
            "isinstance(ghost.last_sent, Unregister) and ghost.last_sent.request == %s and "
            "ghost.last_sent.registration == registration.id" % NEW,
            # a fresh id, recorded with the pending result that is returned (not completed yet)
            "old(%s not in self._unregister_reqs)" % "self._request_id_gen._next + 1",
            "%s in self._unregister_reqs and self._unregister_reqs[%s].request_id == %s and "
            "self._unregister_reqs[%s].registration_id == registration.id" % (NEW, NEW, NEW, NEW),
            "result is self._unregister_reqs[%s].on_reply and not fut_done(result.addr) and "
            "not allocated_before(result.addr)" % NEW,
            pending_le_next("_unregister_reqs"),
        ] + others_kept("_unregister_reqs"),
        raises=dict(SEND_RAISES, AssertionError="True"),
        raises_ensures={"AssertionError": ["ghost.n_sent == old(ghost.n_sent)", table_unchanged("_unregister_reqs")],
                        # the transport refused the message: nothing was sent and no request stays pending
                        "SerializationError": ["ghost.n_sent == old(ghost.n_sent)", table_unchanged("_unregister_reqs")],
                        "PayloadExceededError": ["ghost.n_sent == old(ghost.n_sent)", table_unchanged("_unregister_reqs")],
                        "TransportLost": ["ghost.n_sent == old(ghost.n_sent)", table_unchanged("_unregister_reqs")]},
        **common)
