"""C04, request-issuing side: publish / call / subscribe / register / _unsubscribe / _unregister build exactly one request
message that carries the fresh request id and the given URI, arguments and options, record the request *before* handing
the message to the transport, and leave no record behind when the transport refuses it."""
from .wamp_common import SESS

T = "autobahn.wamp.types"
TABLES = ["_publish_reqs", "_subscribe_reqs", "_unsubscribe_reqs", "_register_reqs", "_unregister_reqs", "_call_reqs"]

# the id generator has not wrapped: every id handed out so far is <= _next, so next() is an id no pending request bears
GEN = "0 <= self._request_id_gen._next and self._request_id_gen._next < 2**53"
NEW = "old(self._request_id_gen._next) + 1"


def pending_le_next(t):
    return "forall(k, 0, 2**53 + 1, implies(k in self.%s, k <= self._request_id_gen._next))" % t


def others_kept(t, strict_values=True):
    r = ["forall(k, 0, 2**53 + 1, implies(k != %s, (k in self.%s) == old(k in self.%s)))" % (NEW, t, t)]
    if strict_values:
        r.append("forall(k, 0, 2**53 + 1, implies(k != %s and k in self.%s, self.%s[k] is old(self.%s[k])))" % (NEW, t, t, t))
    return r


def table_unchanged(t):
    return "forall(k, 0, 2**53 + 1, (k in self.%s) == old(k in self.%s))" % (t, t)


SEND_RAISES = {"SerializationError": "True", "PayloadExceededError": "True", "TransportLost": "True"}
CORR = ["correlation_id", "correlation_uri", "correlation_is_anchor", "correlation_is_last"]


def corr_clauses(opt):
    # correlation attributes given in the options are copied to the message
    return ["implies(%s is not None and %s.%s is not None, ghost.last_sent.%s is %s.%s)" % (opt, opt, c, c, opt, c)
            for c in CORR]


def build_requests(reg, common):
    OPT_COMMON = {c: "any" for c in CORR}
    reg.shape("PublishOptions", cls=T + ":PublishOptions", fields=dict(
        OPT_COMMON, acknowledge="opt:bool", exclude_me="opt:bool", exclude="opt:int|list:int",
        exclude_authid="opt:str|list:str", exclude_authrole="opt:str|list:str", eligible="opt:int|list:int",
        eligible_authid="opt:str|list:str", eligible_authrole="opt:str|list:str", retain="opt:bool",
        forward_for="opt:list:int", transaction_hash="opt:str"))
    reg.shape("CallOptions", cls=T + ":CallOptions", fields=dict(
        OPT_COMMON, on_progress="opt:int", timeout="opt:int", transaction_hash="opt:str", caller="opt:int",
        caller_authid="opt:str", caller_authrole="opt:str", forward_for="opt:int", details="any"))
    reg.shape("SubscribeOptions", cls=T + ":SubscribeOptions", fields=dict(
        OPT_COMMON, match="opt:str", details="any", details_arg="opt:str", get_retained="opt:bool", forward_for="opt:list:int"))
    reg.shape("RegisterOptions", cls=T + ":RegisterOptions", fields=dict(
        OPT_COMMON, match="opt:str", invoke="opt:str", concurrency="opt:int", force_reregister="opt:bool",
        forward_for="opt:list:int", details="any", details_arg="opt:str"))
    reg.shapes["Ghost"].fields.update({"options": "any"})
    # call options are kept in the call request (the progress handler is looked up there): a record like the request
    reg.record_class(T + ":CallOptions", "CallOptions")
    reg.shapes["CallRequest"].fields["options"] = "opt:sym:CallOptions"
    # handlers / endpoints: records; the callable is an opaque identity
    reg.shapes["HandlerRec"].fields.update({"fn": "int", "obj": "opt:int", "details_arg": "opt:str"})
    reg.record_class("autobahn.wamp.request:Handler", "HandlerRec")
    reg.record_class("autobahn.wamp.request:Endpoint", "HandlerRec")
    for c in ("PublishOptions", "CallOptions", "SubscribeOptions", "RegisterOptions"):
        reg.mark_inline(T + ":%s.message_attr" % c)

    # validators: proved against the URI grammar under C08; here only "returns or raises InvalidUriError, no effect"
    reg.contract("autobahn.wamp.message:check_or_raise_uri",
                 params={"value": "any", "message": "any", "strict": "bool", "allow_empty_components": "bool",
                         "allow_last_empty": "bool", "allow_none": "bool"},
                 returns="any", raises={"InvalidUriError": "True"}, verify=False, props=["C08"], spec_module="specs.wamp")

    # ------------------------------------------------------------------ _unregister
    reg.contract(
        SESS + "._unregister", name=SESS + "._unregister[request]",
        params={"self": "obj:Session", "registration": "sym:Registration"}, returns="any",
        requires=["self._transport is not None", GEN, pending_le_next("_unregister_reqs")],
        modifies=["self._unregister_reqs", "UnregisterRequest.*", "Request.*", "Fut.*", "ghost.n_sent", "ghost.last_sent",
                  "self._request_id_gen._next"],
        ensures=[
            "ghost.n_sent == old(ghost.n_sent) + 1",
            "isinstance(ghost.last_sent, Unregister) and ghost.last_sent.request == %s and "
            "ghost.last_sent.registration == registration.id" % NEW,
            # a fresh id, recorded with the pending result that is returned (not completed yet)
            "old(%s not in self._unregister_reqs)" % "self._request_id_gen._next + 1",
            "%s in self._unregister_reqs and self._unregister_reqs[%s].request_id == %s and "
            "self._unregister_reqs[%s].registration_id == registration.id" % (NEW, NEW, NEW, NEW),
            "result is self._unregister_reqs[%s].on_reply and not fut_done(result.addr) and "
            "not allocated_before(result.addr)" % NEW,
            pending_le_next("_unregister_reqs"),
        ] + others_kept("_unregister_reqs"),
        raises=dict(SEND_RAISES, AssertionError="True"),
        raises_ensures={"AssertionError": ["ghost.n_sent == old(ghost.n_sent)", table_unchanged("_unregister_reqs")],
                        # the transport refused the message: nothing was sent and no request stays pending
                        "SerializationError": ["ghost.n_sent == old(ghost.n_sent)", table_unchanged("_unregister_reqs")],
                        "PayloadExceededError": ["ghost.n_sent == old(ghost.n_sent)", table_unchanged("_unregister_reqs")],
                        "TransportLost": ["ghost.n_sent == old(ghost.n_sent)", table_unchanged("_unregister_reqs")]},
        **common)

    # ------------------------------------------------------------------ publish
    PUB_WIRE = ["acknowledge", "exclude_me", "retain", "transaction_hash", "forward_for"]
    PUB_LISTS = ["exclude", "exclude_authid", "exclude_authrole", "eligible", "eligible_authid", "eligible_authrole"]
    ACK = "(options is not None and options.acknowledge is True)"
    reg.contract(
        SESS + ".publish", name=SESS + ".publish[request]",
        params={"self": "obj:Session", "topic": "str", "args": "any", "kwargs": "cdict:options=opt:obj:PublishOptions"},
        returns="any",
        # (a kwargs dict without the key behaves like options=None: kwargs.pop("options", None))
        ghost_entry=["ghost.options = kwargs['options']"],
        requires=["self._transport is not None", GEN, pending_le_next("_publish_reqs")],
        modifies=["self._publish_reqs", "PublishRequest.*", "Request.*", "Fut.*", "ghost.n_sent", "ghost.last_sent",
                  "self._request_id_gen._next", "kwargs", "ghost.options"],
        ensures=[
            "ghost.n_sent == old(ghost.n_sent) + 1",
            # exactly one PUBLISH with the fresh request id and faithfully the given topic, arguments and options
            "isinstance(ghost.last_sent, Publish) and ghost.last_sent.request == %s and ghost.last_sent.topic == topic" % NEW,
            "ghost.last_sent.args is args and ghost.last_sent.kwargs is kwargs and 'options' not in kwargs",
        ] + ["ghost.last_sent.%s is (ghost.options.%s if ghost.options is not None else None)" % (f, f) for f in PUB_WIRE]
          + ["implies(ghost.options is None or ghost.options.%s is None, ghost.last_sent.%s is None)" % (f, f) for f in PUB_LISTS]
          # a list of receivers is passed on as it is (also when empty), a single value as a one-element list
          + ["implies(ghost.options is not None and isinstance(ghost.options.%s, list), ghost.last_sent.%s is ghost.options.%s)"
             % (f, f, f) for f in PUB_LISTS]
          + ["implies(ghost.options is not None and ghost.options.%s is not None and not isinstance(ghost.options.%s, list), "
             "len(ghost.last_sent.%s) == 1 and ghost.last_sent.%s[0] == ghost.options.%s)" % (f, f, f, f, f) for f in PUB_LISTS]
          + corr_clauses("ghost.options") + [
            "old(%s not in self._publish_reqs)" % "self._request_id_gen._next + 1",
            # only acknowledged publications expect a reply: recorded before the message is handed to the transport
            "implies(ghost.options is not None and ghost.options.acknowledge is True, %s in self._publish_reqs and "
            "self._publish_reqs[%s].request_id == %s and result is self._publish_reqs[%s].on_reply and "
            "not fut_done(result.addr) and not allocated_before(result.addr))" % (NEW, NEW, NEW, NEW),
            "implies(not (ghost.options is not None and ghost.options.acknowledge is True), result is None and "
            "%s not in self._publish_reqs)" % NEW,
            pending_le_next("_publish_reqs"),
        ] + others_kept("_publish_reqs"),
        raises=dict(SEND_RAISES, AssertionError="True", InvalidUriError="True", Exception="True"),
        raises_ensures={"*": ["ghost.n_sent == old(ghost.n_sent)", table_unchanged("_publish_reqs")]},
        **common)

    # ------------------------------------------------------------------ call
    CALL_WIRE = ["timeout", "transaction_hash", "forward_for", "caller", "caller_authid", "caller_authrole"]
    reg.external("txaio.create_future", _create_future_with_canceller)
    reg.contract(
        SESS + ".call", name=SESS + ".call[request]",
        params={"self": "obj:Session", "procedure": "str", "args": "any", "kwargs": "cdict:options=opt:sym:CallOptions"},
        returns="any", ghost_entry=["ghost.options = kwargs['options']"],
        requires=["self._transport is not None", GEN, pending_le_next("_call_reqs")],
        modifies=["self._call_reqs", "CallRequest.*", "Request.*", "Fut.*", "ghost.n_sent", "ghost.last_sent",
                  "self._request_id_gen._next", "kwargs", "ghost.options"],
        ensures=[
            "ghost.n_sent == old(ghost.n_sent) + 1",
            "isinstance(ghost.last_sent, Call) and ghost.last_sent.request == %s and ghost.last_sent.procedure == procedure" % NEW,
            "ghost.last_sent.args is args and ghost.last_sent.kwargs is kwargs and 'options' not in kwargs",
        ] + ["ghost.last_sent.%s is (ghost.options.%s if ghost.options is not None else None)" % (f, f) for f in CALL_WIRE]
          + [
            # progressive results are requested exactly when the caller gave a progress handler
            "(ghost.last_sent.receive_progress is True) == (ghost.options is not None and ghost.options.on_progress is not None)",
            "ghost.last_sent.receive_progress is None or ghost.last_sent.receive_progress is True"]
          + corr_clauses("ghost.options") + [
            "old(%s not in self._call_reqs)" % "self._request_id_gen._next + 1",
            # recorded (with its options: the progress handler is looked up there) before the message is sent
            "%s in self._call_reqs and self._call_reqs[%s].request_id == %s and result is self._call_reqs[%s].on_reply and "
            "not fut_done(result.addr) and not allocated_before(result.addr)" % (NEW, NEW, NEW, NEW),
            "self._call_reqs[%s].options is ghost.options and self._call_reqs[%s].procedure == procedure" % (NEW, NEW),
            pending_le_next("_call_reqs"),
        ] + others_kept("_call_reqs"),
        raises=dict(SEND_RAISES, AssertionError="True", InvalidUriError="True", Exception="True"),
        raises_ensures={"*": ["ghost.n_sent == old(ghost.n_sent)", table_unchanged("_call_reqs")]},
        **common)

    # ------------------------------------------------------------------ subscribe / register (single callable)
    def subreg(api, inner, msgcls, table, rec_uri, rec_handler, optshape, uri_field, wire):
        T_ = "self." + table
        pre = ["self._transport is not None", GEN, pending_le_next(table)]
        mod = [T_, "%s.*" % {"_subscribe_reqs": "SubscribeRequest", "_register_reqs": "RegisterRequest"}[table], "Request.*",
               "Fut.*", "HandlerRec.*", "ghost.n_sent", "ghost.last_sent", "self._request_id_gen._next"]
        ens = [
            "ghost.n_sent == old(ghost.n_sent) + 1",
            "isinstance(ghost.last_sent, %s) and ghost.last_sent.request == %s" % (msgcls, NEW),
        ] + ["ghost.last_sent.%s is (options.%s if options is not None else None)" % (f, f) for f in wire] \
          + corr_clauses("options") + [
            "old(%s not in %s)" % ("self._request_id_gen._next + 1", T_),
            "%s in %s and %s[%s].request_id == %s and result is %s[%s].on_reply and not fut_done(result.addr) and "
            "not allocated_before(result.addr)" % (NEW, T_, T_, NEW, NEW, T_, NEW),
            # the handler / endpoint the reply will attach, with the details argument the options ask for
            "%s[%s].%s.fn == fn and %s[%s].%s.details_arg is (options.details_arg if options is not None else None)"
            % (T_, NEW, rec_handler, T_, NEW, rec_handler),
            pending_le_next(table),
        ] + others_kept(table)
        rz = {"*": ["ghost.n_sent == old(ghost.n_sent)", table_unchanged(table)]}
        return pre, mod, ens, rz

    pre, mod, ens, rz = subreg("subscribe", "_subscribe", "Subscribe", "_subscribe_reqs", "topic", "handler",
                               "SubscribeOptions", "topic", ["match", "get_retained", "forward_for"])
    reg.contract(
        SESS + ".subscribe/_subscribe", name=SESS + ".subscribe/_subscribe[request]",
        params={"self": "obj:Session", "obj": "none", "fn": "int", "topic": "str", "options": "opt:obj:SubscribeOptions",
                "check_types": "const:None"}, returns="any",
        requires=pre, modifies=mod,
        ensures=ens + ["ghost.last_sent.topic == topic and self._subscribe_reqs[%s].topic == topic" % NEW],
        raises=dict(SEND_RAISES, InvalidUriError="True"), raises_ensures=rz, **common)
    pre, mod, ens, rz = subreg("register", "_register", "Register", "_register_reqs", "procedure", "endpoint",
                               "RegisterOptions", "procedure", ["match", "invoke", "concurrency", "force_reregister",
                                                                "forward_for"])
    reg.contract(
        SESS + ".register/_register", name=SESS + ".register/_register[request]",
        params={"self": "obj:Session", "obj": "none", "fn": "int", "procedure": "str", "options": "opt:obj:RegisterOptions",
                "check_types": "const:None", "prefix": "none"}, returns="any",
        requires=pre, modifies=mod,
        ensures=ens + ["ghost.last_sent.procedure == procedure and self._register_reqs[%s].procedure == procedure" % NEW],
        raises=dict(SEND_RAISES, InvalidUriError="True"), raises_ensures=rz, **common)

    # ------------------------------------------------------------------ _unsubscribe: the request record of the UNSUBSCRIBE
    L = "self._subscriptions[subscription.id]"
    reg.contract(
        SESS + "._unsubscribe", name=SESS + "._unsubscribe[request]",
        params={"self": "obj:Session", "subscription": "sym:Subscription"}, returns="any",
        requires=["self._transport is not None", GEN, pending_le_next("_unsubscribe_reqs")],
        modifies=["self._subscriptions", "Subscription.active", "self._unsubscribe_reqs", "UnsubscribeRequest.*", "Request.*",
                  "Fut.*", "ghost.n_sent", "ghost.last_sent", "self._request_id_gen._next", "ghost.n_completions"],
        ensures=[
            "ghost.n_sent == old(ghost.n_sent) + (1 if old(len(%s)) == 1 else 0)" % L,
            "implies(old(len(%s)) == 1, isinstance(ghost.last_sent, Unsubscribe) and ghost.last_sent.request == %s and "
            "ghost.last_sent.subscription == subscription.id and %s in self._unsubscribe_reqs and "
            "self._unsubscribe_reqs[%s].request_id == %s and self._unsubscribe_reqs[%s].subscription_id == subscription.id "
            "and result is self._unsubscribe_reqs[%s].on_reply and not fut_done(result.addr) and "
            "not allocated_before(result.addr))" % (L, NEW, NEW, NEW, NEW, NEW, NEW),
            "implies(old(len(%s)) == 1, old(%s not in self._unsubscribe_reqs))" % (L, "self._request_id_gen._next + 1"),
            # handlers remain: no request is issued, no id is consumed
            "implies(old(len(%s)) != 1, %s and self._request_id_gen._next == old(self._request_id_gen._next))"
            % (L, table_unchanged("_unsubscribe_reqs")),
            pending_le_next("_unsubscribe_reqs"),
        ] + others_kept("_unsubscribe_reqs"),
        raises=dict(SEND_RAISES, AssertionError="True"),
        raises_ensures={"*": ["ghost.n_sent == old(ghost.n_sent)", table_unchanged("_unsubscribe_reqs")]},
        **common)


def _create_future_with_canceller(ex, state, args, kwargs, sv):
    """txaio.create_future(canceller=...): the canceller is only stored by txaio (called on cancel, outside this unit)"""
    from . import wamp_common as W
    return W.ext_create_future(ex, state, [], {}, None)
