"""WAMP transports (C10 send interface, C13 negotiation / framing): contracts on the real send() / handshake code."""
import z3

from pyvc.values import *  # noqa
from pyvc.engine import HObj

TXR = "autobahn.twisted.rawsocket"
AIR = "autobahn.asyncio.rawsocket"
WWS = "autobahn.wamp.websocket"

ASSUMPTIONS = [
    "ISerializer.serialize(msg) returns (bytes, bool) or raises any Exception subclass (codecs raise TypeError etc. for "
    "unserializable payloads)",
    "Twisted Int32StringReceiver.sendString / asyncio transport.write append to the wire and are total",
    "WebSocketProtocol.sendMessage raises Disconnected / PayloadExceededError or sends exactly the given message (its own "
    "contract: C01/C05/C16)",
]
# ITransport.send interface contract: what the session is verified against
SEND_RAISES = {"SerializationError": "True", "PayloadExceededError": "True", "TransportLost": "True"}


def ext_serialize(ex, state, args, kwargs, sv):
    """ISerializer.serialize: (payload, is_binary), or any Exception from the codec"""
    rs_b = z3.Bool(fresh_name("serialize_raises"))
    rs = state.copy()
    rs.pending = []
    rs.assume(rs_b)
    exc = ex.mk_exc(rs, "Exception", exact=False)
    state.pending.append((rs, exc))
    state.assume(z3.Not(rs_b))
    o = state.heap[sv.oid]
    return VTuple([VBytes(z3.Const(fresh_name("payload"), BytesSort)), o.fields["BINARY"]])


def ext_send_string(ex, state, args, kwargs, sv):
    g = state.heap[state.ghost.oid]
    g.fields["n_written"] = VInt(simp(g.fields["n_written"].t + 1))
    g.fields["last_written"] = args[0]
    return VNone


def ext_ws_send_message(ex, state, args, kwargs, sv):
    for name in ("Disconnected", "PayloadExceededError"):
        ex.raise_if(state, z3.Bool(fresh_name("sendMessage_raises_" + name)), name)
    g = state.heap[state.ghost.oid]
    g.fields["n_written"] = VInt(simp(g.fields["n_written"].t + 1))
    g.fields["last_written"] = args[0]
    return VNone


def build_send(reg, props):
    common = dict(props=props, spec_module="specs.wamp")
    if "Ghost" in reg.shapes:
        reg.shapes["Ghost"].fields.update({"n_written": "nat", "last_written": "bytes"})
    else:
        reg.shape("Ghost", fields={"n_written": "nat", "last_written": "bytes"}, ghost=True)
    reg.external("serializer.serialize", ext_serialize)
    reg.external("transport.sendString", ext_send_string)
    reg.external("ws.sendMessage", ext_ws_send_message)
    reg.shape("SerializerS", fields={"BINARY": "bool", "SERIALIZER_ID": "str", "RAWSOCKET_SERIALIZER_ID": "int"},
              methods={"serialize": "serializer.serialize"})
    reg.shape("SessionRef", fields={"_authid": "any", "_session_id": "any"})
    POST = ["ghost.n_written == old(ghost.n_written) + 1"]
    RE = {"*": ["ghost.n_written == old(ghost.n_written)"]}     # an error to the caller means nothing was written
    # ---- Twisted RawSocket
    reg.shape("TxRawSocket", cls=TXR + ":WampRawSocketProtocol",
              fields={"log": "logger", "_session": "opt:obj:SessionRef", "_serializer": "obj:SerializerS",
                      "_max_len_send": "nat"}, methods={"sendString": "transport.sendString"})
    reg.mark_inline(TXR + ":WampRawSocketProtocol.isOpen", AIR + ":WampRawSocketMixinGeneral.isOpen",
                    WWS + ":WampWebSocketProtocol.isOpen")
    reg.contract(
        TXR + ":WampRawSocketProtocol.send", params={"self": "obj:TxRawSocket", "msg": "any"},
        modifies=["ghost.n_written", "ghost.last_written"],
        ensures=POST + ["not (0 < self._max_len_send and self._max_len_send < len(ghost.last_written))"],
        raises=SEND_RAISES, raises_ensures=RE, **common)
    # ---- asyncio RawSocket
    reg.shape("AioRawSocket", cls=AIR + ":WampRawSocketServerProtocol",
              fields={"log": "logger", "_session": "opt:obj:SessionRef", "_serializer": "obj:SerializerS",
                      "max_length_send": "nat", "prefix_format": "const:'!L'", "transport": "obj:AioTransport"})
    reg.shape("AioTransport", fields={}, methods={"write": "transport.sendString"})
    reg.contract(
        AIR + ":WampRawSocketMixinGeneral.send", params={"self": "obj:AioRawSocket", "msg": "any"},
        requires=["self.max_length_send <= 2**24"],        # announced by the peer as 2**(9+n), n <= 15
        modifies=["ghost.n_written", "ghost.last_written"],
        ensures=["ghost.n_written == old(ghost.n_written) + 2",        # length prefix + payload
                 "len(ghost.last_written) <= self.max_length_send"],
        raises=SEND_RAISES, raises_ensures=RE, inline_calls=[AIR + ":PrefixProtocol.sendString"], **common)
    # ---- WAMP-over-WebSocket
    reg.shape("WampWs", cls=WWS + ":WampWebSocketProtocol",
              fields={"log": "logger", "_session": "opt:obj:SessionRef", "_serializer": "obj:SerializerS"},
              methods={"sendMessage": "ws.sendMessage"})
    reg.contract(
        WWS + ":WampWebSocketProtocol.send", params={"self": "obj:WampWs", "msg": "any"},
        modifies=["ghost.n_written", "ghost.last_written"], ensures=POST,
        raises=dict(SEND_RAISES, Disconnected="True"), raises_ensures=RE, **common)
