"""C09 — UTF-8 validation equals RFC 3629, incrementally and in both implementations."""
import z3

from pyvc import natives
from pyvc.values import BytesSort, VInt, VBytes
from pyvc.spec_tools import spec_term, induction_lemma, finite_lemma

ASSUMPTIONS = [
    "cffi passes exactly len(ba) octets of the buffer to nvx_utf8vld_validate; size_t is 64 bit",
    "SSE2/SSE4.1 variants of the NVX validator are not dispatched by nvx_utf8vld_validate (checked structurally)",
]

PY = "autobahn.websocket.utf8validator:Utf8Validator"

# ---- spec: utf8_run(q, s, i) = context after consuming the first i octets of s starting in context q
utf8_run = z3.RecFunction("utf8_run", z3.IntSort(), BytesSort, z3.IntSort(), z3.IntSort())
_q, _i = z3.Ints("q i")
_s = z3.Const("s", BytesSort)
_qq, _bb = z3.Ints("qq bb")
STEP = None


def step_term(q, b):
    global STEP
    if STEP is None:
        STEP = spec_term("specs.utf8", "rfc3629_step", [_qq, _bb])
    return z3.substitute(STEP, (_qq, q), (_bb, b))


def _define():
    z3.RecAddDefinition(utf8_run, [_q, _s, _i],
                        z3.If(_i <= 0, _q, step_term(utf8_run(_q, _s, _i - 1), _s[_i - 1])))


_j = z3.Int("j")


def absorbing_axiom():
    return z3.ForAll([_q, _s, _i, _j], z3.Implies(z3.And(0 <= _i, _i <= _j, utf8_run(_q, _s, _i) == 8),
                                                   utf8_run(_q, _s, _j) == 8),
                     patterns=[z3.MultiPattern(utf8_run(_q, _s, _i), utf8_run(_q, _s, _j))])


def range_axiom():
    return z3.ForAll([_q, _s, _i], z3.Implies(z3.And(0 <= _q, _q <= 8), z3.And(0 <= utf8_run(_q, _s, _i),
                                                                               utf8_run(_q, _s, _i) <= 8)),
                     patterns=[utf8_run(_q, _s, _i)])


def ensure_defined():
    global _defined
    if not _defined:
        _define()
        _defined = True


_defined = False


def sym_utf8_run(ex, state, q, s, i):
    ensure_defined()
    return VInt(utf8_run(ex.num(q), s.t, ex.num(i)))


def lem_absorbing(ex, state, q, s, i, j):
    """instance of L1: 0 <= i <= j and run(q,s,i) == REJECT  ==>  run(q,s,j) == REJECT"""
    from pyvc.values import VBool
    ensure_defined()
    q, i, j = ex.num(q), ex.num(i), ex.num(j)
    return VBool(z3.Implies(z3.And(0 <= i, i <= j, utf8_run(q, s.t, i) == 8), utf8_run(q, s.t, j) == 8))


def lem_range(ex, state, q, s, i):
    """instance of L2: 0 <= q <= 8 and i >= 0 ==> 0 <= run(q,s,i) <= 8"""
    from pyvc.values import VBool
    ensure_defined()
    q, i = ex.num(q), ex.num(i)
    return VBool(z3.Implies(z3.And(0 <= q, q <= 8, i >= 0), z3.And(0 <= utf8_run(q, s.t, i), utf8_run(q, s.t, i) <= 8)))


def lem_prefix(ex, state, q, a, b, i):
    """instance of L3: 0 <= i <= |a| ==> run(q, a+b, i) == run(q, a, i)"""
    from pyvc.values import VBool
    ensure_defined()
    q, i = ex.num(q), ex.num(i)
    return VBool(z3.Implies(z3.And(0 <= i, i <= z3.Length(a.t)),
                            utf8_run(q, z3.Concat(a.t, b.t), i) == utf8_run(q, a.t, i)))


def lem_composition(ex, state, q, a, b, j):
    """instance of L4: 0 <= j <= |b| ==> run(run(q,a,|a|), b, j) == run(q, a+b, |a|+j)"""
    from pyvc.values import VBool
    ensure_defined()
    q, j = ex.num(q), ex.num(j)
    na = z3.Length(a.t)
    return VBool(z3.Implies(z3.And(0 <= j, j <= z3.Length(b.t)),
                            utf8_run(utf8_run(q, a.t, na), b.t, j) == utf8_run(q, z3.Concat(a.t, b.t), na + j)))


def build(reg):
    build_py(reg)
    build_c(reg)
    build_lemmas(reg)


def build_py(reg):
    reg.native_spec("utf8_run", sym_utf8_run)
    reg.lemma_fn("utf8_run_prefix", lem_prefix)
    reg.lemma_fn("utf8_run_composition", lem_composition)
    reg.lemma_fn("utf8_run_absorbing", lem_absorbing)
    reg.lemma_fn("utf8_run_range", lem_range)
    reg.shape("Utf8ValidatorPy", cls=PY, fields={"_state": "int", "_index": "int", "_codepoint": "int"})
    common = dict(props=["C09"], spec_module="specs.utf8")
    reg.contract(PY + ".reset", params={"self": "obj:Utf8ValidatorPy"},
                 modifies=["self._state", "self._index", "self._codepoint"],
                 ensures=["self._state == to_table(START)", "self._index == 0"], **common)
    reg.contract(
        PY + ".validate", params={"self": "obj:Utf8ValidatorPy", "ba": "bytes"},
        returns="tuple:bool,bool,int,int",
        requires=["0 <= self._state <= 8", "self._index >= 0"],
        modifies=["self._state", "self._index"],
        ensures=[
            # verdict: valid iff the RFC 3629 run over this chunk from the carried context never rejects
            "result[0] == (utf8_run(from_table(old(self._state)), ba, len(ba)) != REJECT)",
            # ends on a code point boundary iff valid and the run is back in START
            "result[1] == (result[0] and utf8_run(from_table(old(self._state)), ba, len(ba)) == START)",
            # position: whole chunk when valid; else index of the first offending octet of this chunk
            "implies(result[0], result[2] == len(ba))",
            "implies(not result[0] and old(self._state) != 1, 0 <= result[2] < len(ba) and "
            "utf8_run(from_table(old(self._state)), ba, result[2]) != REJECT and "
            "utf8_run(from_table(old(self._state)), ba, result[2] + 1) == REJECT)",
            "implies(not result[0] and old(self._state) == 1, result[2] == 0)",
            "result[3] == old(self._index) + result[2] and self._index == result[3]",
            # carried context for the next chunk
            "implies(result[0], self._state == to_table(utf8_run(from_table(old(self._state)), ba, len(ba))))",
            "implies(not result[0], self._state == 1)",
            "0 <= self._state <= 8",
        ],
        hints=["utf8_run_absorbing(from_table(old(self._state)), ba, result[2] + 1, len(ba))",
               "utf8_run_absorbing(from_table(old(self._state)), ba, 0, len(ba))",
               "utf8_run_absorbing(from_table(old(self._state)), ba, 0, result[2])"],
        loops={0: {"invariant": [
            "0 <= i <= l and l == len(ba)",
            "0 <= state <= 8 and (state != 1 or (i == 0 and old(self._state) == 1))",
            "state == to_table(utf8_run(from_table(old(self._state)), ba, i))",
            "self._state == old(self._state) and self._index == old(self._index)",
        ]}},
        **common)


CMOD = "cnvx._utf8validator"
CSRC = "/repo/src/autobahn/nvx/_utf8validator.c"
NVXPY = "autobahn.nvx._utf8validator:Utf8Validator"


def build_c(reg):
    import os
    from pyvc import cfront, loader
    src = os.path.join(loader.REPO, "src/autobahn/nvx/_utf8validator.c")
    loader.set_virtual_module(CMOD, cfront.translate_file(src))
    reg.shape("NvxUtf8Vld", fields={"current_index": "int", "total_index": "int", "state": "int", "impl": "int"})
    common = dict(props=["C09"], spec_module="specs.utf8")
    Q0 = "from_table(old(utf8vld.state))"
    post = [
        # -1 invalid / 0 valid, on a code point boundary / 1 valid, inside a code point
        "(result != -1) == (utf8_run(%s, data, length) != REJECT)" % Q0,
        "(result == 0) == (utf8_run(%s, data, length) == START)" % Q0,
        "result == -1 or result == 0 or result == 1",
        "implies(result != -1, utf8vld.current_index == length)",
        "implies(result == -1 and old(utf8vld.state) != 1, 0 <= utf8vld.current_index < length and "
        "utf8_run(%s, data, utf8vld.current_index) != REJECT and "
        "utf8_run(%s, data, utf8vld.current_index + 1) == REJECT)" % (Q0, Q0),
        "implies(result == -1 and old(utf8vld.state) == 1, utf8vld.current_index == 0)",
        "utf8vld.total_index == old(utf8vld.total_index) + utf8vld.current_index",
        "implies(result != -1, utf8vld.state == to_table(utf8_run(%s, data, length)))" % Q0,
        "implies(result == -1, utf8vld.state == 1)",
        "0 <= utf8vld.state <= 8",
    ]
    pre = ["len(data) == length", "0 <= utf8vld.state <= 8", "0 <= utf8vld.total_index",
           "utf8vld.total_index + length < 2**64", "length < 2**63"]
    hints = ["utf8_run_absorbing(%s, data, utf8vld.current_index + 1, length)" % Q0,
             "utf8_run_absorbing(%s, data, 0, length)" % Q0,
             "utf8_run_absorbing(%s, data, 0, utf8vld.current_index)" % Q0]
    inv = ["0 <= i <= length",
           "0 <= state <= 8 and (state != 1 or (i == 0 and old(utf8vld.state) == 1))",
           "state == to_table(utf8_run(%s, data, i))" % Q0,
           "utf8vld.state == old(utf8vld.state) and utf8vld.total_index == old(utf8vld.total_index)"]
    for fn in ("_nvx_utf8vld_validate_table", "_nvx_utf8vld_validate_unrolled"):
        reg.contract(CMOD + ":" + fn, params={"utf8vld": "obj:NvxUtf8Vld", "data": "bytes", "length": "nat"},
                     returns="int", requires=pre, modifies=["utf8vld.state", "utf8vld.current_index", "utf8vld.total_index"],
                     ensures=post, hints=hints, loops={0: {"invariant": inv}}, **common)
    # dispatcher: every impl value reaches a verified implementation (SSE variants are never dispatched)
    reg.contract(CMOD + ":nvx_utf8vld_validate", params={"utf8vld": "obj:NvxUtf8Vld", "data": "bytes", "length": "nat"},
                 returns="int", requires=pre, modifies=["utf8vld.state", "utf8vld.current_index", "utf8vld.total_index"],
                 ensures=post, **common)
    reg.contract(CMOD + ":nvx_utf8vld_reset", params={"utf8vld": "obj:NvxUtf8Vld"},
                 modifies=["utf8vld.state", "utf8vld.current_index", "utf8vld.total_index"],
                 ensures=["utf8vld.state == 0 and utf8vld.current_index == 0 and utf8vld.total_index == 0"], **common)
    reg.contract(CMOD + ":nvx_utf8vld_get_current_index", params={"utf8vld": "obj:NvxUtf8Vld"}, returns="int",
                 ensures=["result == utf8vld.current_index"], **common)
    reg.contract(CMOD + ":nvx_utf8vld_get_total_index", params={"utf8vld": "obj:NvxUtf8Vld"}, returns="int",
                 ensures=["result == utf8vld.total_index"], **common)
    # the Python wrapper (cffi): result mapping res -> (valid, endsOnCodePoint, currentIndex, totalIndex)
    reg.shape("NvxLib", fields={}, methods={
        "nvx_utf8vld_validate": "repo:" + CMOD + ":nvx_utf8vld_validate",
        "nvx_utf8vld_reset": "repo:" + CMOD + ":nvx_utf8vld_reset",
        "nvx_utf8vld_get_current_index": "repo:" + CMOD + ":nvx_utf8vld_get_current_index",
        "nvx_utf8vld_get_total_index": "repo:" + CMOD + ":nvx_utf8vld_get_total_index"})
    reg.shape("Utf8ValidatorNvx", cls=NVXPY, fields={"lib": "obj:NvxLib", "_vld": "obj:NvxUtf8Vld", "ffi": "any"})
    V = "self._vld"
    Q = "from_table(old(self._vld.state))"
    reg.contract(
        NVXPY + ".validate", params={"self": "obj:Utf8ValidatorNvx", "ba": "bytes"},
        returns="tuple:bool,bool,int,int",
        requires=["0 <= self._vld.state <= 8", "0 <= self._vld.total_index", "self._vld.total_index + len(ba) < 2**64",
                  "len(ba) < 2**63"],
        modifies=["self._vld.state", "self._vld.current_index", "self._vld.total_index"],
        ensures=[
            "result[0] == (utf8_run(%s, ba, len(ba)) != REJECT)" % Q,
            "result[1] == (result[0] and utf8_run(%s, ba, len(ba)) == START)" % Q,
            "implies(result[0], result[2] == len(ba))",
            "implies(not result[0] and old(self._vld.state) != 1, 0 <= result[2] < len(ba) and "
            "utf8_run(%s, ba, result[2]) != REJECT and utf8_run(%s, ba, result[2] + 1) == REJECT)" % (Q, Q),
            "implies(not result[0] and old(self._vld.state) == 1, result[2] == 0)",
            "result[3] == old(self._vld.total_index) + result[2] and self._vld.total_index == result[3]",
            "implies(result[0], self._vld.state == to_table(utf8_run(%s, ba, len(ba))))" % Q,
            "implies(not result[0], self._vld.state == 1)",
            "0 <= self._vld.state <= 8",
        ], **common)
    reg.contract(NVXPY + ".reset", params={"self": "obj:Utf8ValidatorNvx"},
                 modifies=["self._vld.state", "self._vld.current_index", "self._vld.total_index"],
                 ensures=["self._vld.state == to_table(START)", "self._vld.total_index == 0"], **common)


def build_lemmas(reg):
    """chunk lemma (segmentation independence), once per implementation, over the units' contracts"""
    common = dict(props=["C09"], spec_module="specs.utf8")
    for name, shape, st, ix in (("py", "Utf8ValidatorPy", "_state", "_index"),
                                ("nvx", "Utf8ValidatorNvx", "_vld.state", "_vld.total_index")):
        Q = "from_table(old(v.%s))" % st
        reg.contract(
            "specs.utf8_lemmas:chunk_lemma", name="C09/lemma/chunk-independence[%s]" % name,
            params={"v": "obj:" + shape, "w": "obj:" + shape, "a": "bytes", "b": "bytes"},
            returns="any",
            requires=["v.%s == w.%s and v.%s == w.%s" % (st, st, ix, ix), "0 <= v.%s <= 8" % st, "0 <= v.%s" % ix,
                      "v.%s + len(a) + len(b) < 2**64 and len(a) + len(b) < 2**63" % ix],
            modifies=["v.*", "w.*", "v._vld.*", "w._vld.*"] if name == "nvx" else ["v.*", "w.*"],
            ensures=[
                # same final verdict, same boundary flag, same total position, same carried context
                "result[1][0] == result[2][0]",
                "result[1][1] == result[2][1]",
                "result[1][3] == result[2][3]",
                "v.%s == w.%s" % (st, st),
                # if the first chunk is already rejected, the split run stays rejected
                "implies(not result[0][0], not result[1][0])",
            ],
            hints=[
                "utf8_run_range(%s, a, len(a))" % Q,
                "utf8_run_composition(%s, a, b, len(b))" % Q,
                "utf8_run_composition(%s, a, b, result[1][2])" % Q,
                "utf8_run_composition(%s, a, b, result[1][2] + 1)" % Q,
                "utf8_run_composition(%s, a, b, result[2][2] - len(a))" % Q,
                "utf8_run_composition(%s, a, b, result[2][2] - len(a) + 1)" % Q,
                "utf8_run_prefix(%s, a, b, result[0][2])" % Q,
                "utf8_run_prefix(%s, a, b, result[0][2] + 1)" % Q,
                "utf8_run_prefix(%s, a, b, result[2][2])" % Q,
                "utf8_run_prefix(%s, a, b, result[2][2] + 1)" % Q,
                "utf8_run_prefix(%s, a, b, len(a))" % Q,
                "utf8_run_absorbing(%s, a, result[2][2] + 1, result[0][2])" % Q,
                "utf8_run_absorbing(%s, a, result[2][2] + 1, len(a))" % Q,
                "utf8_run_absorbing(%s, a + b, result[0][2] + 1, result[2][2])" % Q,
                "utf8_run_absorbing(%s, a + b, result[0][2] + 1, len(a) + len(b))" % Q,
                "utf8_run_absorbing(%s, a + b, len(a) + result[1][2] + 1, result[2][2])" % Q,
                "utf8_run_absorbing(%s, a + b, result[2][2] + 1, len(a) + result[1][2])" % Q,
                "utf8_run_absorbing(%s, a + b, result[2][2] + 1, len(a))" % Q,
                "utf8_run_absorbing(%s, a + b, len(a) + result[1][2] + 1, len(a) + len(b))" % Q,
            ], **common)


def extra_checks(tier, seed):
    ensure_defined()
    out = []
    q, i = z3.Ints("lq li")
    s = z3.Const("ls", BytesSort)
    # L1 (absorbing): run(q,s,i) == REJECT and i <= j  ==>  run(q,s,j) == REJECT      (induction on j from i)
    out += induction_lemma("C09/lemma/reject-absorbing", None, i,
                           lambda j: [i >= 0, utf8_run(q, s, i) == 8],
                           lambda j: utf8_run(q, s, j) == 8, axioms=[])
    # L2 (range): 0 <= q <= 8 ==> 0 <= run(q,s,i) <= 8                                  (induction on i from 0)
    out += induction_lemma("C09/lemma/run-range", None, z3.IntVal(0),
                           lambda j: [0 <= q, q <= 8],
                           lambda j: z3.And(0 <= utf8_run(q, s, j), utf8_run(q, s, j) <= 8), axioms=[])
    # L3 (prefix): i <= |a|  ==>  run(q, a++b, i) == run(q, a, i)                    (induction on i from 0)
    a = z3.Const("la", BytesSort)
    b = z3.Const("lb", BytesSort)
    ab = z3.Concat(a, b)
    out += induction_lemma("C09/lemma/run-prefix", None, z3.IntVal(0),
                           lambda j: [],
                           lambda j: z3.Implies(j <= z3.Length(a), utf8_run(q, ab, j) == utf8_run(q, a, j)), axioms=[])
    # L4 (composition): 0 <= j <= |b| ==> run(run(q,a,|a|), b, j) == run(q, a++b, |a|+j)   (induction on j, uses L3 at |a|)
    na = z3.Length(a)
    l3 = utf8_run(q, ab, na) == utf8_run(q, a, na)
    out += induction_lemma("C09/lemma/run-composition", None, z3.IntVal(0),
                           lambda j: [l3, z3.Implies(z3.And(j >= 0, j < z3.Length(b)), ab[na + j] == b[j])],
                           lambda j: z3.Implies(j <= z3.Length(b), utf8_run(utf8_run(q, a, na), b, j) == utf8_run(q, ab, na + j)),
                           axioms=[])
    return out


# ------------------------------------------------------------------------------------------ replay
def expected(state, index, data):
    """what the property demands of validate() (reference: the RFC 3629 step function of specs/utf8.py)"""
    from specs import utf8 as U
    q = U.from_table(state)
    if state == 1:
        return (False, False, 0, index)
    for k, b in enumerate(data):
        q = U.rfc3629_step(q, b)
        if q == U.REJECT:
            return (False, False, k, index + k)
    return (True, q == U.START, len(data), index + len(data))


def run_real(impl, state, index, data):
    """impl: 'py' (pure Python class, AUTOBAHN_USE_NVX=0) | 'c-table' | 'c-unrolled' (working-tree C via ctypes)"""
    from pyvc import replaylib as R
    if impl == "py":
        code = ("import json\nfrom autobahn.websocket.utf8validator import Utf8Validator\n"
                "v = Utf8Validator(); v._state = %d; v._index = %d\n"
                "r = v.validate(%r)\nprint(json.dumps([bool(r[0]), bool(r[1]), int(r[2]), int(r[3])]))" % (state, index, bytes(data)))
        out = R.run_py(code, env={"AUTOBAHN_USE_NVX": "0"})
        return tuple(out) if isinstance(out, list) else out
    if impl == "nvx-wrapper":
        # the cffi wrapper of the working tree on top of the installed native module; the carried context is
        # established by feeding a prefix that drives the validator into it
        prefix = {0: b"", 2: b"\xc2", 3: b"\xe1", 7: b"\xf1", 4: b"\xe0", 5: b"\xed", 6: b"\xf0", 8: b"\xf4",
                  1: b"\xff"}.get(state)
        if prefix is None:
            return {"error": "state not reachable"}
        code = ("import json\nfrom autobahn.nvx._utf8validator import Utf8Validator\n"
                "v = Utf8Validator(); p = %r; r0 = v.validate(p); off = r0[3]\n"
                "r = v.validate(%r)\nprint(json.dumps([bool(r[0]), bool(r[1]), int(r[2]), int(r[3]) - off + %d]))"
                % (prefix, bytes(data), index))
        out = R.run_py(code)
        return tuple(out) if isinstance(out, list) else out
    import ctypes
    so = R.build_c("src/autobahn/nvx/_utf8validator.c", "utf8vld")
    try:
        lib = ctypes.CDLL(so)

        class S(ctypes.Structure):
            _fields_ = [("current_index", ctypes.c_size_t), ("total_index", ctypes.c_size_t), ("state", ctypes.c_int),
                        ("impl", ctypes.c_int)]
        s = S(0, index, state, 0)
        fn = getattr(lib, "_nvx_utf8vld_validate_table" if impl == "c-table" else "_nvx_utf8vld_validate_unrolled")
        fn.argtypes = [ctypes.c_void_p, ctypes.c_char_p, ctypes.c_size_t]
        fn.restype = ctypes.c_int
        res = fn(ctypes.byref(s), bytes(data), len(data))
        return (res >= 0, res == 0, int(s.current_index), int(s.total_index))
    finally:
        import os
        os.unlink(so)


def replay(o):
    from pyvc import replaylib as R
    inp = o.get("inputs") or {}
    unit = o.get("unit") or o.get("name", "")
    if "utf8validator:Utf8Validator.validate" in unit and "nvx" not in unit:
        impl, st, idx, data = "py", inp.get("self._state"), inp.get("self._index"), R.to_bytes(inp.get("ba"))
    elif "autobahn.nvx._utf8validator:Utf8Validator.validate" in unit:
        impl, st, idx, data = "nvx-wrapper", inp.get("self._vld.state"), inp.get("self._vld.total_index"), R.to_bytes(inp.get("ba"))
    elif "_nvx_utf8vld_validate_table" in unit:
        impl, st, idx, data = "c-table", inp.get("utf8vld.state"), inp.get("utf8vld.total_index"), R.to_bytes(inp.get("data"))
    elif "_nvx_utf8vld_validate_unrolled" in unit:
        impl, st, idx, data = "c-unrolled", inp.get("utf8vld.state"), inp.get("utf8vld.total_index"), R.to_bytes(inp.get("data"))
    else:
        return {"reproduced": False, "detail": "no replay harness for this unit"}
    if not isinstance(st, int) or not isinstance(idx, int):
        return {"reproduced": False, "detail": "model gave no concrete state/index"}
    got = run_real(impl, st, idx, data)
    want = expected(st, idx, data)
    return {"reproduced": tuple(got) != tuple(want) if isinstance(got, tuple) else False,
            "impl": impl, "pre": {"state": st, "index": idx, "data": list(data)}, "got": got, "required": want,
            "detail": "validate() on the real implementation vs the RFC 3629 reference"}


def replay_known(k):
    w = k["witness"]
    got = run_real(w["impl"], w["state"], w["index"], bytes(w["data"]))
    want = expected(w["state"], w["index"], bytes(w["data"]))
    return {"reproduced": isinstance(got, tuple) and tuple(got) != tuple(want), "got": got, "required": want}
