"""C03 — WAMP messages survive every serializer unchanged (the marshal / parse half).

For each message class under contract: any valid message object m (valid = what the class's constructor asserts, ids in
0..2^53, URIs of the WAMP grammar) satisfies parse(marshal(m)) == m field by field.  The object serializers in between
(JSON, MessagePack, CBOR, UBJSON; batching) are third-party codecs: that they reproduce the marshalled structure is an
assumption, not something decided here.
"""
import z3

from pyvc.values import *  # noqa
from . import c08

ASSUMPTIONS = list(c08.ASSUMPTIONS) + [
    "the object serializers (json / msgpack / cbor2 / ubjson and the batching framing) reproduce the list / dict / "
    "scalar structure handed to them (third-party; not decided here)",
    "flatbuffers-backed messages (from_fbs) are outside this check: _from_fbs is None",
]
LEVEL = "other"
NOT_COVERED = ["the third-party codecs and the batching framing of serializer.py",
               "message classes not listed among the functions under contract (the large option-carrying classes: Hello, "
               "Welcome, Challenge, Authenticate, Error, Publish, Subscribe, Event, Call, Result, Register, Invocation, "
               "Yield, Unsubscribe, Unregister)", "the per-message serialization cache (Message._serialized / uncache)"]
MSG = "autobahn.wamp.message"
BASE = {"_from_fbs": "none", "_serialized": "any", "_correlation_id": "any", "_correlation_uri": "any",
        "_correlation_is_anchor": "any", "_correlation_is_last": "any", "_router_internal": "any"}
ID = "0 <= m.%s <= 2**53"


def build(reg):
    c08.build(reg)          # validators: proved there, used here through their contracts
    for u in list(reg.units):
        pass
    reg.units[:] = [u for u in reg.units if "C03" in u.props]      # the validators are C08's units
    common = dict(props=["C03"], spec_module="specs.wampuri")

    def lemma(fn, cls, fields, requires, same):
        shape = "M" + cls
        reg.shape(shape, cls=MSG + ":" + cls, fields=dict(BASE, **fields))
        inl = [MSG + ":%s.%s" % (cls, x) for x in ["marshal", "parse", "__init__"] + list(same)] + [MSG + ":Message.__init__"]
        reg.contract("specs.c03_lemmas:" + fn, name="C03/roundtrip[%s]" % cls, params={"m": "obj:" + shape},
                     returns="any", requires=requires,
                     ensures=["isinstance(result, %s)" % cls] + ["result.%s == m.%s" % (f, f) for f in same],
                     inline_calls=inl, **common)
    lemma("rt_published", "Published", {"_request": "int", "_publication": "int"}, [ID % "_request", ID % "_publication"],
          ["request", "publication"])
    lemma("rt_subscribed", "Subscribed", {"_request": "int", "_subscription": "int"}, [ID % "_request", ID % "_subscription"],
          ["request", "subscription"])
    lemma("rt_registered", "Registered", {"_request": "int", "_registration": "int"}, [ID % "_request", ID % "_registration"],
          ["request", "registration"])


def extra_checks(tier, seed):
    return []
