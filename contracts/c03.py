"""C03 — WAMP messages survive every serializer unchanged (the marshal / parse half).

For each message class under contract: any valid message object m (valid = what the class's constructor asserts, ids in
0..2^53, URIs of the WAMP grammar) satisfies parse(marshal(m)) == m field by field.  The object serializers in between
(JSON, MessagePack, CBOR, UBJSON; batching) are third-party codecs: that they reproduce the marshalled structure is an
assumption, not something decided here.
"""
import z3

from pyvc.values import *  # noqa
from . import c08

ASSUMPTIONS = list(c08.ASSUMPTIONS) + [
    "the object serializers (json / msgpack / cbor2 / ubjson and the batching framing) reproduce the list / dict / "
    "scalar structure handed to them (third-party; not decided here)",
    "flatbuffers-backed messages (from_fbs) are outside this check: _from_fbs is None",
]
LEVEL = "other"
NOT_COVERED = ["the third-party codecs and the batching framing of serializer.py",
               "Hello and Welcome (role feature objects)", "pre-serialized args / kwargs (str / bytes) of PUBLISH",
               "application payload (args / kwargs / transparent payload)", "the per-message serialization cache (Message._serialized / uncache)"]
MSG = "autobahn.wamp.message"
BASE = {"_from_fbs": "none", "_serialized": "any", "_correlation_id": "any", "_correlation_uri": "any",
        "_correlation_is_anchor": "any", "_correlation_is_last": "any", "_router_internal": "any"}
ID = "0 <= m.%s <= 2**53"


def build(reg):
    c08.build(reg)          # validators: proved there, used here through their contracts
    for u in list(reg.units):
        pass
    reg.units[:] = [u for u in reg.units if "C03" in u.props]      # the validators are C08's units
    common = dict(props=["C03"], spec_module="specs.wampuri")

    def lemma(fn, cls, fields, requires, same, extra_inline=(), canon=(), more_inline=()):
        shape = "M" + cls
        reg.shape(shape, cls=MSG + ":" + cls, fields=dict(BASE, **fields))
        inl = [MSG + ":%s.%s" % (cls, x) for x in ["marshal", "parse", "__init__"] + list(same) + list(extra_inline)] + [MSG + ":Message.__init__", MSG + ":check_or_raise_extra", MSG + ":_validate_kwargs",
                                                            MSG + ":MessageWithForwardFor.forward_for", MSG + ":MessageWithForwardFor.__init__",
                                                            MSG + ":MessageWithForwardFor._init_forward_for"] + list(more_inline)
        # canon: the wire format cannot tell an absent args / kwargs from an empty one -- those two are identified
        reg.contract("specs.c03_lemmas:" + fn, name="C03/roundtrip[%s]" % cls, params={"m": "obj:" + shape},
                     returns="any", requires=requires,
                     ensures=["isinstance(result, %s)" % cls] + ["result.%s == m.%s" % (f, f) for f in same]
                     + ["(result.%s is m.%s) or (not m.%s and not result.%s)" % (f, f, f, f) for f in canon],
                     inline_calls=inl, **common)
    lemma("rt_published", "Published", {"_request": "int", "_publication": "int"}, [ID % "_request", ID % "_publication"],
          ["request", "publication"])
    lemma("rt_subscribed", "Subscribed", {"_request": "int", "_subscription": "int"}, [ID % "_request", ID % "_subscription"],
          ["request", "subscription"])
    lemma("rt_registered", "Registered", {"_request": "int", "_registration": "int"}, [ID % "_request", ID % "_registration"],
          ["request", "registration"])

    lemma("rt_event_received", "EventReceived", {"_publication": "int"}, [ID % "_publication"], ["publication"])
    URI_OK = "uri_ok(m.%s, False, False, False)"
    lemma("rt_unsubscribed", "Unsubscribed", {"_request": "int", "_subscription": "opt:int", "_reason": "opt:str"},
          [ID % "_request", "implies(m._reason is not None, %s)" % (URI_OK % "_reason"),
           # constructor invariant: a router-initiated revocation (request 0) names the subscription, an answer does not
           "implies(m._subscription is not None, m._request == 0 and m._subscription != 0 and %s)" % (ID % "_subscription")],
          ["request", "subscription", "reason"])
    lemma("rt_unregistered", "Unregistered", {"_request": "int", "_registration": "opt:int", "_reason": "opt:str"},
          [ID % "_request", "implies(m._reason is not None, %s)" % (URI_OK % "_reason"),
           "implies(m._registration is not None, m._request == 0 and m._registration != 0 and %s)" % (ID % "_registration")],
          ["request", "registration", "reason"])

    lemma("rt_goodbye", "Goodbye", {"_reason": "str", "_message": "opt:str", "_resumable": "opt:bool"},
          [URI_OK % "_reason"], ["reason", "message", "resumable"])
    lemma("rt_abort", "Abort", {"_reason": "str", "_message": "opt:str"}, [URI_OK % "_reason"], ["reason", "message"])
    # forwarding chains: None, or a list (any length) of principals as the constructor requires them
    FFT = "none|ulist:@FFE"
    FF_REQ = "implies(m._forward_for is not None, forall(q, 0, len(m._forward_for), %s))" % c08.FF_OK.replace("%s", "m._forward_for[q]")
    lemma("rt_cancel", "Cancel", {"_request": "int", "_mode": "opt:str", "_forward_for": FFT},
          [ID % "_request", "m._mode is None or m._mode == 'skip' or m._mode == 'killnowait' or m._mode == 'kill'", FF_REQ],
          ["request", "mode", "forward_for"])
    lemma("rt_interrupt", "Interrupt", {"_request": "int", "_mode": "opt:str", "_reason": "opt:str", "_forward_for": FFT},
          [ID % "_request", "m._mode is None or m._mode == 'killnowait' or m._mode == 'kill'",
           "implies(m._reason is not None, %s)" % (URI_OK % "_reason"), FF_REQ],
          ["request", "mode", "reason", "forward_for"])
    lemma("rt_unsubscribe", "Unsubscribe", {"_request": "int", "_subscription": "int", "_forward_for": FFT},
          [ID % "_request", ID % "_subscription", FF_REQ], ["request", "subscription", "forward_for"])
    lemma("rt_unregister", "Unregister", {"_request": "int", "_registration": "int", "_forward_for": FFT},
          [ID % "_request", ID % "_registration", FF_REQ], ["request", "registration", "forward_for"])
    lemma("rt_subscribe", "Subscribe", {"_request": "int", "_topic": "str", "_match": "str", "_get_retained": "opt:bool",
                                         "_forward_for": FFT},
          [ID % "_request", "uri_ok(m._topic, False, False, True)",
           "m._match == 'exact' or m._match == 'prefix' or m._match == 'wildcard'", FF_REQ],
          ["request", "topic", "match", "get_retained", "forward_for"], extra_inline=["marshal_options"])
    lemma("rt_register", "Register", {"_request": "int", "_procedure": "str", "_match": "str", "_invoke": "str",
                                       "_concurrency": "opt:int", "_force_reregister": "opt:bool", "_forward_for": FFT},
          [ID % "_request", "m._match == 'exact' or m._match == 'prefix' or m._match == 'wildcard'",
           "uri_ok(m._procedure, False, m._match == 'prefix', m._match == 'wildcard')",
           "m._invoke == 'single' or m._invoke == 'first' or m._invoke == 'last' or m._invoke == 'roundrobin' or m._invoke == 'random'",
           "m._concurrency is None or m._concurrency > 0", FF_REQ],
          ["request", "procedure", "match", "invoke", "concurrency", "force_reregister", "forward_for"],
          extra_inline=["marshal_options"])
    lemma("rt_challenge", "Challenge", {"_method": "str", "_extra": "udict:"}, ["str_keys(m._extra)"], ["method", "extra"])
    lemma("rt_authenticate", "Authenticate", {"_signature": "str", "_extra": "udict:"}, ["str_keys(m._extra)"],
          ["signature", "extra"])
    # application payload: args / kwargs, or an opaque payload with its transparency attributes
    PAY = {"_args": "none|ulist:any", "_kwargs": "none|udict:", "_payload": "opt:bytes", "_enc_algo": "opt:str", "_enc_key": "opt:str",
           "_enc_serializer": "opt:str"}
    PAY_REQ = ["implies(m._kwargs is not None, str_keys(m._kwargs))",
               "implies(m._payload is not None, m._args is None and m._kwargs is None)",
               "implies(m._enc_algo is not None, enc_algo_ok(m._enc_algo))",
               "implies(m._enc_serializer is not None, enc_ser_ok(m._enc_serializer))",
               "(m._enc_algo is None and m._enc_key is None and m._enc_serializer is None) or "
               "(m._payload is not None and m._enc_algo is not None)"]
    PAY_SAME = ["payload", "enc_algo", "enc_key", "enc_serializer"]
    PAY_INL = [MSG + ":MessageWithAppPayload._init_app_payload"] + [MSG + ":MessageWithAppPayload." + x for x in
                                                                     ["args", "kwargs"] + PAY_SAME]
    SID = "implies(m.%s is not None, 0 <= m.%s <= 2**53)"
    lemma("rt_yield", "Yield", dict(PAY, _request="int", _progress="opt:bool", _callee="opt:int", _callee_authid="opt:str",
                                    _callee_authrole="opt:str", _forward_for=FFT),
          [ID % "_request", SID % ("_callee", "_callee"), FF_REQ] + PAY_REQ,
          ["request", "progress", "callee", "callee_authid", "callee_authrole", "forward_for"] + PAY_SAME,
          canon=["args", "kwargs"], more_inline=PAY_INL)
    CALLEE = dict(_callee="opt:int", _callee_authid="opt:str", _callee_authrole="opt:str", _forward_for=FFT)
    CALLEE_F = ["callee", "callee_authid", "callee_authrole", "forward_for"]
    CALLER = dict(_caller="opt:int", _caller_authid="opt:str", _caller_authrole="opt:str", _forward_for=FFT)
    CALLER_F = ["caller", "caller_authid", "caller_authrole", "forward_for"]
    lemma("rt_result", "Result", dict(PAY, _request="int", _progress="opt:bool", **CALLEE),
          [ID % "_request", SID % ("_callee", "_callee"), FF_REQ] + PAY_REQ, ["request", "progress"] + CALLEE_F + PAY_SAME,
          canon=["args", "kwargs"], more_inline=PAY_INL)
    lemma("rt_error", "Error", dict(PAY, _request_type="int", _request="int", _error="str", **CALLEE),
          [ID % "_request", " or ".join("m._request_type == %d" % t for t in (32, 34, 16, 64, 66, 48, 68)), URI_OK % "_error",
           SID % ("_callee", "_callee"), FF_REQ] + PAY_REQ, ["request_type", "request", "error"] + CALLEE_F + PAY_SAME,
          canon=["args", "kwargs"], more_inline=PAY_INL)
    lemma("rt_call", "Call", dict(PAY, _request="int", _procedure="str", _timeout="opt:int", _receive_progress="opt:bool",
                                  _transaction_hash="opt:str", **CALLER),
          [ID % "_request", URI_OK % "_procedure", "m._timeout is None or m._timeout >= 0", SID % ("_caller", "_caller"), FF_REQ]
          + PAY_REQ, ["request", "procedure", "timeout", "receive_progress", "transaction_hash"] + CALLER_F + PAY_SAME,
          canon=["args", "kwargs"], more_inline=PAY_INL, extra_inline=["marshal_options"])
    lemma("rt_invocation", "Invocation", dict(PAY, _request="int", _registration="int", _timeout="opt:int",
                                              _receive_progress="opt:bool", _transaction_hash="opt:str", _procedure="opt:str",
                                              **CALLER),
          [ID % "_request", ID % "_registration", "m._timeout is None or m._timeout >= 0", SID % ("_caller", "_caller"),
           "implies(m._procedure is not None, %s)" % (URI_OK % "_procedure"), FF_REQ] + PAY_REQ,
          ["request", "registration", "timeout", "receive_progress", "transaction_hash", "procedure"] + CALLER_F + PAY_SAME,
          canon=["args", "kwargs"], more_inline=PAY_INL)
    lemma("rt_event", "Event", dict(PAY, _subscription="int", _publication="int", _publisher="opt:int", _publisher_authid="opt:str",
                                    _publisher_authrole="opt:str", _topic="opt:str", _retained="opt:bool",
                                    _transaction_hash="opt:str", _x_acknowledged_delivery="opt:bool", _forward_for=FFT),
          [ID % "_subscription", ID % "_publication", SID % ("_publisher", "_publisher"),
           "implies(m._topic is not None, %s)" % (URI_OK % "_topic"), FF_REQ] + PAY_REQ,
          ["subscription", "publication", "publisher", "publisher_authid", "publisher_authrole", "topic", "retained",
           "transaction_hash", "x_acknowledged_delivery", "forward_for"] + PAY_SAME,
          canon=["args", "kwargs"], more_inline=PAY_INL)
    LISTS = {"exclude": "int", "eligible": "int", "exclude_authid": "str", "exclude_authrole": "str", "eligible_authid": "str",
             "eligible_authrole": "str"}
    lemma("rt_publish", "Publish", dict(PAY, _request="int", _topic="str", _acknowledge="opt:bool", _exclude_me="opt:bool",
                                        _retain="opt:bool", _transaction_hash="opt:str", _forward_for=FFT,
                                        **{"_" + k: "none|ulist:" + t for k, t in LISTS.items()}),
          [ID % "_request", URI_OK % "_topic", FF_REQ] + PAY_REQ
          + ["implies(m._%s is not None, forall(q, 0, len(m._%s), 0 <= m._%s[q] <= 2**53))" % (k, k, k) for k in ("exclude", "eligible")],
          ["request", "topic", "acknowledge", "exclude_me", "retain", "transaction_hash", "forward_for"] + list(LISTS) + PAY_SAME,
          canon=["args", "kwargs"], more_inline=PAY_INL, extra_inline=["marshal_options"])


def extra_checks(tier, seed):
    return []


# ------------------------------------------------------------------------------------------ replay on the real code
_HARNESS = r'''
import json
import txaio
txaio.use_asyncio()
from autobahn.wamp import message as M
from autobahn.wamp.serializer import JsonSerializer
case = CASE
cls = getattr(M, case["cls"])
kw = {k: v for k, v in case["fields"].items()}
out = {}
try:
    m = cls(**kw)
except AssertionError as e:
    print(json.dumps({"skip": "not a valid message object for this class: %r" % (e,)})); raise SystemExit
raw = m.marshal()
try:
    r1 = cls.parse(raw)
except Exception as e:
    print(json.dumps({"diff": {"parse": "parse(marshal(m)) raised %r" % (e,)}, "wire": repr(raw)})); raise SystemExit
diff = {}
for f in kw:
    a = getattr(m, f); b = getattr(r1, f)
    if a != b:
        diff[f] = [repr(a), repr(b)]
# informative only (the codecs are outside the verified scope): the same message through the real JSON serializer
try:
    ser = JsonSerializer()
    payload, is_binary = ser.serialize(m)
    r2 = ser.unserialize(payload, is_binary)[0]
    jdiff = {f: [repr(getattr(m, f)), repr(getattr(r2, f))] for f in kw if getattr(m, f) != getattr(r2, f)}
except Exception as e:
    jdiff = {"error": repr(e)}
print(json.dumps({"diff": diff, "wire": repr(raw), "json_round_trip_diff": jdiff}))
'''


def replay(o):
    from pyvc import replaylib as Rp
    import re
    unit = o.get("unit") or o.get("name", "")
    mt = re.search(r"roundtrip\[(\w+)\]", unit)
    if not mt:
        return {"reproduced": False, "detail": "no replay harness for this unit"}
    inp = o.get("inputs") or {}
    fields = {}
    for k, v in inp.items():
        if k.startswith("m._") and k[3:] not in ("from_fbs", "serialized", "router_internal") and not k.startswith("m._correlation"):
            if isinstance(v, (int, str, bool)) or v is None:
                fields[k[3:]] = v
            elif isinstance(v, dict) and "bytes" in v:
                fields[k[3:]] = bytes(int(b) & 255 for b in v["bytes"] if not isinstance(b, str))
            elif isinstance(v, dict) and "dict" in v:
                fields[k[3:]] = dict(v["dict"], **({v["other_key"]: 0} if isinstance(v.get("other_key"), str) else {}))
            elif isinstance(v, list):      # forward_for chain: [{"dict": {...}}, ...]
                fields[k[3:]] = [dict(e["dict"]) if isinstance(e, dict) and "dict" in e else (0 if e == "<opaque>" else e) for e in v]
    out = Rp.run_py(_HARNESS.replace("CASE", repr({"cls": mt.group(1), "fields": fields})))
    bad = isinstance(out, dict) and bool(out.get("diff"))
    return {"reproduced": bad, "case": {"cls": mt.group(1), "fields": fields}, "observed": out,
            "detail": "the counterexample message built with the real class, marshalled and parsed with the real code; fields "
                      "compared (the JSON serializer round trip is reported for information only)"}
