"""C03 — WAMP messages survive every serializer unchanged (the marshal / parse half).

For each message class under contract: any valid message object m (valid = what the class's constructor asserts, ids in
0..2^53, URIs of the WAMP grammar) satisfies parse(marshal(m)) == m field by field.  The object serializers in between
(JSON, MessagePack, CBOR, UBJSON; batching) are third-party codecs: that they reproduce the marshalled structure is an
assumption, not something decided here.
"""
import z3

from pyvc.values import *  # noqa
from . import c08

ASSUMPTIONS = list(c08.ASSUMPTIONS) + [
    "the object serializers (json / msgpack / cbor2 / ubjson and the batching framing) reproduce the list / dict / "
    "scalar structure handed to them (third-party; not decided here)",
    "flatbuffers-backed messages (from_fbs) are outside this check: _from_fbs is None",
]
LEVEL = "other"
NOT_COVERED = ["the third-party codecs themselves (assumed: unpack(pack(o)) == o)",
               "the JSON batch format (payload.split(b'\\x18')): bytes.split is outside the modelled subset",
               "Hello and Welcome (role feature objects)", "pre-serialized args / kwargs (str / bytes) of PUBLISH",
               "application payload (args / kwargs / transparent payload)", "the per-message serialization cache (Message._serialized / uncache)"]
MSG = "autobahn.wamp.message"
BASE = {"_from_fbs": "none", "_serialized": "any", "_correlation_id": "any", "_correlation_uri": "any",
        "_correlation_is_anchor": "any", "_correlation_is_last": "any", "_router_internal": "any"}
ID = "0 <= m.%s <= 2**53"


def build(reg):
    c08.build(reg)          # validators: proved there, used here through their contracts
    for u in list(reg.units):
        pass
    reg.units[:] = [u for u in reg.units if "C03" in u.props]      # the validators are C08's units
    common = dict(props=["C03"], spec_module="specs.wampuri")

    def lemma(fn, cls, fields, requires, same, extra_inline=(), canon=(), more_inline=()):
        shape = "M" + cls
        reg.shape(shape, cls=MSG + ":" + cls, fields=dict(BASE, **fields))
        inl = [MSG + ":%s.%s" % (cls, x) for x in ["marshal", "parse", "__init__"] + list(same) + list(extra_inline)] + [MSG + ":Message.__init__", MSG + ":check_or_raise_extra", MSG + ":_validate_kwargs",
                                                            MSG + ":MessageWithForwardFor.forward_for", MSG + ":MessageWithForwardFor.__init__",
                                                            MSG + ":MessageWithForwardFor._init_forward_for"] + list(more_inline)
        # canon: the wire format cannot tell an absent args / kwargs from an empty one -- those two are identified
        reg.contract("specs.c03_lemmas:" + fn, name="C03/roundtrip[%s]" % cls, params={"m": "obj:" + shape},
                     returns="any", requires=requires,
                     ensures=["isinstance(result, %s)" % cls] + ["result.%s == m.%s" % (f, f) for f in same]
                     + ["(result.%s is m.%s) or (not m.%s and not result.%s)" % (f, f, f, f) for f in canon],
                     inline_calls=inl, **common)
    lemma("rt_published", "Published", {"_request": "int", "_publication": "int"}, [ID % "_request", ID % "_publication"],
          ["request", "publication"])
    lemma("rt_subscribed", "Subscribed", {"_request": "int", "_subscription": "int"}, [ID % "_request", ID % "_subscription"],
          ["request", "subscription"])
    lemma("rt_registered", "Registered", {"_request": "int", "_registration": "int"}, [ID % "_request", ID % "_registration"],
          ["request", "registration"])

    lemma("rt_event_received", "EventReceived", {"_publication": "int"}, [ID % "_publication"], ["publication"])
    URI_OK = "uri_ok(m.%s, False, False, False)"
    lemma("rt_unsubscribed", "Unsubscribed", {"_request": "int", "_subscription": "opt:int", "_reason": "opt:str"},
          [ID % "_request", "implies(m._reason is not None, %s)" % (URI_OK % "_reason"),
           # constructor invariant: a router-initiated revocation (request 0) names the subscription, an answer does not
           "implies(m._subscription is not None, m._request == 0 and m._subscription != 0 and %s)" % (ID % "_subscription")],
          ["request", "subscription", "reason"])
    lemma("rt_unregistered", "Unregistered", {"_request": "int", "_registration": "opt:int", "_reason": "opt:str"},
          [ID % "_request", "implies(m._reason is not None, %s)" % (URI_OK % "_reason"),
           "implies(m._registration is not None, m._request == 0 and m._registration != 0 and %s)" % (ID % "_registration")],
          ["request", "registration", "reason"])

    lemma("rt_goodbye", "Goodbye", {"_reason": "str", "_message": "opt:str", "_resumable": "opt:bool"},
          [URI_OK % "_reason"], ["reason", "message", "resumable"])
    lemma("rt_abort", "Abort", {"_reason": "str", "_message": "opt:str"}, [URI_OK % "_reason"], ["reason", "message"])
    # forwarding chains: None, or a list (any length) of principals as the constructor requires them
    FFT = "none|ulist:@FFE"
    FF_REQ = "implies(m._forward_for is not None, forall(q, 0, len(m._forward_for), %s))" % c08.FF_OK.replace("%s", "m._forward_for[q]")
    lemma("rt_cancel", "Cancel", {"_request": "int", "_mode": "opt:str", "_forward_for": FFT},
          [ID % "_request", "m._mode is None or m._mode == 'skip' or m._mode == 'killnowait' or m._mode == 'kill'", FF_REQ],
          ["request", "mode", "forward_for"])
    lemma("rt_interrupt", "Interrupt", {"_request": "int", "_mode": "opt:str", "_reason": "opt:str", "_forward_for": FFT},
          [ID % "_request", "m._mode is None or m._mode == 'killnowait' or m._mode == 'kill'",
           "implies(m._reason is not None, %s)" % (URI_OK % "_reason"), FF_REQ],
          ["request", "mode", "reason", "forward_for"])
    lemma("rt_unsubscribe", "Unsubscribe", {"_request": "int", "_subscription": "int", "_forward_for": FFT},
          [ID % "_request", ID % "_subscription", FF_REQ], ["request", "subscription", "forward_for"])
    lemma("rt_unregister", "Unregister", {"_request": "int", "_registration": "int", "_forward_for": FFT},
          [ID % "_request", ID % "_registration", FF_REQ], ["request", "registration", "forward_for"])
    lemma("rt_subscribe", "Subscribe", {"_request": "int", "_topic": "str", "_match": "str", "_get_retained": "opt:bool",
                                         "_forward_for": FFT},
          [ID % "_request", "uri_ok(m._topic, False, False, True)",
           "m._match == 'exact' or m._match == 'prefix' or m._match == 'wildcard'", FF_REQ],
          ["request", "topic", "match", "get_retained", "forward_for"], extra_inline=["marshal_options"])
    lemma("rt_register", "Register", {"_request": "int", "_procedure": "str", "_match": "str", "_invoke": "str",
                                       "_concurrency": "opt:int", "_force_reregister": "opt:bool", "_forward_for": FFT},
          [ID % "_request", "m._match == 'exact' or m._match == 'prefix' or m._match == 'wildcard'",
           "uri_ok(m._procedure, False, m._match == 'prefix', m._match == 'wildcard')",
           "m._invoke == 'single' or m._invoke == 'first' or m._invoke == 'last' or m._invoke == 'roundrobin' or m._invoke == 'random'",
           "m._concurrency is None or m._concurrency > 0", FF_REQ],
          ["request", "procedure", "match", "invoke", "concurrency", "force_reregister", "forward_for"],
          extra_inline=["marshal_options"])
    lemma("rt_challenge", "Challenge", {"_method": "str", "_extra": "udict:"}, ["str_keys(m._extra)"], ["method", "extra"])
    lemma("rt_authenticate", "Authenticate", {"_signature": "str", "_extra": "udict:"}, ["str_keys(m._extra)"],
          ["signature", "extra"])
    # application payload: args / kwargs, or an opaque payload with its transparency attributes
    PAY = {"_args": "none|ulist:any", "_kwargs": "none|udict:", "_payload": "opt:bytes", "_enc_algo": "opt:str", "_enc_key": "opt:str",
           "_enc_serializer": "opt:str"}
    PAY_REQ = ["implies(m._kwargs is not None, str_keys(m._kwargs))",
               "implies(m._payload is not None, m._args is None and m._kwargs is None)",
               "implies(m._enc_algo is not None, enc_algo_ok(m._enc_algo))",
               "implies(m._enc_serializer is not None, enc_ser_ok(m._enc_serializer))",
               "(m._enc_algo is None and m._enc_key is None and m._enc_serializer is None) or "
               "(m._payload is not None and m._enc_algo is not None)"]
    PAY_SAME = ["payload", "enc_algo", "enc_key", "enc_serializer"]
    PAY_INL = [MSG + ":MessageWithAppPayload._init_app_payload"] + [MSG + ":MessageWithAppPayload." + x for x in
                                                                     ["args", "kwargs"] + PAY_SAME]
    SID = "implies(m.%s is not None, 0 <= m.%s <= 2**53)"
    lemma("rt_yield", "Yield", dict(PAY, _request="int", _progress="opt:bool", _callee="opt:int", _callee_authid="opt:str",
                                    _callee_authrole="opt:str", _forward_for=FFT),
          [ID % "_request", SID % ("_callee", "_callee"), FF_REQ] + PAY_REQ,
          ["request", "progress", "callee", "callee_authid", "callee_authrole", "forward_for"] + PAY_SAME,
          canon=["args", "kwargs"], more_inline=PAY_INL)
    CALLEE = dict(_callee="opt:int", _callee_authid="opt:str", _callee_authrole="opt:str", _forward_for=FFT)
    CALLEE_F = ["callee", "callee_authid", "callee_authrole", "forward_for"]
    CALLER = dict(_caller="opt:int", _caller_authid="opt:str", _caller_authrole="opt:str", _forward_for=FFT)
    CALLER_F = ["caller", "caller_authid", "caller_authrole", "forward_for"]
    lemma("rt_result", "Result", dict(PAY, _request="int", _progress="opt:bool", **CALLEE),
          [ID % "_request", SID % ("_callee", "_callee"), FF_REQ] + PAY_REQ, ["request", "progress"] + CALLEE_F + PAY_SAME,
          canon=["args", "kwargs"], more_inline=PAY_INL)
    lemma("rt_error", "Error", dict(PAY, _request_type="int", _request="int", _error="str", **CALLEE),
          [ID % "_request", " or ".join("m._request_type == %d" % t for t in (32, 34, 16, 64, 66, 48, 68)), URI_OK % "_error",
           SID % ("_callee", "_callee"), FF_REQ] + PAY_REQ, ["request_type", "request", "error"] + CALLEE_F + PAY_SAME,
          canon=["args", "kwargs"], more_inline=PAY_INL)
    lemma("rt_call", "Call", dict(PAY, _request="int", _procedure="str", _timeout="opt:int", _receive_progress="opt:bool",
                                  _transaction_hash="opt:str", **CALLER),
          [ID % "_request", URI_OK % "_procedure", "m._timeout is None or m._timeout >= 0", SID % ("_caller", "_caller"), FF_REQ]
          + PAY_REQ, ["request", "procedure", "timeout", "receive_progress", "transaction_hash"] + CALLER_F + PAY_SAME,
          canon=["args", "kwargs"], more_inline=PAY_INL, extra_inline=["marshal_options"])
    lemma("rt_invocation", "Invocation", dict(PAY, _request="int", _registration="int", _timeout="opt:int",
                                              _receive_progress="opt:bool", _transaction_hash="opt:str", _procedure="opt:str",
                                              **CALLER),
          [ID % "_request", ID % "_registration", "m._timeout is None or m._timeout >= 0", SID % ("_caller", "_caller"),
           "implies(m._procedure is not None, %s)" % (URI_OK % "_procedure"), FF_REQ] + PAY_REQ,
          ["request", "registration", "timeout", "receive_progress", "transaction_hash", "procedure"] + CALLER_F + PAY_SAME,
          canon=["args", "kwargs"], more_inline=PAY_INL)
    lemma("rt_event", "Event", dict(PAY, _subscription="int", _publication="int", _publisher="opt:int", _publisher_authid="opt:str",
                                    _publisher_authrole="opt:str", _topic="opt:str", _retained="opt:bool",
                                    _transaction_hash="opt:str", _x_acknowledged_delivery="opt:bool", _forward_for=FFT),
          [ID % "_subscription", ID % "_publication", SID % ("_publisher", "_publisher"),
           "implies(m._topic is not None, %s)" % (URI_OK % "_topic"), FF_REQ] + PAY_REQ,
          ["subscription", "publication", "publisher", "publisher_authid", "publisher_authrole", "topic", "retained",
           "transaction_hash", "x_acknowledged_delivery", "forward_for"] + PAY_SAME,
          canon=["args", "kwargs"], more_inline=PAY_INL)
    LISTS = {"exclude": "int", "eligible": "int", "exclude_authid": "str", "exclude_authrole": "str", "eligible_authid": "str",
             "eligible_authrole": "str"}
    lemma("rt_publish", "Publish", dict(PAY, _request="int", _topic="str", _acknowledge="opt:bool", _exclude_me="opt:bool",
                                        _retain="opt:bool", _transaction_hash="opt:str", _forward_for=FFT,
                                        **{"_" + k: "none|ulist:" + t for k, t in LISTS.items()}),
          [ID % "_request", URI_OK % "_topic", FF_REQ] + PAY_REQ
          + ["implies(m._%s is not None, forall(q, 0, len(m._%s), 0 <= m._%s[q] <= 2**53))" % (k, k, k) for k in ("exclude", "eligible")],
          ["request", "topic", "acknowledge", "exclude_me", "retain", "transaction_hash", "forward_for"] + list(LISTS) + PAY_SAME,
          canon=["args", "kwargs"], more_inline=PAY_INL, extra_inline=["marshal_options"])
    framing_units(reg, common)


def framing_units(reg, common):
    """batched mode of the three binary object serializers (4-octet big-endian length prefix per message).  The
    third-party codec is a pair of uninterpreted functions pack: Obj -> bytes, unpack: bytes -> Obj with the assumed
    law unpack(pack(o)) == o (and unpack may raise on anything that is not a pack() image).
    A batch is described by ghost functions: n objects obj(k), k < n, laid out at offsets off(k):
        off(0) == 0, off(k+1) == off(k) + 4 + len(pack(obj(k))), payload[off(k):off(k)+4] == be32(len(pack(obj(k)))),
        payload[off(k)+4 : off(k+1)] == pack(obj(k)), off(n) == len(payload)
    -- the first-order description of `concat(serialize(obj(k)) for k < n)`; serialize() is proved to produce exactly one
    such record.  unserialize() then returns [obj(0), .., obj(n-1)], in order, for every n."""
    SERM = "autobahn.wamp.serializer"
    Obj = z3.IntSort()
    BS = z3.SeqSort(z3.IntSort())
    pack = z3.Function("c03_pack", Obj, BS)
    unpack = z3.Function("c03_unpack", BS, Obj)
    off = z3.Function("c03_off", z3.IntSort(), z3.IntSort())
    objf = z3.Function("c03_obj", z3.IntSort(), Obj)
    nobj = z3.Int("c03_n")
    reg.native_spec("pack", lambda ex, state, o: VBytes(pack(ex.num(o))))
    reg.native_spec("unpack", lambda ex, state, b: VInt(unpack(b.t)))
    reg.native_spec("off", lambda ex, state, k: VInt(off(ex.num(k))))
    reg.native_spec("obj", lambda ex, state, k: VInt(objf(ex.num(k))))
    reg.native_spec("nobj", lambda ex, state: VInt(nobj))

    def ext_dumps(ex, state, args, kwargs, sv):
        r = pack(ex.num(args[0]))
        for e in ():
            pass
        return VBytes(r)

    def ext_loads(ex, state, args, kwargs, sv):
        b = args[0].t
        o = z3.Int(fresh_name("some_obj"))
        # unpack may raise on anything but the image of pack
        ex.raise_if(state, z3.Not(z3.Exists([o], pack(o) == b)) if False else z3.And(z3.Bool(fresh_name("codec_raises")),
                                                                                 pack(unpack(b)) != b), "Exception")
        return VInt(unpack(b))
    # the third-party codec entry points are the assumed primitives; the module-level helpers of serializer.py that wrap
    # them (_packb / _unpackb: the branch taken on CPython -- `msgpack` with its native extension -- is the one verified;
    # _cbor_dumps / _cbor_loads) are read from the current source like any other repository code
    for nm in ("ubjson.dumpb", "umsgpack.packb", "msgpack.packb", "cbor2.dumps", "bjdata.dumpb"):
        reg.external(nm, ext_dumps)
    for nm in ("ubjson.loadb", "umsgpack.unpackb", "msgpack.unpackb", "cbor2.loads", "bjdata.loadb"):
        reg.external(nm, ext_loads)
    reg.name_prefer = dict(getattr(reg, "name_prefer", {}))
    for nm in ("_packb", "_unpackb", "_msgpack", "_HAS_MSGPACK"):
        reg.name_prefer[("autobahn.wamp.serializer", nm)] = "if/"
    reg.shape("ObjSer", fields={"_batched": "bool"})
    LAYOUT = ["nobj() >= 0", "off(0) == 0", "off(nobj()) == len(payload)",
              "forall(k, 0, nobj(), off(k + 1) == off(k) + 4 + len(pack(obj(k))) and len(pack(obj(k))) < 2 ** 32 and "
              "be32val(payload, off(k)) == len(pack(obj(k))) and octets(payload, off(k) + 4, len(pack(obj(k)))) == pack(obj(k)))",
              # every record starts inside the payload (a consequence of the recurrence by induction on k; stated, so that
              # no induction is asked of the solver)
              "forall(k, 0, nobj(), 0 <= off(k) and off(k) < len(payload) and off(k + 1) <= len(payload))",
              # the assumed codec law, for the objects of this batch
              "forall(k, 0, nobj(), unpack(pack(obj(k))) == obj(k))"]
    from pyvc import models
    reg.native_spec("be32", lambda ex, state, v: VBytes(models.be_bytes(ex.num(v), 4)))
    # S[a : a + n] for a slice known to lie inside S (no clamping of the bounds)
    reg.native_spec("octets", lambda ex, state, S, a, n: VBytes(z3.Extract(S.t, ex.num(a), ex.num(n))))
    # the number in the four octets at position p, written as struct.unpack("!L", ..) reads it
    reg.native_spec("be32val", lambda ex, state, S, p_: VInt(z3.Sum([S.t[ex.num(p_) + j] * (256 ** (3 - j)) for j in range(4)])))
    for cls in ("MsgPackObjectSerializer", "CBORObjectSerializer", "UBJSONObjectSerializer"):
        reg.contract(SERM + ":%s.serialize" % cls, params={"self": "obj:ObjSer", "obj": "int"}, returns="bytes",
                     requires=["len(pack(obj)) < 2 ** 32"],
                     ensures=["implies(self._batched, result == be32(len(pack(obj))) + pack(obj))",
                              "implies(not self._batched, result == pack(obj))"], **common)
        reg.contract(SERM + ":%s.unserialize" % cls, name="C03/batch[%s]" % cls,
                     params={"self": "obj:ObjSer", "payload": "bytes"}, returns="list:int",
                     requires=["self._batched"] + LAYOUT,
                     ensures=["len(result) == nobj() and forall(k, 0, nobj(), result[k] == obj(k))"],
                     loops={"while:i < N": {"invariant": ["0 <= len(msgs) <= nobj()", "i == off(len(msgs))", "N == len(payload)", "0 <= i <= N",
                                                          "forall(k, 0, len(msgs), msgs[k] == obj(k))"],
                                            "vars": {"msgs": "list:int", "i": "int", "l": "int", "data": "bytes"},
                                            "modifies": ["msgs"], "pure_calls": True}},
                     **common)


def extra_checks(tier, seed):
    """what links serialize() to the batch layout assumed by unserialize(): the record serialize() returns,
    be32(n) ++ d with n = len(d) < 2^32, reads back n from its first four octets and d from the next n"""
    from pyvc.spec_tools import solve
    from pyvc import models
    v = z3.Int("c03_v")
    d = z3.Const("c03_d", z3.SeqSort(z3.IntSort()))
    rest = z3.Const("c03_rest", z3.SeqSort(z3.IntSort()))
    rec = z3.Concat(models.be_bytes(v, 4), d, rest)
    chain = z3.And(*[(v / (256 ** i)) == (v / (256 ** (i - 1))) / 256 for i in range(1, 4)])
    return [solve("C03/lemma/record-prefix-reads-back-the-length", [v >= 0, v < 2 ** 32, chain],
                  z3.Sum([rec[j] * (256 ** (3 - j)) for j in range(4)]) == v, 30000),
            solve("C03/lemma/div-chain", [v >= 0], chain, 30000),
            solve("C03/lemma/record-body-follows-the-prefix", [v == z3.Length(d), v >= 0, v < 2 ** 32],
                  z3.Extract(rec, 4, v) == d, 30000)] + ([__import__("pyvc.replaylib", fromlist=["x"]).native_crosscheck(
                      "C03/bounded/batches-through-the-real-codecs", _BATCH_HARNESS,
                      "batches of 0..4 out of 7 sample objects through the real msgpack / cbor2 / ubjson object serializers "
                      "(evidence for the assumed codec law, bounded)"), _roundtrip_crosscheck(tier, seed)] if tier == "thorough" else [])


def _roundtrip_crosscheck(tier, seed):
    """the round-trip contracts against the real code: messages produced by the real parse() from random structures (the C08
    generator) that satisfy a unit's preconditions are marshalled and parsed again, the unit's postconditions evaluated
    natively.  The proofs say this cannot fail; bounded, thorough tier only"""
    import re
    from pyvc import replaylib as Rp
    from pyvc.contracts import Registry
    reg = Registry()
    build(reg)
    rt = {}
    for c in reg.units:
        mt = re.search(r"roundtrip\[(\w+)\]", c.name)
        if not mt:
            continue
        try:
            rt[mt.group(1)] = {"requires": [Rp.native_clause(r) for r in c.requires],
                               "ensures": [Rp.native_clause(e) for e in c.ensures]}
        except Exception:
            pass
    return c08._fuzz_crosscheck(tier, seed, roundtrip=rt, name="C03/bounded/roundtrip-units-vs-real-code")


# ------------------------------------------------------------------------------------------ replay on the real code
_HARNESS = r'''
import json
import txaio
txaio.use_asyncio()
from autobahn.wamp import message as M
from autobahn.wamp.serializer import JsonSerializer
case = CASE
cls = getattr(M, case["cls"])
kw = {k: v for k, v in case["fields"].items()}
out = {}
try:
    m = cls(**kw)
except AssertionError as e:
    print(json.dumps({"skip": "not a valid message object for this class: %r" % (e,)})); raise SystemExit
# the candidate must be a *valid* message: the unit's preconditions, evaluated natively on the real object
import re as _re
WS = [c for c in map(chr, range(0x30000)) if c.isspace()]
def _comp_ok(c, strict):
    return bool(c) and (all(ch in "0123456789abcdefghijklmnopqrstuvwxyz_" for ch in c) if strict else
                        all(ch not in WS and ch not in ".#" for ch in c))
def uri_ok(s, strict, ale, ae):
    parts = s.split(".")
    if ale:
        return all(_comp_ok(c, strict) for c in parts[:-1]) and (parts[-1] == "" or _comp_ok(parts[-1], strict))
    if ae:
        return all(c == "" or _comp_ok(c, strict) for c in parts)
    return all(_comp_ok(c, strict) for c in parts)
def str_keys(d):
    return all(type(k) is str for k in d)
def enc_algo_ok(x):
    return x in ("cryptobox", "mqtt", "xbr") or bool(_re.fullmatch(r"x_([a-z][0-9a-z_]+)?", x))
def enc_ser_ok(x):
    return x in ("json", "msgpack", "cbor", "ubjson", "flatbuffers") or bool(_re.fullmatch(r"x_([a-z][0-9a-z_]+)?", x))
for req in case.get("requires", []):
    try:
        ok = bool(eval(req))
    except Exception as e:
        ok = False
    if not ok:
        print(json.dumps({"skip": "candidate does not satisfy the unit's precondition: %s" % req[:120]})); raise SystemExit
raw = m.marshal()
try:
    r1 = cls.parse(raw)
except Exception as e:
    print(json.dumps({"diff": {"parse": "parse(marshal(m)) raised %r" % (e,)}, "wire": repr(raw)})); raise SystemExit
diff = {}
for f in kw:
    a = getattr(m, f); b = getattr(r1, f)
    if a != b:
        diff[f] = [repr(a), repr(b)]
# informative only (the codecs are outside the verified scope): the same message through the real JSON serializer
try:
    ser = JsonSerializer()
    payload, is_binary = ser.serialize(m)
    r2 = ser.unserialize(payload, is_binary)[0]
    jdiff = {f: [repr(getattr(m, f)), repr(getattr(r2, f))] for f in kw if getattr(m, f) != getattr(r2, f)}
except Exception as e:
    jdiff = {"error": repr(e)}
print(json.dumps({"diff": diff, "wire": repr(raw), "json_round_trip_diff": jdiff}))
'''


_BATCH_HARNESS = r'''
import json
import txaio; txaio.use_asyncio()
from autobahn.wamp import serializer as S
bad = []
OBJS = [[1, 2, "three"], {"a": [1, {"b": None}]}, [], "x" * 300, [48, 1, {}, "com.x", [1.5, True], {"k": b"bytes"}], 2 ** 53, [70000 * "y"]]
for name in ("MsgPackObjectSerializer", "CBORObjectSerializer", "UBJSONObjectSerializer"):
    cls = getattr(S, name, None)
    if cls is None:
        continue
    for n in range(0, 5):
        for start in range(len(OBJS)):
            objs = [OBJS[(start + j) % len(OBJS)] for j in range(n)]
            ser = cls(batched=True)
            try:
                payload = b"".join(ser.serialize(o) for o in objs)
                out = ser.unserialize(payload) if n else []
            except Exception as e:
                bad.append({"cls": name, "n": n, "problem": "raised %r" % (e,)}); break
            if out != objs:
                bad.append({"cls": name, "n": n, "problem": "batch of %d came back as %d objects / different objects" % (n, len(out))}); break
    ser = cls(batched=False)
    for o in OBJS:
        if ser.unserialize(ser.serialize(o)) != [o]:
            bad.append({"cls": name, "n": 1, "problem": "unbatched round trip differs"}); break
    # a damaged frame (truncated, or with trailing octets) must not influence what later frames decode to -- on the same
    # serializer, on another one, batched or not (a decoder carrying state across calls would)
    for damage in ("truncated", "trailing"):
        for batched in (False, True):
            ser = cls(batched=batched)
            good = ser.serialize(OBJS[0])
            broken = good[:-2] if damage == "truncated" else good + b"\x01\x02"
            if batched and damage == "trailing":
                broken = good + b"\x00\x00\x00\x05ab"      # a length prefix announcing more octets than follow
            try:
                ser.unserialize(broken)
            except Exception:
                pass
            for ser2 in (ser, cls(batched=batched), cls(batched=not batched)):
                for o in OBJS[:4]:
                    try:
                        got = ser2.unserialize(ser2.serialize(o))
                    except Exception as e:
                        got = "raised %r" % (e,)
                    if got != [o]:
                        bad.append({"cls": name, "n": 1, "problem": "after a %s frame a valid frame decodes to %r instead of %r" % (damage, str(got)[:80], str([o])[:80])}); break
print(json.dumps({"bad": bad[:8]}))
'''


def replay(o):
    from pyvc import replaylib as Rp
    import re
    unit = o.get("unit") or o.get("name", "")
    if "ObjectSerializer" in unit:
        out = Rp.run_py(_BATCH_HARNESS, timeout=120)
        cls = re.search(r"(\w+ObjectSerializer)", unit).group(1)
        hits = [b for b in (out.get("bad") or []) if b.get("cls") == cls] if isinstance(out, dict) else None
        return {"reproduced": bool(hits), "cases": (hits or [])[:3], "observed": None if hits else out,
                "detail": "batches of 0..4 real objects through the real object serializer (serialize each, concatenate, "
                          "unserialize, compare); finds real failing inputs only, proves nothing"}
    mt = re.search(r"roundtrip\[(\w+)\]", unit)
    if not mt:
        return {"reproduced": False, "detail": "no replay harness for this unit"}
    inp = o.get("inputs") or {}
    fields = {}
    for k, v in inp.items():
        if k.startswith("m._") and k[3:] not in ("from_fbs", "serialized", "router_internal") and not k.startswith("m._correlation"):
            if isinstance(v, (int, str, bool)) or v is None:
                fields[k[3:]] = v
            elif isinstance(v, dict) and "bytes" in v:
                fields[k[3:]] = bytes(int(b) & 255 for b in v["bytes"] if not isinstance(b, str))
            elif isinstance(v, dict) and "dict" in v:
                fields[k[3:]] = dict(v["dict"], **({v["other_key"]: 0} if isinstance(v.get("other_key"), str) else {}))
            elif isinstance(v, list):      # forward_for chain: [{"dict": {...}}, ...]
                fields[k[3:]] = [dict(e["dict"]) if isinstance(e, dict) and "dict" in e else (0 if e == "<opaque>" else e) for e in v]
    if not fields:
        return {"reproduced": False, "detail": "no counterexample values to replay"}
    from pyvc.contracts import Registry
    reg = Registry()
    build(reg)
    reqs = []
    for c in reg.units:
        if c.name == unit:
            for r in c.requires:
                try:
                    reqs.append(Rp.native_clause(r))
                except Exception:
                    pass
    out = Rp.run_py(_HARNESS.replace("CASE", repr({"cls": mt.group(1), "fields": fields, "requires": reqs})))
    bad = isinstance(out, dict) and bool(out.get("diff"))
    return {"reproduced": bad, "case": {"cls": mt.group(1), "fields": fields}, "observed": out,
            "detail": "the counterexample message built with the real class, marshalled and parsed with the real code; fields "
                      "compared (the JSON serializer round trip is reported for information only)"}
