"""C03 — WAMP messages survive every serializer unchanged (the marshal / parse half).

For each message class under contract: any valid message object m (valid = what the class's constructor asserts, ids in
0..2^53, URIs of the WAMP grammar) satisfies parse(marshal(m)) == m field by field.  The object serializers in between
(JSON, MessagePack, CBOR, UBJSON; batching) are third-party codecs: that they reproduce the marshalled structure is an
assumption, not something decided here.
"""
import z3

from pyvc.values import *  # noqa
from . import c08

ASSUMPTIONS = list(c08.ASSUMPTIONS) + [
    "the object serializers (json / msgpack / cbor2 / ubjson and the batching framing) reproduce the list / dict / "
    "scalar structure handed to them (third-party; not decided here)",
    "flatbuffers-backed messages (from_fbs) are outside this check: _from_fbs is None",
]
LEVEL = "other"
NOT_COVERED = ["the third-party codecs and the batching framing of serializer.py",
               "message classes not listed among the functions under contract (the large option-carrying classes: Hello, "
               "Welcome, Challenge, Authenticate, Error, Publish, Event, Call, Result, Register, Invocation, Yield)",
               "application payload (args / kwargs / transparent payload)", "the per-message serialization cache (Message._serialized / uncache)"]
MSG = "autobahn.wamp.message"
BASE = {"_from_fbs": "none", "_serialized": "any", "_correlation_id": "any", "_correlation_uri": "any",
        "_correlation_is_anchor": "any", "_correlation_is_last": "any", "_router_internal": "any"}
ID = "0 <= m.%s <= 2**53"


def build(reg):
    c08.build(reg)          # validators: proved there, used here through their contracts
    for u in list(reg.units):
        pass
    reg.units[:] = [u for u in reg.units if "C03" in u.props]      # the validators are C08's units
    common = dict(props=["C03"], spec_module="specs.wampuri")

    def lemma(fn, cls, fields, requires, same, extra_inline=()):
        shape = "M" + cls
        reg.shape(shape, cls=MSG + ":" + cls, fields=dict(BASE, **fields))
        inl = [MSG + ":%s.%s" % (cls, x) for x in ["marshal", "parse", "__init__"] + list(same) + list(extra_inline)] + [MSG + ":Message.__init__", MSG + ":check_or_raise_extra", MSG + ":_validate_kwargs",
                                                            MSG + ":MessageWithForwardFor.forward_for", MSG + ":MessageWithForwardFor.__init__",
                                                            MSG + ":MessageWithForwardFor._init_forward_for"]
        reg.contract("specs.c03_lemmas:" + fn, name="C03/roundtrip[%s]" % cls, params={"m": "obj:" + shape},
                     returns="any", requires=requires,
                     ensures=["isinstance(result, %s)" % cls] + ["result.%s == m.%s" % (f, f) for f in same],
                     inline_calls=inl, **common)
    lemma("rt_published", "Published", {"_request": "int", "_publication": "int"}, [ID % "_request", ID % "_publication"],
          ["request", "publication"])
    lemma("rt_subscribed", "Subscribed", {"_request": "int", "_subscription": "int"}, [ID % "_request", ID % "_subscription"],
          ["request", "subscription"])
    lemma("rt_registered", "Registered", {"_request": "int", "_registration": "int"}, [ID % "_request", ID % "_registration"],
          ["request", "registration"])

    lemma("rt_event_received", "EventReceived", {"_publication": "int"}, [ID % "_publication"], ["publication"])
    URI_OK = "uri_ok(m.%s, False, False, False)"
    lemma("rt_unsubscribed", "Unsubscribed", {"_request": "int", "_subscription": "opt:int", "_reason": "opt:str"},
          [ID % "_request", "implies(m._reason is not None, %s)" % (URI_OK % "_reason"),
           # constructor invariant: a router-initiated revocation (request 0) names the subscription, an answer does not
           "implies(m._subscription is not None, m._request == 0 and m._subscription != 0 and %s)" % (ID % "_subscription")],
          ["request", "subscription", "reason"])
    lemma("rt_unregistered", "Unregistered", {"_request": "int", "_registration": "opt:int", "_reason": "opt:str"},
          [ID % "_request", "implies(m._reason is not None, %s)" % (URI_OK % "_reason"),
           "implies(m._registration is not None, m._request == 0 and m._registration != 0 and %s)" % (ID % "_registration")],
          ["request", "registration", "reason"])

    lemma("rt_goodbye", "Goodbye", {"_reason": "str", "_message": "opt:str", "_resumable": "opt:bool"},
          [URI_OK % "_reason"], ["reason", "message", "resumable"])
    lemma("rt_abort", "Abort", {"_reason": "str", "_message": "opt:str"}, [URI_OK % "_reason"], ["reason", "message"])
    # forwarding chains: None, or a list (any length) of principals as the constructor requires them
    FFT = "none|ulist:@FFE"
    FF_REQ = "implies(m._forward_for is not None, forall(q, 0, len(m._forward_for), %s))" % c08.FF_OK.replace("%s", "m._forward_for[q]")
    lemma("rt_cancel", "Cancel", {"_request": "int", "_mode": "opt:str", "_forward_for": FFT},
          [ID % "_request", "m._mode is None or m._mode == 'skip' or m._mode == 'killnowait' or m._mode == 'kill'", FF_REQ],
          ["request", "mode", "forward_for"])
    lemma("rt_interrupt", "Interrupt", {"_request": "int", "_mode": "opt:str", "_reason": "opt:str", "_forward_for": FFT},
          [ID % "_request", "m._mode is None or m._mode == 'killnowait' or m._mode == 'kill'",
           "implies(m._reason is not None, %s)" % (URI_OK % "_reason"), FF_REQ],
          ["request", "mode", "reason", "forward_for"])
    lemma("rt_unsubscribe", "Unsubscribe", {"_request": "int", "_subscription": "int", "_forward_for": FFT},
          [ID % "_request", ID % "_subscription", FF_REQ], ["request", "subscription", "forward_for"])
    lemma("rt_unregister", "Unregister", {"_request": "int", "_registration": "int", "_forward_for": FFT},
          [ID % "_request", ID % "_registration", FF_REQ], ["request", "registration", "forward_for"])
    lemma("rt_subscribe", "Subscribe", {"_request": "int", "_topic": "str", "_match": "str", "_get_retained": "opt:bool",
                                         "_forward_for": FFT},
          [ID % "_request", "uri_ok(m._topic, False, False, True)",
           "m._match == 'exact' or m._match == 'prefix' or m._match == 'wildcard'", FF_REQ],
          ["request", "topic", "match", "get_retained", "forward_for"], extra_inline=["marshal_options"])


def extra_checks(tier, seed):
    return []


# ------------------------------------------------------------------------------------------ replay on the real code
_HARNESS = r'''
import json
import txaio
txaio.use_asyncio()
from autobahn.wamp import message as M
from autobahn.wamp.serializer import JsonSerializer
case = CASE
cls = getattr(M, case["cls"])
kw = {k: v for k, v in case["fields"].items()}
out = {}
try:
    m = cls(**kw)
except AssertionError as e:
    print(json.dumps({"skip": "not a valid message object for this class: %r" % (e,)})); raise SystemExit
raw = m.marshal()
try:
    r1 = cls.parse(raw)
except Exception as e:
    print(json.dumps({"diff": {"parse": "parse(marshal(m)) raised %r" % (e,)}, "wire": repr(raw)})); raise SystemExit
diff = {}
for f in kw:
    a = getattr(m, f); b = getattr(r1, f)
    if a != b:
        diff[f] = [repr(a), repr(b)]
# informative only (the codecs are outside the verified scope): the same message through the real JSON serializer
try:
    ser = JsonSerializer()
    payload, is_binary = ser.serialize(m)
    r2 = ser.unserialize(payload, is_binary)[0]
    jdiff = {f: [repr(getattr(m, f)), repr(getattr(r2, f))] for f in kw if getattr(m, f) != getattr(r2, f)}
except Exception as e:
    jdiff = {"error": repr(e)}
print(json.dumps({"diff": diff, "wire": repr(raw), "json_round_trip_diff": jdiff}))
'''


def replay(o):
    from pyvc import replaylib as Rp
    import re
    unit = o.get("unit") or o.get("name", "")
    mt = re.search(r"roundtrip\[(\w+)\]", unit)
    if not mt:
        return {"reproduced": False, "detail": "no replay harness for this unit"}
    inp = o.get("inputs") or {}
    fields = {}
    for k, v in inp.items():
        if k.startswith("m._") and k[3:] not in ("from_fbs", "serialized", "router_internal") and not k.startswith("m._correlation"):
            if isinstance(v, (int, str, bool)) or v is None:
                fields[k[3:]] = v
            elif isinstance(v, list):      # forward_for chain: [{"dict": {...}}, ...]
                fields[k[3:]] = [dict(e["dict"]) if isinstance(e, dict) and "dict" in e else e for e in v]
    out = Rp.run_py(_HARNESS.replace("CASE", repr({"cls": mt.group(1), "fields": fields})))
    bad = isinstance(out, dict) and bool(out.get("diff"))
    return {"reproduced": bad, "case": {"cls": mt.group(1), "fields": fields}, "observed": out,
            "detail": "the counterexample message built with the real class, marshalled and parsed with the real code; fields "
                      "compared (the JSON serializer round trip is reported for information only)"}
