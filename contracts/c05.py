"""C05 — see DESIGN.md section 5; units and contracts live in ws_units.py (shared WebSocketProtocol family)."""
from . import ws_units, ws_common


def replay(o):
    unit = o.get("unit") or o.get("name", "")
    if any(k in unit for k in ("beginMessage", "sendMessageFrame", "endMessage")):
        from . import ws_pair_harness
        return ws_pair_harness.run("streaming")
    return {"reproduced": False, "detail": "no replay harness for this unit"}

ASSUMPTIONS = list(ws_common.ASSUMPTIONS)


def build(reg):
    ws_units.build(reg)
    from . import ws_streaming
    ws_streaming.build(reg, standalone=True)


def extra_checks(tier, seed):
    """lemmas about spec functions used as hints in this property's VCs"""
    from pyvc.spec_tools import solve
    out = []
    for name, (hyps, goal) in ws_common.ws_lemma_obligations():
        out.append(solve("%s/lemma/" % __name__.split(".")[-1].upper() + name, hyps, goal, 20000))
    if tier == "thorough":
        from pyvc import replaylib as R
        from . import ws_pair_harness as H
        out.append(R.native_crosscheck("C05/bounded/streaming-send-around-every-close", H.HARNESS % {"mode": "streaming"},
                                       "both roles x 5 ways of leaving OPEN x every point of a streamed message x failByDrop; "
                                       "frame lengths at the 7 / 16 / 64-bit boundaries, real client / server pair"))
    return out
