"""C05 — see DESIGN.md section 5; units and contracts live in ws_units.py (shared WebSocketProtocol family)."""
from . import ws_units, ws_common

ASSUMPTIONS = list(ws_common.ASSUMPTIONS)


def build(reg):
    ws_units.build(reg)


def extra_checks(tier, seed):
    """lemmas about spec functions used as hints in this property's VCs"""
    from pyvc.spec_tools import solve
    out = []
    for name, (hyps, goal) in ws_common.ws_lemma_obligations():
        out.append(solve("%s/lemma/" % __name__.split(".")[-1].upper() + name, hyps, goal, 20000))
    return out
