"""C05 — see DESIGN.md section 5; units and contracts live in ws_units.py (shared WebSocketProtocol family)."""
from . import ws_units, ws_common

ASSUMPTIONS = list(ws_common.ASSUMPTIONS)


def build(reg):
    ws_units.build(reg)
