"""C06 — WAMP sessions end cleanly on every path and leave nothing pending."""
import z3

from pyvc.values import *  # noqa
from . import wamp_common as W
from .wamp_common import SESS, PR

ASSUMPTIONS = list(W.ASSUMPTIONS) + [
    "txaio.as_future(self.onLeave / self.onDisconnect, ...) invokes the (user-overridable) callback once; the default "
    "implementations are verified as their own units; the *order* of callbacks across add_callbacks chains is txaio's "
    "(assumed)",
    "the transport calls session.onClose at most once per connection (proved for the RawSocket/WebSocket adapters under "
    "C13 where claimed)",
]
MSG = "autobahn.wamp.message"
ALL = ["Hello", "Welcome", "Abort", "Challenge", "Authenticate", "Goodbye", "Error", "Publish", "Published", "Subscribe",
       "Subscribed", "Unsubscribe", "Unsubscribed", "Event", "EventReceived", "Call", "Cancel", "Result", "Register",
       "Registered", "Unregister", "Unregistered", "Invocation", "Interrupt", "Yield"]
PRE_OK = ["Welcome", "Abort", "Challenge"]                      # legal before the session is established
# legal once established (handled by an arm of onMessage); everything else must be rejected
POST_OK = ["Goodbye", "Event", "Published", "Subscribed", "Unsubscribed", "Result", "Invocation", "Interrupt", "Registered",
           "Unregistered", "Error"]


def ext_as_future(ex, state, args, kwargs, sv):
    """as_future(callback, ...): the callback is invoked once, now; session callbacks are counted by name"""
    fn = args[0]
    g = state.heap[state.ghost.oid]
    name = getattr(fn, "name", "")
    fld = {"onLeave": "n_onleave", "onDisconnect": "n_ondisconnect", "onJoin": "n_onjoin"}.get(name)
    if fld:
        g.fields[fld] = VInt(simp(g.fields[fld].t + 1))
    return VOpaque(fresh_name("future_" + name))


def build(reg):
    W.build_shapes(reg)
    common = dict(props=["C06"], spec_module="specs.wamp")
    reg.shapes["Ghost"].fields.update({"n_onleave": "nat", "n_ondisconnect": "nat", "n_onjoin": "nat", "n_close": "nat"})
    reg.external("txaio.as_future", ext_as_future)
    reg.external("txaio.add_callbacks", lambda ex, state, args, kwargs, sv: VNone)
    reg.external("session.fire", lambda ex, state, args, kwargs, sv: VOpaque(fresh_name("fire")))
    reg.external("transport.close", _ext_close)
    reg.shapes["Transport"].methods.update({"close": "transport.close"})
    reg.shapes["Transport"].fields.update({"is_closed": "any"})
    reg.shapes["Session"].methods.update({"fire": "session.fire"})
    from pyvc import models
    W.install_message_models(reg)
    models.CLASS_MODELS["CloseDetails"] = lambda ex, state, args, kwargs: VOpaque(fresh_name("CloseDetails"))
    for m in ALL:
        if m not in reg.shapes:
            reg.shape(m, cls=MSG + ":" + m, fields={"reason": "any", "message": "any"} if m == "Goodbye" else {})
    UNCH = ("self._session_id is old(self._session_id) and ghost.n_sent == old(ghost.n_sent) and "
            "ghost.n_onleave == old(ghost.n_onleave) and ghost.n_completions == old(ghost.n_completions)")
    # ---- phase gate: before the session is established only WELCOME / ABORT / CHALLENGE are legal ...
    for m in ALL:
        if m in PRE_OK:
            continue
        reg.contract(SESS + ".onMessage", name=SESS + ".onMessage<pre-session:%s>" % m,
                     params={"self": "obj:Session", "msg": "obj:" + m}, requires=["self._session_id is None"],
                     ensures=["False"],                              # never accepted
                     raises={"ProtocolError": "True"}, raises_ensures={"ProtocolError": [UNCH]}, raises_only=True,
                     **common)
    # ---- ... afterwards handshake messages (and every client-to-router message type) are protocol violations
    for m in ALL:
        if m in POST_OK:
            continue
        reg.contract(SESS + ".onMessage", name=SESS + ".onMessage<established:%s>" % m,
                     params={"self": "obj:Session", "msg": "obj:" + m}, requires=["self._session_id is not None"],
                     ensures=["False"], raises={"ProtocolError": "True"}, raises_ensures={"ProtocolError": [UNCH]},
                     raises_only=True, **common)
    # ---- GOODBYE from the router: answered exactly when this side did not initiate closing; the session ends, leave fires
    reg.contract(
        SESS + ".onMessage", name=SESS + ".onMessage<Goodbye>", params={"self": "obj:Session", "msg": "obj:Goodbye"},
        requires=["self._session_id is not None", "self._transport is not None"],
        modifies=["self._session_id", "ghost.n_sent", "ghost.last_sent", "ghost.n_onleave"],
        ensures=["self._session_id is None", "ghost.n_onleave == old(ghost.n_onleave) + 1",
                 "ghost.n_sent == old(ghost.n_sent) + (0 if self._goodbye_sent else 1)",
                 "implies(not self._goodbye_sent, isinstance(ghost.last_sent, Goodbye))"],
        raises={"SerializationError": "not self._goodbye_sent", "PayloadExceededError": "not self._goodbye_sent",
                "TransportLost": "not self._goodbye_sent"}, **common)
    # ---- leave(): GOODBYE at most once per session
    reg.contract(
        SESS + ".leave", params={"self": "obj:Session", "reason": "opt:str", "message": "opt:str"}, returns="any",
        requires=["implies(self._session_id is not None and self._session_id != 0, self._transport is not None)"],
        modifies=["self._goodbye_sent", "ghost.n_sent", "ghost.last_sent"],
        ensures=["implies(old(self._session_id) is None or old(self._session_id) == 0, ghost.n_sent == old(ghost.n_sent) and "
                 "self._goodbye_sent == old(self._goodbye_sent))",
                 "implies(old(self._session_id) is not None and old(self._session_id) != 0, self._goodbye_sent and "
                 "ghost.n_sent == old(ghost.n_sent) + (0 if old(self._goodbye_sent) else 1))",
                 "implies(ghost.n_sent == old(ghost.n_sent) + 1, isinstance(ghost.last_sent, Goodbye))"],
        raises={"SerializationError": "True", "PayloadExceededError": "True", "TransportLost": "True"},
        raises_ensures={"*": ["self._goodbye_sent == old(self._goodbye_sent)"]}, **common)
    # ---- transport gone: leave exactly when a joined session ends, then disconnect; session id cleared
    reg.contract(
        SESS + ".onClose", params={"self": "obj:Session", "wasClean": "bool"},
        modifies=["self._transport", "self._session_id", "ghost.n_onleave", "ghost.n_ondisconnect"],
        ensures=["self._transport is None and (self._session_id is None or self._session_id == 0)",
                 "ghost.n_onleave == old(ghost.n_onleave) + "
                 "(1 if (old(self._session_id) is not None and old(self._session_id) != 0) else 0)",
                 "ghost.n_ondisconnect == old(ghost.n_ondisconnect) + 1"], **common)
    build_errback(reg, common)
    build_guards(reg, common)
    reg.contract(SESS + ".disconnect", params={"self": "obj:Session"}, modifies=["ghost.n_close"],
                 ensures=["ghost.n_close == old(ghost.n_close) + (1 if self._transport is not None else 0)"], **common)


def build_errback(reg, common):
    TABLES = ["_publish_reqs", "_subscribe_reqs", "_unsubscribe_reqs", "_call_reqs", "_register_reqs", "_unregister_reqs"]
    reg.external("txaio.create_future_success", lambda ex, state, args, kwargs, sv: VOpaque(fresh_name("done_future")))
    ens = []
    for t in TABLES:
        T = "self." + t
        ens += [
            "forall(k, 0, 2**53 + 1, k not in %s)" % T,                                      # nothing stays pending ...
            # ... and every request that was pending is completed (with the given error unless it already was)
            "forall(k, 0, 2**53 + 1, implies(old(k in %s), fut_done(old(%s[k].on_reply.addr))))" % (T, T),
        ]
    reg.contract(
        SESS + "._errback_outstanding_requests", params={"self": "obj:Session", "exc": "any"}, returns="any",
        modifies=["self." + t for t in TABLES] + ["Fut.done", "Fut.ok", "Fut.res_id", "ghost.n_completions"],
        ensures=ens + ["forall(f, 0, 2**62, implies(old(fut_done(f)), fut_done(f)))"],
        loops={"iter:outstanding": {"index": "_i", "invariant": [
            "0 <= _i <= len(outstanding)",
            "forall(j, 0, _i, fut_done(outstanding[j].on_reply.addr))",
            "forall(f, 0, 2**62, implies(old(fut_done(f)), fut_done(f)))"] +
            ["forall(k, 0, 2**53 + 1, k not in self.%s)" % t for t in TABLES],
            "modifies": ["Fut.done", "Fut.ok", "Fut.res_id", "ghost.n_completions"], "pure_calls": True,
            "vars": {"request": "sym:Request"}}},
        **common)
    # default onLeave / onDisconnect: every request still pending is failed
    EMPTY = ["forall(k, 0, 2**53 + 1, k not in self.%s)" % t for t in TABLES]
    MOD = ["self." + t for t in TABLES] + ["Fut.done", "Fut.ok", "Fut.res_id", "ghost.n_completions"]
    reg.contract(SESS + ".onDisconnect", params={"self": "obj:Session"}, modifies=MOD, ensures=EMPTY, **common)
    from pyvc import models
    models.CLASS_MODELS["ApplicationError"] = lambda ex, state, args, kwargs: VOpaque(fresh_name("ApplicationError"))
    models.CLASS_MODELS["TransportLost"] = lambda ex, state, args, kwargs: ex.mk_exc(state, "TransportLost")
    reg.shape("CloseDetailsS", fields={"reason": "opt:str", "message": "opt:str"})
    reg.contract(SESS + ".onLeave", params={"self": "obj:Session", "details": "obj:CloseDetailsS"}, returns="any",
                 modifies=MOD, ensures=EMPTY, **common)


def build_guards(reg, common):
    """API calls made after the transport is gone fail immediately (TransportLost) instead of hanging: nothing is sent,
    no request record is created"""
    reg.contract(MSG + ":check_or_raise_uri", params={"value": "any", "message": "any", "strict": "bool",
                                                      "allow_empty_components": "bool", "allow_last_empty": "bool",
                                                      "allow_none": "bool"},
                 returns="any", raises={"InvalidUriError": "True"}, verify=False, props=["C08"], spec_module="specs.wamp")
    TABLES = ["_publish_reqs", "_subscribe_reqs", "_unsubscribe_reqs", "_call_reqs", "_register_reqs", "_unregister_reqs"]
    UNCH = "ghost.n_sent == old(ghost.n_sent) and " + " and ".join(
        "forall(k, 0, 2**53 + 1, (k in self.%s) == old(k in self.%s))" % (t, t) for t in TABLES)
    RAISES = {"TransportLost": "True", "AssertionError": "True", "InvalidUriError": "True"}
    cases = [
        ("publish", {"self": "obj:Session", "topic": "str", "args": "tuple:", "kwargs": "cdict:options=none"}),
        ("call", {"self": "obj:Session", "procedure": "str", "args": "tuple:", "kwargs": "cdict:options=none"}),
        ("subscribe", {"self": "obj:Session", "handler": "func", "topic": "opt:str", "options": "none",
                       "check_types": "opt:bool"}),
        ("register", {"self": "obj:Session", "endpoint": "func", "procedure": "opt:str", "options": "none",
                      "prefix": "opt:str", "check_types": "opt:bool"}),
        ("_unsubscribe", {"self": "obj:Session", "subscription": "sym:Subscription"}),
        ("_unregister", {"self": "obj:Session", "registration": "sym:Registration"}),
    ]
    for name, params in cases:
        reg.contract(SESS + "." + name, name=SESS + ".%s[transport lost]" % name, params=params,
                     requires=["self._transport is None"], ensures=["False"], raises=RAISES,
                     raises_ensures={"*": [UNCH]}, raises_only=True, **common)


def _ext_close(ex, state, args, kwargs, sv):
    g = state.heap[state.ghost.oid]
    g.fields["n_close"] = VInt(simp(g.fields["n_close"].t + 1))
    return VNone


def extra_checks(tier, seed):
    return []
