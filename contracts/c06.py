"""C06 — WAMP sessions end cleanly on every path and leave nothing pending."""
import z3

from pyvc.values import *  # noqa
from . import wamp_common as W
from .wamp_common import SESS, PR

ASSUMPTIONS = list(W.ASSUMPTIONS) + [
    "txaio.as_future(self.onLeave / self.onDisconnect, ...) invokes the (user-overridable) callback once; the default "
    "implementations are verified as their own units; the *order* of callbacks across add_callbacks chains is txaio's "
    "(assumed)",
    "the transport calls session.onClose at most once per connection (proved for the RawSocket/WebSocket adapters under "
    "C13 where claimed)",
]
MSG = "autobahn.wamp.message"
ALL = ["Hello", "Welcome", "Abort", "Challenge", "Authenticate", "Goodbye", "Error", "Publish", "Published", "Subscribe",
       "Subscribed", "Unsubscribe", "Unsubscribed", "Event", "EventReceived", "Call", "Cancel", "Result", "Register",
       "Registered", "Unregister", "Unregistered", "Invocation", "Interrupt", "Yield"]
PRE_OK = ["Welcome", "Abort", "Challenge"]                      # legal before the session is established
# legal once established (handled by an arm of onMessage); everything else must be rejected
POST_OK = ["Goodbye", "Event", "Published", "Subscribed", "Unsubscribed", "Result", "Invocation", "Interrupt", "Registered",
           "Unregistered", "Error"]


def ext_as_future(ex, state, args, kwargs, sv):
    """as_future(callback, ...): the callback is invoked once, now; session callbacks are counted by name"""
    fn = args[0]
    g = state.heap[state.ghost.oid]
    name = getattr(fn, "name", "")
    fld = {"onLeave": "n_onleave", "onDisconnect": "n_ondisconnect", "onJoin": "n_onjoin"}.get(name)
    if fld:
        g.fields[fld] = VInt(simp(g.fields[fld].t + 1))
    return VOpaque(fresh_name("future_" + name))


def build(reg):
    W.build_shapes(reg)
    common = dict(props=["C06"], spec_module="specs.wamp")
    reg.shapes["Ghost"].fields.update({"n_onleave": "nat", "n_ondisconnect": "nat", "n_onjoin": "nat", "n_close": "nat",
                                       "n_fire_join": "nat", "n_fire_leave": "nat", "n_onwelcome": "nat",
                                       "n_onchallenge": "nat"})
    reg.external("txaio.as_future", ext_as_future)
    reg.external("txaio.add_callbacks", lambda ex, state, args, kwargs, sv: VNone)
    reg.external("session.fire", _ext_fire)
    reg.external("transport.close", _ext_close)
    reg.shapes["Transport"].methods.update({"close": "transport.close"})
    reg.shapes["Transport"].fields.update({"is_closed": "any"})
    reg.shapes["Session"].methods.update({"fire": "session.fire"})
    from pyvc import models
    W.install_message_models(reg)
    models.CLASS_MODELS["CloseDetails"] = lambda ex, state, args, kwargs: VOpaque(fresh_name("CloseDetails"))
    for m in ALL:
        if m not in reg.shapes:
            reg.shape(m, cls=MSG + ":" + m, fields={"reason": "any", "message": "any"} if m == "Goodbye" else {})
    UNCH = ("self._session_id is old(self._session_id) and ghost.n_sent == old(ghost.n_sent) and "
            "ghost.n_onleave == old(ghost.n_onleave) and ghost.n_completions == old(ghost.n_completions)")
    # ---- phase gate: before the session is established only WELCOME / ABORT / CHALLENGE are legal ...
    for m in ALL:
        if m in PRE_OK:
            continue
        reg.contract(SESS + ".onMessage", name=SESS + ".onMessage<pre-session:%s>" % m,
                     params={"self": "obj:Session", "msg": "obj:" + m}, requires=["self._session_id is None"],
                     ensures=["False"],                              # never accepted
                     raises={"ProtocolError": "True"}, raises_ensures={"ProtocolError": [UNCH]}, raises_only=True,
                     **common)
    # ---- ... afterwards handshake messages (and every client-to-router message type) are protocol violations
    for m in ALL:
        if m in POST_OK:
            continue
        reg.contract(SESS + ".onMessage", name=SESS + ".onMessage<established:%s>" % m,
                     params={"self": "obj:Session", "msg": "obj:" + m}, requires=["self._session_id is not None"],
                     ensures=["False"], raises={"ProtocolError": "True"}, raises_ensures={"ProtocolError": [UNCH]},
                     raises_only=True, **common)
    # ---- GOODBYE from the router: answered exactly when this side did not initiate closing; the session ends, leave fires
    reg.contract(
        SESS + ".onMessage", name=SESS + ".onMessage<Goodbye>", params={"self": "obj:Session", "msg": "obj:Goodbye"},
        requires=["self._session_id is not None", "self._transport is not None"],
        modifies=["self._session_id", "ghost.n_sent", "ghost.last_sent", "ghost.n_onleave"],
        ensures=["self._session_id is None", "ghost.n_onleave == old(ghost.n_onleave) + 1",
                 "ghost.n_sent == old(ghost.n_sent) + (0 if self._goodbye_sent else 1)",
                 "implies(not self._goodbye_sent, isinstance(ghost.last_sent, Goodbye))"],
        raises={"SerializationError": "not self._goodbye_sent", "PayloadExceededError": "not self._goodbye_sent",
                "TransportLost": "not self._goodbye_sent"}, **common)
    # ---- leave(): GOODBYE at most once per session
    reg.contract(
        SESS + ".leave", params={"self": "obj:Session", "reason": "opt:str", "message": "opt:str"}, returns="any",
        requires=["implies(self._session_id is not None and self._session_id != 0, self._transport is not None)"],
        modifies=["self._goodbye_sent", "ghost.n_sent", "ghost.last_sent"],
        ensures=["implies(old(self._session_id) is None or old(self._session_id) == 0, ghost.n_sent == old(ghost.n_sent) and "
                 "self._goodbye_sent == old(self._goodbye_sent))",
                 "implies(old(self._session_id) is not None and old(self._session_id) != 0, self._goodbye_sent and "
                 "ghost.n_sent == old(ghost.n_sent) + (0 if old(self._goodbye_sent) else 1))",
                 "implies(ghost.n_sent == old(ghost.n_sent) + 1, isinstance(ghost.last_sent, Goodbye))"],
        raises={"SerializationError": "True", "PayloadExceededError": "True", "TransportLost": "True"},
        raises_ensures={"*": ["self._goodbye_sent == old(self._goodbye_sent)"]}, **common)
    # ---- transport gone: leave exactly when a joined session ends, then disconnect; session id cleared
    reg.contract(
        SESS + ".onClose", params={"self": "obj:Session", "wasClean": "bool"},
        modifies=["self._transport", "self._session_id", "ghost.n_onleave", "ghost.n_ondisconnect"],
        ensures=["self._transport is None and (self._session_id is None or self._session_id == 0)",
                 "ghost.n_onleave == old(ghost.n_onleave) + "
                 "(1 if (old(self._session_id) is not None and old(self._session_id) != 0) else 0)",
                 "ghost.n_ondisconnect == old(ghost.n_ondisconnect) + 1"], **common)
    build_errback(reg, common)
    build_guards(reg, common)
    build_handshake(reg, common)
    build_join(reg, common)
    reg.contract(SESS + ".disconnect", params={"self": "obj:Session"}, modifies=["ghost.n_close"],
                 ensures=["ghost.n_close == old(ghost.n_close) + (1 if self._transport is not None else 0)"], **common)


def build_errback(reg, common):
    TABLES = ["_publish_reqs", "_subscribe_reqs", "_unsubscribe_reqs", "_call_reqs", "_register_reqs", "_unregister_reqs"]
    reg.external("txaio.create_future_success", lambda ex, state, args, kwargs, sv: VOpaque(fresh_name("done_future")))
    ens = []
    for t in TABLES:
        T = "self." + t
        ens += [
            "forall(k, 0, 2**53 + 1, k not in %s)" % T,                                      # nothing stays pending ...
            # ... and every request that was pending is completed (with the given error unless it already was)
            "forall(k, 0, 2**53 + 1, implies(old(k in %s), fut_done(old(%s[k].on_reply.addr))))" % (T, T),
        ]
    reg.contract(
        SESS + "._errback_outstanding_requests", params={"self": "obj:Session", "exc": "any"}, returns="any",
        modifies=["self." + t for t in TABLES] + ["Fut.done", "Fut.ok", "Fut.res_id", "ghost.n_completions"],
        ensures=ens + ["forall(f, 0, 2**62, implies(old(fut_done(f)), fut_done(f)))"],
        loops={"iter:outstanding": {"index": "_i", "invariant": [
            "0 <= _i <= len(outstanding)",
            "forall(j, 0, _i, fut_done(outstanding[j].on_reply.addr))",
            "forall(f, 0, 2**62, implies(old(fut_done(f)), fut_done(f)))"] +
            ["forall(k, 0, 2**53 + 1, k not in self.%s)" % t for t in TABLES],
            "modifies": ["Fut.done", "Fut.ok", "Fut.res_id", "ghost.n_completions"], "pure_calls": True,
            "vars": {"request": "sym:Request"}}},
        **common)
    # default onLeave / onDisconnect: every request still pending is failed
    EMPTY = ["forall(k, 0, 2**53 + 1, k not in self.%s)" % t for t in TABLES]
    MOD = ["self." + t for t in TABLES] + ["Fut.done", "Fut.ok", "Fut.res_id", "ghost.n_completions"]
    reg.contract(SESS + ".onDisconnect", params={"self": "obj:Session"}, modifies=MOD, ensures=EMPTY, **common)
    from pyvc import models
    models.CLASS_MODELS["ApplicationError"] = lambda ex, state, args, kwargs: VOpaque(fresh_name("ApplicationError"))
    models.CLASS_MODELS["TransportLost"] = lambda ex, state, args, kwargs: ex.mk_exc(state, "TransportLost")
    reg.shape("CloseDetailsS", fields={"reason": "opt:str", "message": "opt:str"})
    reg.contract(SESS + ".onLeave", params={"self": "obj:Session", "details": "obj:CloseDetailsS"}, returns="any",
                 modifies=MOD, ensures=EMPTY, **common)


def _ext_fire(ex, state, args, kwargs, sv):
    """ObservableMixin.fire(event, ...): 'join' / 'leave' notifications are counted"""
    g = state.heap[state.ghost.oid]
    ev = args[0]
    if isinstance(ev, VStr):
        for name, fld in (("join", "n_fire_join"), ("leave", "n_fire_leave")):
            hit = simp(ev.t == z3.StringVal(name))
            g.fields[fld] = VInt(simp(g.fields[fld].t + z3.If(hit, 1, 0)))
    return VOpaque(fresh_name("fire"))


def build_handshake(reg, common):
    """the handshake arms (session not established yet): WELCOME establishes the session only when the local onWelcome hook
    accepts it; a denied or failing hook answers ABORT and the session stays unestablished; CHALLENGE is answered by exactly
    one AUTHENTICATE carrying the signature, or by ABORT + leave when the hook fails; ABORT ends with leave"""
    from pyvc import models
    reg.shapes["Ghost"].fields.update({"n_fire_join": "nat", "n_fire_leave": "nat", "n_onwelcome": "nat",
                                       "n_onchallenge": "nat"})
    reg.external("session.fire", _ext_fire)

    def ext_as_future2(ex, state, args, kwargs, sv):
        fn = args[0]
        g = state.heap[state.ghost.oid]
        name = getattr(fn, "name", "")
        fld = {"onLeave": "n_onleave", "onDisconnect": "n_ondisconnect", "onJoin": "n_onjoin", "onWelcome": "n_onwelcome",
               "onChallenge": "n_onchallenge"}.get(name)
        if fld:
            g.fields[fld] = VInt(simp(g.fields[fld].t + 1))
        return VOpaque(fresh_name("future_" + name))
    reg.external("txaio.as_future", ext_as_future2)
    reg.shape("SerializerS", fields={"SERIALIZER_ID": "str"})
    reg.shapes["Transport"].fields.update({"_serializer": "obj:SerializerS", "transport_details": "any"})
    reg.shapes["Session"].fields.update({"_authid": "any", "_authrole": "any", "_authmethod": "any", "_authprovider": "any",
                                         "_authextra": "any", "_session_details": "any"})
    reg.shapes["Session"].methods.update({"_swallow_error": "noop", "onUserError": "noop"})
    reg.external("noop", lambda ex, state, args, kwargs, sv: VNone)
    models.CLASS_MODELS["SessionDetails"] = lambda ex, state, args, kwargs: VOpaque(fresh_name("SessionDetails"))
    models.CLASS_MODELS["Challenge"] = W_challenge_model(models.CLASS_MODELS.get("Challenge"))
    reg.shape("Welcome", cls=MSG + ":Welcome", fields={
        "session": "int", "realm": "opt:str", "authid": "any", "authrole": "any", "authmethod": "any", "authprovider": "any",
        "authextra": "any", "roles": "any"})
    reg.shape("Abort", cls=MSG + ":Abort", fields={"reason": "str", "message": "opt:str"})
    reg.shape("Challenge", cls=MSG + ":Challenge", fields={"method": "str", "extra": "any"})
    UNEST = "self._session_id is None"
    QUIET = ("ghost.n_fire_join == old(ghost.n_fire_join) and ghost.n_onjoin == old(ghost.n_onjoin) and "
             "ghost.n_onleave == old(ghost.n_onleave)")
    SEND = {"SerializationError": "True", "PayloadExceededError": "True", "TransportLost": "True"}
    # ---- the arms: the hook is called once; nothing else happens before it answers
    for m, hook in (("Welcome", "n_onwelcome"), ("Challenge", "n_onchallenge"), ("Abort", "n_onleave")):
        reg.contract(SESS + ".onMessage", name=SESS + ".onMessage<pre-session:%s>" % m,
                     params={"self": "obj:Session", "msg": "obj:" + m}, requires=[UNEST],
                     modifies=["ghost." + hook],
                     ensures=[UNEST, "ghost.%s == old(ghost.%s) + 1" % (hook, hook), "ghost.n_sent == old(ghost.n_sent)",
                              "ghost.n_fire_join == old(ghost.n_fire_join) and ghost.n_onjoin == old(ghost.n_onjoin)"],
                     **common)
    # ---- WELCOME, hook answered
    WSET = ["self._session_id", "self._realm", "self._authid", "self._authrole", "self._authmethod", "self._authprovider",
            "self._authextra", "self._router_roles", "self._session_details"]
    reg.contract(
        SESS + ".onMessage/success@message.Welcome",
        params={"self": "obj:Session", "msg": "obj:Welcome", "res": "opt:str"}, returns="none",
        requires=[UNEST, "self._transport is not None"],
        modifies=WSET + ["ghost.n_sent", "ghost.last_sent", "ghost.n_fire_join"],
        ensures=[
            # denied by the local hook: ABORT is sent and the session is *not* established (no join, nothing recorded)
            "implies(res is not None, self._session_id is None and ghost.n_sent == old(ghost.n_sent) + 1 and "
            "isinstance(ghost.last_sent, Abort) and ghost.last_sent.reason == 'wamp.error.cannot_authenticate' and "
            "ghost.n_fire_join == old(ghost.n_fire_join))",
            # accepted: established with the router's session id, 'join' fired once, nothing sent
            "implies(res is None, self._session_id == msg.session and ghost.n_sent == old(ghost.n_sent) and "
            "ghost.n_fire_join == old(ghost.n_fire_join) + 1)",
            "implies(res is None and msg.realm, self._realm == msg.realm)",
            "ghost.n_onleave == old(ghost.n_onleave)"],
        raises=SEND, raises_ensures={"*": [UNEST, "ghost.n_fire_join == old(ghost.n_fire_join)"]}, **common)
    reg.contract(
        SESS + ".onMessage/error@message.Welcome", params={"self": "obj:Session", "msg": "obj:Welcome", "e": "any"},
        returns="any", requires=[UNEST, "self._transport is not None"], modifies=["ghost.n_sent", "ghost.last_sent"],
        ensures=[UNEST, "ghost.n_sent == old(ghost.n_sent) + 1 and isinstance(ghost.last_sent, Abort)", QUIET],
        raises=SEND, raises_ensures={"*": [UNEST, QUIET]}, **common)
    # ---- CHALLENGE, hook answered: exactly one AUTHENTICATE carrying the signature (bytes are decoded)
    reg.contract(
        SESS + ".onMessage/success@message.Challenge",
        params={"self": "obj:Session", "msg": "obj:Challenge", "signature": "opt:str|int"}, returns="none",
        requires=[UNEST, "self._transport is not None"], modifies=["ghost.n_sent", "ghost.last_sent"],
        ensures=[UNEST, "isinstance(signature, str)",
                 "ghost.n_sent == old(ghost.n_sent) + 1 and isinstance(ghost.last_sent, Authenticate) and "
                 "ghost.last_sent.signature == signature", QUIET],
        raises=dict(SEND, Exception="not isinstance(signature, str)"),
        raises_ensures={"*": [UNEST, "ghost.n_sent == old(ghost.n_sent)", QUIET]}, **common)
    # ---- CHALLENGE, hook failed: ABORT, then leave; never established
    reg.shape("FailureS", fields={"value": "any"})
    reg.contract(
        SESS + ".onMessage/error@message.Challenge",
        params={"self": "obj:Session", "msg": "obj:Challenge", "err": "obj:FailureS"}, returns="any",
        requires=[UNEST, "self._transport is not None"], modifies=["ghost.n_sent", "ghost.last_sent", "ghost.n_onleave"],
        ensures=[UNEST, "ghost.n_sent == old(ghost.n_sent) + 1 and isinstance(ghost.last_sent, Abort)",
                 "ghost.n_onleave == old(ghost.n_onleave) + 1", "ghost.n_fire_join == old(ghost.n_fire_join)"],
        raises=SEND, raises_ensures={"*": [UNEST, "ghost.n_onleave == old(ghost.n_onleave)"]}, **common)


def build_join(reg, common):
    """join(): exactly one HELLO carrying the given realm and authentication parameters and this session's roles -- only
    while no session is established and a transport is attached; the closing-handshake flag starts clear"""
    reg.shapes["Session"].fields.update({"_session_roles": "any"})
    reg.contract(
        SESS + ".join",
        params={"self": "obj:Session", "realm": "opt:str", "authmethods": "any", "authid": "opt:str", "authrole": "opt:str",
                "authextra": "any", "resumable": "opt:bool", "resume_session": "opt:int", "resume_token": "opt:str"},
        modifies=["self._realm", "self._goodbye_sent", "ghost.n_sent", "ghost.last_sent"],
        ensures=["old(self._session_id) is None or old(self._session_id) == 0", "old(self._transport) is not None",
                 "ghost.n_sent == old(ghost.n_sent) + 1 and isinstance(ghost.last_sent, Hello)",
                 "ghost.last_sent.realm is realm and ghost.last_sent.authmethods is authmethods and "
                 "ghost.last_sent.authid is authid and ghost.last_sent.authrole is authrole and "
                 "ghost.last_sent.authextra is authextra and ghost.last_sent.roles is self._session_roles",
                 "ghost.last_sent.resumable is resumable and ghost.last_sent.resume_session is resume_session and "
                 "ghost.last_sent.resume_token is resume_token",
                 "not self._goodbye_sent and self._session_id is old(self._session_id)"],
        raises={"Exception": "(self._session_id is not None and self._session_id != 0) or self._transport is None",
                "SerializationError": "True", "PayloadExceededError": "True", "TransportLost": "True"},
        raises_ensures={"Exception": ["ghost.n_sent == old(ghost.n_sent)"]}, **common)


def W_challenge_model(msg_model):
    """`Challenge` names both the message class (message.Challenge) and the application-level types.Challenge handed to
    onChallenge; the latter is opaque here"""
    def model(ex, state, args, kwargs):
        if len(args) == 2 and not kwargs:
            return VOpaque(fresh_name("types_Challenge"))
        return msg_model(ex, state, args, kwargs)
    return model


def build_guards(reg, common):
    """API calls made after the transport is gone fail immediately (TransportLost) instead of hanging: nothing is sent,
    no request record is created"""
    reg.contract(MSG + ":check_or_raise_uri", params={"value": "any", "message": "any", "strict": "bool",
                                                      "allow_empty_components": "bool", "allow_last_empty": "bool",
                                                      "allow_none": "bool"},
                 returns="any", raises={"InvalidUriError": "True"}, verify=False, props=["C08"], spec_module="specs.wamp")
    TABLES = ["_publish_reqs", "_subscribe_reqs", "_unsubscribe_reqs", "_call_reqs", "_register_reqs", "_unregister_reqs"]
    UNCH = "ghost.n_sent == old(ghost.n_sent) and " + " and ".join(
        "forall(k, 0, 2**53 + 1, (k in self.%s) == old(k in self.%s))" % (t, t) for t in TABLES)
    RAISES = {"TransportLost": "True", "AssertionError": "True", "InvalidUriError": "True"}
    cases = [
        ("publish", {"self": "obj:Session", "topic": "str", "args": "tuple:", "kwargs": "cdict:options=none"}),
        ("call", {"self": "obj:Session", "procedure": "str", "args": "tuple:", "kwargs": "cdict:options=none"}),
        ("subscribe", {"self": "obj:Session", "handler": "func", "topic": "opt:str", "options": "none",
                       "check_types": "opt:bool"}),
        ("register", {"self": "obj:Session", "endpoint": "func", "procedure": "opt:str", "options": "none",
                      "prefix": "opt:str", "check_types": "opt:bool"}),
        ("_unsubscribe", {"self": "obj:Session", "subscription": "sym:Subscription"}),
        ("_unregister", {"self": "obj:Session", "registration": "sym:Registration"}),
    ]
    for name, params in cases:
        reg.contract(SESS + "." + name, name=SESS + ".%s[transport lost]" % name, params=params,
                     requires=["self._transport is None"], ensures=["False"], raises=RAISES,
                     raises_ensures={"*": [UNCH]}, raises_only=True, **common)


def _ext_close(ex, state, args, kwargs, sv):
    g = state.heap[state.ghost.oid]
    g.fields["n_close"] = VInt(simp(g.fields["n_close"].t + 1))
    return VNone


def extra_checks(tier, seed):
    if tier != "thorough":
        return []
    from pyvc import replaylib as R
    return [R.native_crosscheck("C06/bounded/handshake-histories", _HANDSHAKE_HARNESS,
                                "optional CHALLENGE round x accepting / denying / raising onWelcome x close / leave+close / "
                                "router GOODBYE / nothing; misbehaving onChallenge; ABORT -- on the real Twisted session")]


# ------------------------------------------------------------------------------------------ replay on the real code
_HANDSHAKE_HARNESS = r'''
import json
import txaio; txaio.use_twisted()
from autobahn.twisted.wamp import ApplicationSession
from autobahn.wamp import message, role, types
from autobahn.wamp.exception import ProtocolError

class Ser: SERIALIZER_ID = "json"
class T:
    def __init__(s): s.sent = []; s.closed = 0; s._serializer = Ser()
    def send(s, m): s.sent.append(m)
    def is_open(s): return True
    def isOpen(s): return True
    def close(s): s.closed += 1
    transport_details = None

ROLES = {"broker": role.RoleBrokerFeatures(), "dealer": role.RoleDealerFeatures()}
bad, cases = [], 0
def chk(c, what, case):
    if not c and len(bad) < 6: bad.append({"what": what, "case": case})

def mk(welcome="accept", challenge="sig"):
    ev = []
    class S(ApplicationSession):
        def onWelcome(self, msg):
            ev.append("onWelcome")
            if welcome == "deny": return "server signature mismatch"
            if welcome == "raise": raise RuntimeError("boom")
            return None
        def onChallenge(self, ch):
            ev.append("onChallenge")
            if challenge == "raise": raise RuntimeError("no")
            return {"sig": "sig", "bytes": b"sig", "none": None, "int": 5}[challenge]
        def onJoin(self, d): ev.append("onJoin")
        def onLeave(self, d): ev.append("onLeave")
        def onDisconnect(self): ev.append("onDisconnect")
        def onUserError(self, f, m): ev.append("userError")
    s = S(); t = T()
    s.on("join", lambda *a, **k: ev.append("join")); s.on("leave", lambda *a, **k: ev.append("leave"))
    s.on("disconnect", lambda *a, **k: ev.append("disconnect"))
    s.onOpen(t)
    t.sent.clear()          # the HELLO sent by the default onConnect
    return s, t, ev

W = lambda: message.Welcome(4242, ROLES, realm="realm1", authid="u", authrole="r", authmethod="anonymous")
for pre in ("none", "sig", "bytes"):
    for welcome in ("accept", "deny", "raise"):
        for after in ("close", "leave+close", "goodbye", "nothing"):
            cases += 1
            case = {"challenge_round": pre, "onWelcome": welcome, "then": after}
            s, t, ev = mk(welcome, pre if pre != "none" else "sig")
            if pre != "none":
                s.onMessage(message.Challenge("wampcra", {}))
                chk(len(t.sent) == 1 and isinstance(t.sent[0], message.Authenticate) and t.sent[0].signature == "sig",
                    "CHALLENGE not answered by exactly one AUTHENTICATE with the signature", case)
                chk(s._session_id is None, "session established by CHALLENGE", case)
                t.sent.clear()
            s.onMessage(W())
            if welcome == "accept":
                chk(s._session_id == 4242 and ev.count("join") == 1 and ev.count("onJoin") == 1 and not t.sent, "accepted WELCOME did not establish the session once", case)
            else:
                chk(s._session_id is None, "denied WELCOME left the session established (session id %r)" % (s._session_id,), case)
                chk(len(t.sent) == 1 and isinstance(t.sent[0], message.Abort), "denied WELCOME not answered by exactly one ABORT", case)
                chk("join" not in ev and "onJoin" not in ev, "join fired for a denied session", case)
                chk(not s.is_attached(), "is_attached() true for a denied session", case)
            n0 = len(t.sent)
            if after == "goodbye":
                try:
                    s.onMessage(message.Goodbye()); raised = False
                except ProtocolError: raised = True
                if welcome != "accept":
                    chk(raised and len(t.sent) == n0, "GOODBYE before the session is established accepted / answered", case)
                else:
                    chk(not raised and len(t.sent) == n0 + 1 and isinstance(t.sent[-1], message.Goodbye) and ev.count("onLeave") == 1, "router GOODBYE not answered once / no leave", case)
            if after == "leave+close":
                try: s.leave()
                except Exception: pass
                gb = [m for m in t.sent[n0:] if isinstance(m, message.Goodbye)]
                chk(len(gb) == (1 if welcome == "accept" else 0), "GOODBYE count after leave() wrong: %d" % len(gb), case)
            if after in ("close", "leave+close"):
                s.onClose(True)
                want = 1 if welcome == "accept" else 0
                chk(ev.count("onLeave") == want and ev.count("leave") == want, "leave fired %d/%d times, expected %d (joined=%s)" % (ev.count("onLeave"), ev.count("leave"), want, welcome == "accept"), case)
                chk(ev.count("onDisconnect") == 1 and ev.count("disconnect") == 1, "disconnect not fired exactly once", case)
                if "join" in ev and "leave" in ev: chk(ev.index("join") < ev.index("leave") < ev.index("disconnect"), "callback order", case)
# CHALLENGE hook misbehaving / ABORT
for challenge in ("none", "int", "raise"):
    cases += 1; case = {"onChallenge": challenge}
    s, t, ev = mk("accept", challenge)
    s.onMessage(message.Challenge("wampcra", {}))
    chk(s._session_id is None and not any(isinstance(m, message.Authenticate) for m in t.sent), "AUTHENTICATE sent without a valid signature", case)
    chk("join" not in ev and ev.count("onLeave") <= 1, "join / repeated leave after a failed CHALLENGE", case)
    if challenge == "raise":        # the hook itself failed: ABORT, then leave (a hook returning a non-signature is a user
        # error that Twisted reports as an unhandled error in the Deferred: nothing is sent, which the property allows)
        chk(len([m for m in t.sent if isinstance(m, message.Abort)]) == 1 and ev.count("onLeave") == 1, "failed CHALLENGE hook not ended by one ABORT + one leave", case)
cases += 1
s, t, ev = mk()
s.onMessage(message.Abort("wamp.error.no_such_realm", "x"))
chk(s._session_id is None and ev.count("onLeave") == 1 and ev.count("leave") == 1 and "join" not in ev and not t.sent, "ABORT before WELCOME: not exactly one leave", {"msg": "ABORT"})
print(json.dumps({"bad": bad, "cases": cases}))
'''


def replay(o):
    """handshake units (WELCOME / CHALLENGE / ABORT arms and their closures): the real Twisted session over a recording
    transport, every combination of an optional CHALLENGE round, an accepting / denying / raising onWelcome hook and the
    way the connection ends afterwards, checked against the property statement directly"""
    from pyvc import replaylib as R
    unit = o.get("unit") or o.get("name", "")
    if not any(k in unit for k in ("message.Welcome", "message.Challenge", "pre-session:Welcome", "pre-session:Challenge",
                                   "pre-session:Abort")):
        return {"reproduced": False, "detail": "no replay harness for this unit"}
    out = R.run_py(_HANDSHAKE_HARNESS, timeout=300)
    bad = out.get("bad") if isinstance(out, dict) else None
    return {"reproduced": bool(bad), "cases": (bad or [])[:4], "observed": out if not bad else {"cases": out.get("cases")},
            "detail": "handshake histories on the real session over a recording transport"}
