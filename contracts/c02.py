"""C02 — see DESIGN.md section 5; units and contracts live in ws_units.py (shared WebSocketProtocol family)."""
from . import ws_units, ws_common

ASSUMPTIONS = list(ws_common.ASSUMPTIONS)


def build(reg):
    ws_units.build(reg)


def replay(o):
    unit = o.get("unit") or o.get("name", "")
    if any(k in unit for k in ("processControlFrame", "processData[header]", "onPing", "_protocol_violation")):
        from . import ws_pair_harness
        return ws_pair_harness.run("violations")
    return {"reproduced": False, "detail": "no replay harness for this unit"}


def extra_checks(tier, seed):
    """lemmas about spec functions used as axioms in this property's VCs"""
    from pyvc import natives
    from pyvc.spec_tools import solve
    out = []
    for name, (hyps, goal) in natives.join_lemma_obligations():
        out.append(solve("%s/lemma/" % __name__.split(".")[-1].upper() + name, hyps, goal, 20000))
    if tier == "thorough":
        from pyvc import replaylib as R
        from . import ws_pair_harness as H
        out.append(R.native_crosscheck("C02/bounded/violating-frames-under-three-segmentations", H.HARNESS % {"mode": "violations"},
                                       "9 kinds of violating frame x both roles x both failure policies x 3 read segmentations, "
                                       "each followed by a valid message, on a real client / server pair"))
    return out
