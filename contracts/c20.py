"""C20 — End-to-end encrypted payloads are recovered exactly or rejected.

NaCl (Box), the JSON codec and the URI trie are libraries outside the repository: they are assumed primitives with the
stated laws.  Under contract are the repository's own decisions: which box is used in which direction, what goes into
the sealed payload and what is read back, when decode refuses, and -- in the session -- that a handler / endpoint /
caller only ever sees payload that decrypted under the right key *and* names the envelope's URI.
"""
import z3

from pyvc.values import *  # noqa
from pyvc.engine import HObj
from pyvc import natives

ASSUMPTIONS = [
    "NaCl Box: box.encrypt(m, nonce) yields nonce ++ ciphertext; box.decrypt either raises or returns the opened "
    "plaintext; for the two boxes of one key pair set (originator / responder) open(peer, seal(box, m, n)) == m "
    "(law `nacl_roundtrip`, used only in the round-trip lemma); a tampered ciphertext or a wrong key makes decrypt "
    "raise (authenticated encryption) -- cryptographic strength itself is an assumption",
    "JSON: _loads(_dumps({'uri': u, 'args': a, 'kwargs': k})) gives back u, a, k (law `json_roundtrip`); args / kwargs "
    "are opaque value identities",
    "pytrie.StringTrie.longest_prefix_value returns the value stored under the longest stored prefix or raises KeyError",
]
LEVEL = "other"
NOT_COVERED = ["progressive YIELDs from the progress closure with a codec active, publish() / call() with options next to a "
               "codec (the units take options=None)",
               "positional arguments in the EVENT / INVOCATION arms (tuple(msg.args) of a symbolic list): the units are proved "
               "for sealed payloads without positional arguments, keyword arguments are covered",
               "Key / KeyRing construction, set_key, rotate_key (only the replay's provisioning histories exercise them)",
               "cryptographic strength of NaCl and the JSON codec (assumed laws)"]
CB = "autobahn.wamp.cryptobox"
IS = z3.IntSort()
SS = z3.StringSort()
seal_f = z3.Function("nacl_seal", IS, BytesSort, BytesSort, BytesSort)         # (box, plaintext, nonce) -> nonce ++ ct
open_ok_f = z3.Function("nacl_open_ok", IS, BytesSort, z3.BoolSort())
open_f = z3.Function("nacl_open", IS, BytesSort, BytesSort)
js_f = z3.Function("json_dumps_payload", SS, IS, IS, SS)                       # (uri, args id, kwargs id) -> text
js_uri_f = z3.Function("json_uri", SS, SS)
js_has_uri_f = z3.Function("json_has_uri", SS, z3.BoolSort())
js_args_f = z3.Function("json_args", SS, IS)
js_kwargs_f = z3.Function("json_kwargs", SS, IS)


def _ident(ex, v):
    """opaque identity of an application value (None -> 0)"""
    if isinstance(v, VNoneT):
        return z3.IntVal(0)
    if isinstance(v, VInt):
        return v.t
    if isinstance(v, VRef):
        return z3.IntVal(v.oid)         # a list / dict payload object: its identity
    if isinstance(v, VUnion):
        t = z3.IntVal(0)
        for g, a in reversed(v.alts):
            t = z3.If(g, _ident(ex, a), t)
        return t
    raise Unsupported("application value %r" % (v,))


def ext_json_dumps(ex, state, args, kwargs, sv):
    d = ex.obj(state, args[0])
    if d.kind != "dict" or d.d is None or set(d.d) != {"uri", "args", "kwargs"}:
        raise Unsupported("_json_dumps of something else than the sealed payload dict")
    return VStr(js_f(d.d["uri"].t, _ident(ex, d.d["args"]), _ident(ex, d.d["kwargs"])))


def ext_json_loads(ex, state, args, kwargs, sv):
    b = z3.Bool(fresh_name("json_loads_raises"))
    ex.raise_if(state, b, "ValueError")
    o = HObj("inst", None, "Decoded")
    o.fields["text"] = args[0]
    return state.alloc(o)


def ext_decoded_get(ex, state, args, kwargs, sv):
    o = state.heap[sv.oid]
    text = o.fields["text"].t
    key = args[0].t.as_string()
    if key == "uri":
        return mk_union([(js_has_uri_f(text), VStr(js_uri_f(text))), (z3.Not(js_has_uri_f(text)), VNone)])
    t = (js_args_f if key == "args" else js_kwargs_f)(text)
    return mk_union([(t == 0, VNone), (t != 0, VInt(t))])


def ext_encrypt(ex, state, args, kwargs, sv):
    box = state.heap[sv.oid]
    g = state.heap[state.ghost.oid]
    g.fields["used_box"] = box.fields["id"]
    g.fields["last_nonce"] = args[1]
    return VBytes(seal_f(box.fields["id"].t, args[0].t, args[1].t))


def ext_decrypt(ex, state, args, kwargs, sv):
    box = state.heap[sv.oid]
    ct = args[0]
    if not isinstance(ct, VBytes):
        ex.raise_if(state, z3.BoolVal(True), "TypeError")
    ok = open_ok_f(box.fields["id"].t, ct.t)
    ex.raise_if(state, z3.Not(ok), "Exception")       # nacl.exceptions.CryptoError
    state.heap[state.ghost.oid].fields["used_box"] = box.fields["id"]
    return VBytes(open_f(box.fields["id"].t, ct.t))


def ext_trie_lookup(ex, state, args, kwargs, sv):
    b = z3.Bool(fresh_name("trie_keyerror"))
    ex.raise_if(state, b, "KeyError")
    g = state.heap[state.ghost.oid]
    return g.fields["trie_key"]


def build(reg):
    common = dict(props=["C20"], spec_module="specs.c20")
    reg.shape("Ghost", ghost=True, fields={"trie_key": "obj:KeyObj", "used_box": "int", "last_nonce": "bytes"})
    reg.shape("BoxObj", fields={"id": "int"}, methods={"encrypt": "nacl.encrypt", "decrypt": "nacl.decrypt"})
    reg.shape("KeyObj", cls=CB + ":Key", fields={"originator_box": "opt:obj:BoxObj", "responder_box": "opt:obj:BoxObj"})
    reg.shape("Trie", fields={}, methods={"longest_prefix_value": "trie.lookup", "__getitem__": "trie.lookup"})
    reg.shape("Decoded", fields={"text": "str"}, methods={"get": "decoded.get"})
    reg.shape("KeyRing", cls=CB + ":KeyRing", fields={"_uri_to_key": "obj:Trie", "_default_key": "opt:obj:KeyObj"})
    reg.shape("EncPayload", cls="autobahn.wamp.types:EncodedPayload",
              fields={"payload": "bytes", "enc_algo": "str", "enc_serializer": "opt:str", "enc_key": "opt:str"})
    reg.external("nacl.encrypt", ext_encrypt)
    reg.external("nacl.decrypt", ext_decrypt)
    reg.external("trie.lookup", ext_trie_lookup)
    reg.external("decoded.get", ext_decoded_get)
    reg.external("cryptobox._json_dumps", ext_json_dumps)
    reg.external("cryptobox._json_loads", ext_json_loads)
    reg.overrides[(CB, "_json_dumps")] = VFunc("builtin", "cryptobox._json_dumps")
    reg.overrides[(CB, "_json_loads")] = VFunc("builtin", "cryptobox._json_loads")
    reg.overrides[(CB, "random")] = VFunc("builtin", "nacl.utils.random")
    reg.overrides[(CB, "Box")] = VClass("NaclBox")
    reg.overrides[(CB, "RawEncoder")] = VOpaque("RawEncoder")
    reg.class_consts = {"NaclBox.NONCE_SIZE": 24}
    reg.external("nacl.utils.random", lambda ex, state, args, kwargs, sv: VBytes(z3.Const(fresh_name("nonce"), BytesSort)))
    reg.native_spec("seal", lambda ex, state, b, m, n: VBytes(seal_f(ex.num(b), m.t, n.t)))
    reg.native_spec("open_ok", lambda ex, state, b, c: VBool(open_ok_f(ex.num(b), c.t)))
    reg.native_spec("opened", lambda ex, state, b, c: VBytes(open_f(ex.num(b), c.t)))
    reg.native_spec("js", lambda ex, state, u, a, k: VStr(js_f(u.t, _ident(ex, a), _ident(ex, k))))
    def sym_exists_box_opened(ex, state, kr, is_orig, ct):
        """the payload opened under a box of this side's role (trie key or default key)"""
        g = state.heap[state.ghost.oid]
        ring = ex.obj(state, kr)
        cands = []
        for g_k, key in alts_of(g.fields["trie_key"]) + alts_of(ring.fields["_default_key"]):
            if not isinstance(key, VRef):
                continue
            ko = ex.obj(state, key)
            for fld, sel in (("originator_box", is_orig.t), ("responder_box", z3.Not(is_orig.t))):
                for g_b, box in alts_of(ko.fields[fld]):
                    if isinstance(box, VRef):
                        cands.append(z3.And(g_k, g_b, sel, open_ok_f(ex.obj(state, box).fields["id"].t, ct.t)))
        return VBool(z3.Or(*cands) if cands else z3.BoolVal(False))
    reg.native_spec("exists_box_opened", sym_exists_box_opened)

    def sym_role_box(ex, state, kr, is_orig, bid):
        """bid is the id of a box of this side's role: the originator box of the covering (or default) key for an
        originator, the responder box for a responder"""
        g = state.heap[state.ghost.oid]
        ring = ex.obj(state, kr)
        cands = []
        for g_k, key in alts_of(g.fields["trie_key"]) + alts_of(ring.fields["_default_key"]):
            if not isinstance(key, VRef):
                continue
            ko = ex.obj(state, key)
            for fld, sel in (("originator_box", is_orig.t), ("responder_box", z3.Not(is_orig.t))):
                for g_b, box in alts_of(ko.fields[fld]):
                    if isinstance(box, VRef):
                        cands.append(z3.And(g_k, g_b, sel, ex.obj(state, box).fields["id"].t == ex.num(bid)))
        return VBool(z3.Or(*cands) if cands else z3.BoolVal(False))
    reg.native_spec("role_box", sym_role_box)
    reg.native_spec("utf8dec", lambda ex, state, b: VStr(natives.utf8_decode_f(b.t)))
    reg.native_spec("json_uri", lambda ex, state, t: VStr(js_uri_f(t.t)))
    reg.native_spec("json_args", lambda ex, state, t: VInt(js_args_f(t.t)))
    reg.native_spec("json_kwargs", lambda ex, state, t: VInt(js_kwargs_f(t.t)))
    reg.native_spec("utf8", lambda ex, state, s: VBytes(natives.utf8_encode_f(s.t)))
    # ---- which box: the key stored under the longest matching URI prefix, else the default key, else none;
    #      originators use the originator box, responders the responder box
    KEY = "(ghost.trie_key if %s else self._default_key)"
    reg.contract(
        CB + ":KeyRing._get_box", params={"self": "obj:KeyRing", "is_originating": "bool", "uri": "str",
                                          "match_exact": "bool"}, returns="opt:obj:BoxObj",
        ensures=["result is None or result is ghost.trie_key.originator_box or result is ghost.trie_key.responder_box or "
                 "(self._default_key is not None and (result is self._default_key.originator_box or "
                 "result is self._default_key.responder_box))",
                 "implies(result is not None and is_originating, result is ghost.trie_key.originator_box or "
                 "(self._default_key is not None and result is self._default_key.originator_box))",
                 "implies(result is not None and not is_originating, result is ghost.trie_key.responder_box or "
                 "(self._default_key is not None and result is self._default_key.responder_box))"],
        **common)

    BOXSEL = ("(result_box is ghost.trie_key.%s_box or (self._default_key is not None and "
              "result_box is self._default_key.%s_box))")
    # ---- encode: None exactly when no key covers the URI; otherwise only the sealed JSON object leaves, sealed with the
    #      box of this side's role, tagged cryptobox/json
    reg.contract(
        CB + ":KeyRing.encode",
        params={"self": "obj:KeyRing", "is_originating": "bool", "uri": "str", "args": "opt:list:int",
                "kwargs": "opt:dict:str->int"}, returns="opt:obj:EncPayload",
        modifies=["ghost.used_box", "ghost.last_nonce"],
        ensures=[
            "implies(result is not None, result.enc_algo == 'cryptobox' and result.enc_serializer == 'json' and "
            "result.enc_key is None)",
            "implies(result is not None, result.payload == seal(ghost.used_box, utf8(js(uri, args, kwargs)), "
            "ghost.last_nonce))",
            # the box of the right direction: originators seal with an originator box, responders with a responder box
            "implies(result is not None, role_box(self, is_originating, ghost.used_box))",
            "implies(result is None, ghost.used_box == old(ghost.used_box))"],
        # text that UTF-8 cannot encode (a lone surrogate in the URI or the arguments) is an error to the caller
        raises={"UnicodeEncodeError": "True"},
        inline_calls=[CB + ":KeyRing._get_box"], **common)
    # ---- decode: returns only what opened (authenticated) under this side's box and was tagged json; everything else
    #      raises -- nothing is ever returned from a payload that did not open
    reg.contract(
        CB + ":KeyRing.decode",
        params={"self": "obj:KeyRing", "is_originating": "bool", "uri": "str", "encoded_payload": "obj:EncPayload"},
        returns="tuple:opt:str,opt:int,opt:int",
        requires=["encoded_payload.enc_algo == 'cryptobox'"],
        modifies=["ghost.used_box"],
        ensures=[
            "encoded_payload.enc_serializer == 'json'",
            "exists_box_opened(self, is_originating, encoded_payload.payload)",
            "open_ok(ghost.used_box, encoded_payload.payload) and role_box(self, is_originating, ghost.used_box)",
            # what is returned is read from the opened JSON object, nothing else
            "result[0] is None or result[0] == json_uri(utf8dec(opened(ghost.used_box, encoded_payload.payload)))",
            "(0 if result[1] is None else result[1]) == json_args(utf8dec(opened(ghost.used_box, encoded_payload.payload)))",
            "(0 if result[2] is None else result[2]) == json_kwargs(utf8dec(opened(ghost.used_box, encoded_payload.payload)))"],
        raises={"Exception+": "True"}, inline_calls=[CB + ":KeyRing._get_box"], **common)

    build_session(reg)


# ============================================================================================ session level
def _gs(state):
    return state.heap[state.ghost.oid]


def ext_codec_decode(ex, state, args, kwargs, sv):
    """IPayloadCodec.decode(is_originating, uri, encoded_payload): raises (bad key, tampered ciphertext, ...) or returns
    (uri inside the sealed payload, args, kwargs).  Ghost: whether this decode is one the session may act on -- it
    returned *and* the sealed URI equals the envelope URI it was called with"""
    from pyvc import models
    g = _gs(state)
    g.fields["n_decode"] = VInt(simp(g.fields["n_decode"].t + 1))
    g.fields["last_is_orig"] = args[0]
    b = z3.Bool(fresh_name("decode_raises"))
    rs = state.copy()
    rs.pending = []
    rs.assume(b)
    rg = rs.heap[rs.ghost.oid]
    rg.fields["n_bad"] = VInt(simp(rg.fields["n_bad"].t + 1))
    state.pending.append((rs, ex.mk_exc(rs, "Exception", exact=False)))
    state.assume(z3.Not(b))
    du = z3.String(fresh_name("sealed_uri"))
    du_none = z3.Bool(fresh_name("sealed_uri_none"))
    uri = args[1]
    match = z3.And(z3.Not(du_none), simp(disj([z3.And(gu, a.t == du) for gu, a in alts_of(uri) if isinstance(a, VStr)])))
    g.fields["n_ok"] = VInt(simp(z3.If(match, g.fields["n_ok"].t + 1, g.fields["n_ok"].t)))
    g.fields["n_bad"] = VInt(simp(z3.If(match, g.fields["n_bad"].t, g.fields["n_bad"].t + 1)))
    if is_true(simp(g.fields["no_sealed_args"].t)) or ex.prove_quick(state, g.fields["no_sealed_args"].t):
        dargs = VNone       # units that do not model positional event arguments
    else:
        dargs = ex.reg.fresh(ex, state, "opt:list:int", "sealed_args")
    dkw = ex.reg.fresh(ex, state, "opt:dict:str->int", "sealed_kwargs")
    g.fields["dec_args"], g.fields["dec_kwargs"] = dargs, dkw
    return VTuple([mk_union([(du_none, VNone), (z3.Not(du_none), VStr(du))]), dargs, dkw])


def ext_codec_encode(ex, state, args, kwargs, sv):
    g = _gs(state)
    g.fields["n_encode"] = VInt(simp(g.fields["n_encode"].t + 1))
    g.fields["last_is_orig"] = args[0]
    b = z3.Bool(fresh_name("encode_none"))
    ep = ex.reg.fresh_obj(ex, state, "EncPayload", "sealed")
    g.fields["sealed"] = ex.getattr_(state, ep, "payload")
    return mk_union([(b, VNone), (z3.Not(b), ep)])


def build_session(reg):
    from . import wamp_common as W
    from .wamp_common import SESS, PR
    from . import c18
    W.build_shapes(reg)
    W.install_message_models(reg)
    common = dict(props=["C20"], spec_module="specs.wamp")
    MSG = "autobahn.wamp.message"
    BASE = PR + ":BaseSession"
    reg.shapes["Ghost"].fields.update({"trie_key": "obj:KeyObj", "used_box": "int", "last_nonce": "bytes"})
    reg.shapes["Ghost"].fields.update({
        "n_decode": "nat", "n_ok": "nat", "n_bad": "nat", "n_encode": "nat", "last_is_orig": "bool", "sealed": "bytes",
        "dec_args": "any", "dec_kwargs": "any", "n_constructed": "nat", "n_attempted": "nat", "invoked": "list:int",
        "no_sealed_args": "bool"})
    reg.external("codec.decode", ext_codec_decode)
    reg.external("codec.encode", ext_codec_encode)
    reg.shape("Codec", fields={}, methods={"decode": "codec.decode", "encode": "codec.encode"})
    reg.shapes["Session"].fields.update({"_payload_codec": "opt:obj:Codec", "_ecls_to_uri_pat": "dict:int->seq:sym:Pattern",
                                         "_uri_to_ecls": "dict:str->int", "traceback_app": "bool"})
    reg.shapes["Session"].methods.update({"onUserError": "noop"})
    reg.external("noop", lambda ex, state, args, kwargs, sv: VNone)
    reg.external("txaio.create_failure", lambda ex, state, args, kwargs, sv: VOpaque(fresh_name("failure")))
    reg.shape("Pattern", cls="autobahn.wamp.uri:Pattern", fields={"_uri": "str"})
    reg.external("call:int", c18.ext_construct)
    reg.shape("RegExc", fields={"__class__": "int", "ctor_args": "any", "ctor_kwargs": "any"})
    reg.shapes["RegExc"].open_attrs = True      # an instance of a user's exception class: any further attribute may exist
    reg.inline.add("autobahn.wamp.exception:ApplicationError.__init__")
    reg.native_spec("same_seq", lambda ex, state, a, b: VBool(c18._seq_of(ex, state, a) == c18._seq_of(ex, state, b)))
    # ---- an encrypted ERROR on the caller side: only an ERROR that decrypts under the caller's (originator) box and
    #      whose sealed URI equals the envelope URI is turned into the application's exception; everything else surfaces
    #      as an explicit encryption error, never as altered payload
    reg.shape("ErrorEnc", cls=MSG + ":Error", fields={
        "request_type": "int", "request": "int", "error": "str", "args": "opt:list:int", "kwargs": "opt:dict:str->int",
        "payload": "bytes", "enc_algo": "str", "enc_key": "opt:str", "enc_serializer": "opt:str", "callee": "any",
        "callee_authid": "any", "callee_authrole": "any", "forward_for": "any"})
    ENC_ERRS = ("(result.error == ApplicationError.ENC_NO_PAYLOAD_CODEC or result.error == ApplicationError.ENC_DECRYPT_ERROR "
                "or result.error == ApplicationError.ENC_TRUSTED_URI_MISMATCH)")
    reg.contract(
        BASE + "._exception_from_message", name=BASE + "._exception_from_message<encrypted>",
        params={"self": "obj:Session", "msg": "obj:ErrorEnc"}, returns="any",
        requires=["len(msg.enc_algo) > 0", "msg.args is None and msg.kwargs is None"],
        modifies=["msg.args", "msg.kwargs", "ghost.n_decode", "ghost.n_ok", "ghost.n_bad", "ghost.last_is_orig",
                  "ghost.dec_args", "ghost.dec_kwargs", "ghost.n_attempted", "ghost.n_constructed"],
        ensures=[
            # without a decode that opened and names the envelope's URI, only an encryption error surfaces
            "implies(ghost.n_ok == old(ghost.n_ok), isinstance(result, ApplicationError) and %s and "
            "ghost.n_attempted == old(ghost.n_attempted))" % ENC_ERRS,
            "implies(self._payload_codec is None, result.error == ApplicationError.ENC_NO_PAYLOAD_CODEC and "
            "ghost.n_decode == old(ghost.n_decode))",
            # the caller decrypts as originator, once, with the envelope URI
            "implies(self._payload_codec is not None, ghost.n_decode == old(ghost.n_decode) + 1 and ghost.last_is_orig)",
            # a good decode: the application's exception is built from the *decrypted* arguments
            "implies(ghost.n_ok > old(ghost.n_ok) and isinstance(result, ApplicationError), result.error == msg.error and "
            "same_seq(result.args, ghost.dec_args))"],
        **common)
    # ---- an error raised by an endpoint while a codec is active: what goes on the wire is the sealed payload only
    reg.shape("AppErrIn", cls="autobahn.wamp.exception:ApplicationError",
              fields={"error": "str", "args": "list:int", "kwargs": "opt:dict:str->int", "__class__": "int"})
    reg.shape("ErrorOut", cls=MSG + ":Error", fields={"request_type": "int", "request": "int", "error": "str",
                                                      "args": "any", "kwargs": "any", "payload": "any", "enc_algo": "any"})
    reg.contract(
        BASE + "._message_from_exception", name=BASE + "._message_from_exception<codec active>",
        params={"self": "obj:Session", "request_type": "int", "request": "int", "exc": "obj:AppErrIn", "tb": "none",
                "enc_algo": "none"}, returns="obj:ErrorOut",
        requires=["self._payload_codec is not None"],
        modifies=["ghost.n_encode", "ghost.last_is_orig", "ghost.sealed", "EncPayload.*"],
        ensures=["ghost.n_encode == old(ghost.n_encode) + 1 and not ghost.last_is_orig",
                 # sealed: the ERROR carries the ciphertext and no clear arguments
                 "implies(result.payload is not None, result.payload == ghost.sealed and result.args is None and "
                 "result.kwargs is None and result.enc_algo is not None)",
                 "result.error == exc.error and result.request == request"],
        **common)

    # ---- an encrypted EVENT: a handler runs only after a decode (as responder, with the envelope topic) that opened and
    #      names that topic, and it is handed the *decrypted* keyword arguments; otherwise nothing runs
    from . import c11

    def ext_as_future(ex, state, args, kwargs, sv):
        from pyvc import models
        g = _gs(state)
        sub = ex.lookup(state, "subscription")
        handler = ex.lookup(state, "handler")
        models.list_append(ex, state, [VInt(sub.t)], {}, g.fields["invoked"])
        kw = kwargs.get("**")
        da = ex.getattr_(state, handler, "details_arg")
        k = z3.String(fresh_name("kwkey"))
        passed = c11._has_key(ex, state, kw, k)
        sealed = c11._has_key(ex, state, g.fields["dec_kwargs"], k)
        own = simp(disj([z3.And(gd, a.t == k, z3.Length(a.t) > 0) for gd, a in alts_of(da) if isinstance(a, VStr)]))
        ex.oblige("handler-kwargs", state, passed == z3.Or(sealed, own),
                  info={"clause": "kwargs handed to the handler == decrypted kwargs (+ this handler's details argument)"})
        return VOpaque(fresh_name("handler_future"))
    reg.external("txaio.as_future", ext_as_future)
    reg.external("txaio.add_callbacks", lambda ex, state, args, kwargs, sv: VNone)
    from pyvc import models
    models.CLASS_MODELS["EventDetails"] = lambda ex, state, args, kwargs: VInt(z3.Int(fresh_name("event_details")))
    reg.shapes["HandlerRec"].fields.update({"fn": "any", "obj": "opt:int", "details_arg": "opt:str"})
    reg.shape("EventEnc", cls=MSG + ":Event", fields={
        "subscription": "int", "publication": "int", "args": "opt:list:int", "kwargs": "opt:dict:str->int",
        "payload": "bytes", "publisher": "any", "publisher_authid": "any", "publisher_authrole": "any", "topic": "opt:str",
        "retained": "any", "transaction_hash": "any", "x_acknowledged_delivery": "any", "enc_algo": "str",
        "enc_key": "opt:str", "enc_serializer": "opt:str", "forward_for": "any"})
    SUBS = "self._subscriptions[msg.subscription]"
    reg.contract(
        SESS + ".onMessage", name=SESS + ".onMessage<Event,encrypted>",
        params={"self": "obj:Session", "msg": "obj:EventEnc"},
        requires=["self._session_id is not None", "len(msg.enc_algo) > 0", "ghost.no_sealed_args"],
        modifies=["ghost.invoked", "msg.args", "msg.kwargs", "ghost.n_decode", "ghost.n_ok", "ghost.n_bad",
                  "ghost.last_is_orig", "ghost.dec_args", "ghost.dec_kwargs"],
        ensures=[
            # one handler invocation per decode that opened and names the envelope topic -- never more
            "len(ghost.invoked) - old(len(ghost.invoked)) == ghost.n_ok - old(ghost.n_ok)",
            # the first decode that fails (wrong key, tampering, URI mismatch) ends the dispatch
            "ghost.n_bad <= old(ghost.n_bad) + 1",
            "implies(self._payload_codec is None, len(ghost.invoked) == old(len(ghost.invoked)) and "
            "ghost.n_decode == old(ghost.n_decode))",
            "implies(ghost.n_decode > old(ghost.n_decode), not ghost.last_is_orig)"],
        raises={"ProtocolError": "msg.subscription not in self._subscriptions"},
        raises_ensures={"ProtocolError": ["len(ghost.invoked) == old(len(ghost.invoked))"]},
        loops=c11._both_headers({"index": "_i", "invariant": [
            "0 <= _i <= old(len(%s)) and msg.subscription in self._subscriptions" % SUBS,
            "len(ghost.invoked) - old(len(ghost.invoked)) == ghost.n_ok - old(ghost.n_ok)",
            "ghost.n_bad == old(ghost.n_bad) and ghost.no_sealed_args",
            "implies(self._payload_codec is None, ghost.n_decode == old(ghost.n_decode) and ghost.n_ok == old(ghost.n_ok))",
            "implies(ghost.n_decode > old(ghost.n_decode), not ghost.last_is_orig)"],
            "modifies": ["ghost.invoked", "msg.args", "msg.kwargs", "ghost.n_decode", "ghost.n_ok", "ghost.n_bad",
                         "ghost.last_is_orig", "ghost.dec_args", "ghost.dec_kwargs"],
            "vars": {"subscription": "sym:Subscription", "handler": "sym:HandlerRec"}}),
        **common)

    # ---- an encrypted RESULT on the caller side: the call completes successfully only after one decode, as originator and
    #      with the procedure of *this* call, that opened and names that procedure; otherwise it is rejected with one of the
    #      three explicit encryption errors and the progress handler is not run
    from . import c04
    event_as_future = reg.externals["txaio.as_future"]

    def as_future(ex, state, args, kwargs, sv):
        if state.frame.locals.get("call_request") is not None:
            return c04._as_future(ex, state, args)          # the progress handler of a call
        return event_as_future(ex, state, args, kwargs, sv)
    reg.external("txaio.as_future", as_future)
    models.CLASS_MODELS["CallResult"] = lambda ex, state, args, kwargs: VOpaque(fresh_name("CallResult"))
    reg.shape("ResultEnc", cls=MSG + ":Result", fields={
        "request": "int", "args": "opt:list:int", "kwargs": "opt:dict:str->int", "progress": "bool", "payload": "bytes",
        "enc_algo": "str", "enc_key": "opt:str", "enc_serializer": "opt:str", "callee": "any", "callee_authid": "any",
        "callee_authrole": "any", "forward_for": "any"})
    T = "self._call_reqs"
    F = "old(%s[msg.request].on_reply.addr)" % T
    reg.contract(
        SESS + ".onMessage", name=SESS + ".onMessage<Result,encrypted>",
        params={"self": "obj:Session", "msg": "obj:ResultEnc"},
        requires=["self._session_id is not None", "len(msg.enc_algo) > 0", "msg.args is None and msg.kwargs is None",
                  "implies(msg.request in %s, allocated(%s[msg.request].on_reply) and %s[msg.request].request_id == msg.request)"
                  % (T, T, T)],
        modifies=[T, "Fut.done", "Fut.ok", "Fut.res_id", "ghost.n_completions", "ghost.n_progress", "ghost.last_progress_req",
                  "msg.args", "msg.kwargs", "ghost.n_decode", "ghost.n_ok", "ghost.n_bad", "ghost.last_is_orig", "ghost.dec_args",
                  "ghost.dec_kwargs"],
        ensures=[
            # at most one decode, as originator
            "ghost.n_decode <= old(ghost.n_decode) + 1 and implies(ghost.n_decode > old(ghost.n_decode), ghost.last_is_orig)",
            "implies(self._payload_codec is None, ghost.n_decode == old(ghost.n_decode))",
            # a call is resolved (successfully) only by a decode that opened and names the procedure
            "implies(not msg.progress and not old(fut_done(%s[msg.request].on_reply.addr)), fut_done(%s) and "
            "(fut_ok(%s) == (ghost.n_ok == old(ghost.n_ok) + 1)))" % (T, F, F),
            # a progressive result reaches the progress handler only after such a decode
            "implies(msg.progress and ghost.n_ok == old(ghost.n_ok), ghost.n_progress == old(ghost.n_progress))",
            "implies(msg.progress, ghost.n_completions == old(ghost.n_completions))"],
        raises={"ProtocolError": "msg.request not in %s" % T},
        raises_ensures={"ProtocolError": ["ghost.n_completions == old(ghost.n_completions) and ghost.n_decode == old(ghost.n_decode)"]},
        **common)

    # ---- an encrypted INVOCATION on the callee side: the endpoint runs only after one decode, as responder and with the
    #      invoked procedure, that opened and names that procedure; otherwise the endpoint is not run and exactly one
    #      ERROR(INVOCATION) for this request goes back
    from .wamp_common import RQ
    reg.shapes["Session"].fields.update({"_invocations": "dict:int->sym:InvocationRequest"})
    reg.shape("InvocationRequest", cls=RQ + ":InvocationRequest", heap_base="Request",
              fields={"request_id": "int", "on_reply": "sym:Fut"})
    reg.record_class(RQ + ":InvocationRequest", "InvocationRequest")
    reg.shapes["Ghost"].fields.update({"n_endpoint_calls": "nat"})
    progress_as_future = reg.externals["txaio.as_future"]

    def as_future2(ex, state, args, kwargs, sv):
        if state.frame.locals.get("endpoint") is not None:
            g = _gs(state)
            g.fields["n_endpoint_calls"] = VInt(simp(g.fields["n_endpoint_calls"].t + 1))
            return W.ext_create_future(ex, state, [], {}, None)
        return progress_as_future(ex, state, args, kwargs, sv)
    reg.external("txaio.as_future", as_future2)
    models.CLASS_MODELS["CallDetails"] = lambda ex, state, args, kwargs: VInt(z3.Int(fresh_name("call_details")))
    reg.shape("InvocationEnc", cls=MSG + ":Invocation", fields={
        "request": "int", "registration": "int", "args": "opt:list:int", "kwargs": "opt:dict:str->int", "payload": "bytes",
        "timeout": "any", "receive_progress": "bool", "caller": "any", "caller_authid": "any", "caller_authrole": "any",
        "procedure": "opt:str", "transaction_hash": "any", "enc_algo": "str", "enc_key": "opt:str", "enc_serializer": "opt:str",
        "forward_for": "any"})
    reg.shape("ErrorReply", cls=MSG + ":Error", fields={"request_type": "int", "request": "int", "error": "str",
                                                        "args": "any", "kwargs": "any", "payload": "any", "enc_algo": "any"})
    # the ERROR built for an encryption error: request type and id as given (the function itself is under contract above
    # for the codec-active case; here only its interface is used)
    iface = reg.contract(BASE + "._message_from_exception", name=BASE + "._message_from_exception<interface>",
                 params={"self": "obj:Session", "request_type": "int", "request": "int", "exc": "any", "tb": "any",
                         "enc_algo": "any"},
                 returns="obj:ErrorReply", ensures=["result.request_type == request_type and result.request == request"],
                 verify=False, **common)
    reg.contracts[BASE + "._message_from_exception"] = iface       # what call sites see
    reg.contract(
        SESS + ".onMessage", name=SESS + ".onMessage<Invocation,encrypted>",
        params={"self": "obj:Session", "msg": "obj:InvocationEnc"},
        requires=["self._session_id is not None", "self._transport is not None", "len(msg.enc_algo) > 0",
                  "msg.args is None and msg.kwargs is None", "ghost.no_sealed_args"],
        modifies=["self._invocations", "InvocationRequest.*", "Request.*", "Fut.*", "ghost.n_endpoint_calls", "ghost.n_sent",
                  "ghost.last_sent", "msg.args", "msg.kwargs", "ghost.n_decode", "ghost.n_ok", "ghost.n_bad",
                  "ghost.last_is_orig", "ghost.dec_args", "ghost.dec_kwargs", "ghost.n_encode", "ghost.sealed", "EncPayload.*"],
        ensures=[
            "ghost.n_decode <= old(ghost.n_decode) + 1 and implies(ghost.n_decode > old(ghost.n_decode), not ghost.last_is_orig)",
            # the endpoint runs exactly when a decode opened and names the procedure ...
            "ghost.n_endpoint_calls - old(ghost.n_endpoint_calls) == ghost.n_ok - old(ghost.n_ok)",
            # ... and otherwise exactly one ERROR for this invocation goes back, and no invocation is recorded
            "implies(ghost.n_ok == old(ghost.n_ok), ghost.n_sent == old(ghost.n_sent) + 1 and isinstance(ghost.last_sent, Error) "
            "and ghost.last_sent.request == msg.request and ghost.last_sent.request_type == 68 and "
            "msg.request not in self._invocations)",
            "implies(ghost.n_ok > old(ghost.n_ok), ghost.n_sent == old(ghost.n_sent) and msg.request in self._invocations)"],
        raises={"ProtocolError": "msg.request in self._invocations or msg.registration not in self._registrations",
                "TransportLost": "True", "SerializationError": "True", "PayloadExceededError": "True"},
        raises_ensures={"ProtocolError": ["ghost.n_endpoint_calls == old(ghost.n_endpoint_calls) and "
                                          "ghost.n_sent == old(ghost.n_sent) and ghost.n_decode == old(ghost.n_decode)"],
                        "*": ["ghost.n_endpoint_calls == old(ghost.n_endpoint_calls)"]},
        **common)


    # ---- the answer to an encrypted call (success continuation of the INVOCATION arm): the result goes back sealed, or the
    #      caller gets an ERROR that does not carry it -- whatever the codec does (returns nothing, raises), never in the clear
    def ext_encode_may_raise(ex, state, args, kwargs, sv):
        ex.raise_if(state, z3.Bool(fresh_name("encode_raises")), "Exception")
        return ext_codec_encode(ex, state, args, kwargs, sv)
    reg.external("codec.encode_may_raise", ext_encode_may_raise)
    reg.shape("CodecR", fields={}, methods={"decode": "codec.decode", "encode": "codec.encode_may_raise"})
    reg.shape("SessionR", cls=SESS, fields=dict(reg.shapes["Session"].fields, _payload_codec="opt:obj:CodecR"),
              methods=dict(reg.shapes["Session"].methods))
    CLEAR_FREE = ("implies(isinstance(ghost.last_sent, Yield), ghost.last_sent.payload == ghost.sealed and "
                  "ghost.last_sent.args is None and ghost.last_sent.kwargs is None and ghost.last_sent.enc_algo is not None)")
    reg.contract(
        SESS + ".onMessage/success@message.Invocation", name=SESS + ".onMessage/success@message.Invocation<encrypted>",
        params={"self": "obj:SessionR", "msg": "obj:InvocationEnc", "registration": "sym:Registration", "proc": "opt:str",
                "res": "int"},
        requires=["self._transport is not None", "msg.request in self._invocations", "len(msg.enc_algo) > 0"],
        modifies=["self._invocations", "ghost.n_sent", "ghost.last_sent", "ghost.n_encode", "ghost.last_is_orig", "ghost.sealed",
                  "EncPayload.*"],
        ensures=["ghost.n_sent == old(ghost.n_sent) + 1", "msg.request not in self._invocations",
                 "(isinstance(ghost.last_sent, Yield) or isinstance(ghost.last_sent, Error)) and "
                 "ghost.last_sent.request == msg.request",
                 CLEAR_FREE,
                 # an ERROR answer names the invocation and does not carry the result
                 "implies(isinstance(ghost.last_sent, Error), ghost.last_sent.request_type == 68 and "
                 "ghost.last_sent.kwargs is None)"],
        raises={"TransportLost": "True", "SerializationError": "True", "PayloadExceededError": "True"},
        raises_ensures={"*": ["msg.request not in self._invocations"]}, **common)


    # ---- the originating side: publish() / call() with a keyring active seal the payload once, as originator, under the
    #      request's URI; what is handed to the transport then carries the sealed payload and no clear arguments.  (When no
    #      key covers the URI the codec returns nothing and the request travels unencrypted: the keyring's documented policy.)
    reg.contract("autobahn.wamp.message:check_or_raise_uri",
                 params={"value": "any", "message": "any", "strict": "bool", "allow_empty_components": "bool",
                         "allow_last_empty": "bool", "allow_none": "bool"},
                 returns="any", raises={"InvalidUriError": "True"}, verify=False, props=["C08"], spec_module="specs.wamp")
    reg.external("txaio.create_future", lambda ex, state, args, kwargs, sv: W.ext_create_future(ex, state, [], {}, None))
    for api, cls, uri in (("publish", "Publish", "topic"), ("call", "Call", "procedure")):
        reg.contract(
            SESS + "." + api, name=SESS + ".%s[encrypted]" % api,
            params={"self": "obj:SessionR", uri: "str", "args": "any", "kwargs": "cdict:options=none"}, returns="any",
            requires=["self._transport is not None", "self._payload_codec is not None",
                      "0 <= self._request_id_gen._next and self._request_id_gen._next < 2**53"],
            modifies=["self._call_reqs", "self._publish_reqs", "CallRequest.*", "Request.*", "Fut.*", "ghost.n_sent",
                      "ghost.last_sent", "self._request_id_gen._next", "kwargs", "ghost.n_encode", "ghost.last_is_orig",
                      "ghost.sealed", "EncPayload.*"],
            ensures=["ghost.n_sent == old(ghost.n_sent) + 1 and isinstance(ghost.last_sent, %s) and ghost.last_sent.%s == %s"
                     % (cls, uri, uri),
                     "ghost.n_encode == old(ghost.n_encode) + 1 and ghost.last_is_orig",
                     # sealed: the ciphertext and nothing in the clear
                     "implies(ghost.last_sent.payload is not None, ghost.last_sent.payload == ghost.sealed and "
                     "ghost.last_sent.args is None and ghost.last_sent.kwargs is None and ghost.last_sent.enc_algo is not None)",
                     "implies(ghost.last_sent.payload is None, ghost.last_sent.enc_algo is None)"],
            raises={"SerializationError": "True", "PayloadExceededError": "True", "TransportLost": "True",
                    "AssertionError": "True", "InvalidUriError": "True", "Exception": "True"},
            # a codec that fails means the request is not sent at all
            raises_ensures={"*": ["ghost.n_sent == old(ghost.n_sent)"]}, **common)


def extra_checks(tier, seed):
    if tier != "thorough":
        return []
    from pyvc import replaylib as Rp
    return [Rp.native_crosscheck("C20/bounded/session-arms-real-nacl", _SESSION_HARNESS,
                                 "EVENT / INVOCATION / RESULT arms x valid, tampered, wrong-key, foreign-URI payloads x codec on / off, "
                                 "real sessions and keyrings"),
            Rp.native_crosscheck("C20/bounded/keyring-real-nacl", _HARNESS,
                                 "three payloads x round trip, wrong key, every single-octet tampering position sampled by the "
                                 "harness, serializer tag, uncovered URI -- with freshly generated NaCl keys")]


# ------------------------------------------------------------------------------------------ replay on the real code
_HARNESS = r'''
import json
from autobahn.wamp import cryptobox as CB
from autobahn.wamp.types import EncodedPayload
bad = []
kr0 = CB.KeyRing()
a_priv, a_pub = kr0.generate_key()      # originator
b_priv, b_pub = kr0.generate_key()      # responder
orig = CB.KeyRing(); orig.set_key("com.", CB.Key(originator_priv=a_priv, responder_pub=b_pub))
resp = CB.KeyRing(); resp.set_key("com.", CB.Key(originator_pub=a_pub, responder_priv=b_priv))
other = CB.KeyRing(); c_priv, c_pub = kr0.generate_key(); other.set_key("com.", CB.Key(originator_pub=a_pub, responder_priv=c_priv))
for uri, args, kwargs in (("com.x", [1, "two"], {"k": 3}), ("com.y.z", None, None), ("com.x", [], {})):
    ep = orig.encode(True, uri, args, kwargs)
    if ep is None or ep.enc_algo != "cryptobox" or ep.enc_serializer != "json":
        bad.append({"what": "encode result", "uri": uri}); continue
    if b"two" in ep.payload or uri.encode() in ep.payload:
        bad.append({"what": "clear text in the sealed payload", "uri": uri})
    try:
        got = resp.decode(False, uri, ep)
        if got != (uri, args, kwargs):
            bad.append({"what": "round trip", "uri": uri, "got": repr(got)})
    except Exception as e:
        bad.append({"what": "responder cannot open what the originator sealed", "uri": uri, "error": repr(e)})
    for label, ring, flag, payload in (("wrong key", other, False, ep.payload),
                                       ("tampered", resp, False, ep.payload[:-1] + bytes([ep.payload[-1] ^ 1]))):
        try:
            ring.decode(flag, uri, EncodedPayload(payload, "cryptobox", "json"))
            bad.append({"what": "%s payload was accepted" % label, "uri": uri})
        except Exception:
            pass
    try:
        resp.decode(False, uri, EncodedPayload(ep.payload, "cryptobox", "msgpack"))
        bad.append({"what": "foreign serializer tag accepted", "uri": uri})
    except Exception:
        pass
if orig.encode(True, "org.uncovered", [1], None) is not None:
    bad.append({"what": "payload sealed although no key covers the URI"})
# key provisioning histories: the key looked up is the one stored *now* under the longest stored prefix of the URI --
# whatever was looked up before a key was set, replaced or set for a longer / shorter prefix
d_priv, d_pub = kr0.generate_key(); e_priv, e_pub = kr0.generate_key()
K1 = (CB.Key(originator_priv=a_priv, responder_pub=b_pub), CB.Key(originator_pub=a_pub, responder_priv=b_priv))
K2 = (CB.Key(originator_priv=d_priv, responder_pub=e_pub), CB.Key(originator_pub=d_pub, responder_priv=e_priv))
def opens(rkey, prefix, uri, ep):
    r = CB.KeyRing(); r.set_key(prefix, rkey)
    try:
        return r.decode(False, uri, ep) == (uri, [1, "two"], {"k": 3})
    except Exception:
        return False
URIS = ("com.myapp.topic1", "com.myapp.proc1", "com.other")
for first_use in (True, False):
    for steps in ([("com.myapp.", K1)], [("com.", K1), ("com.myapp.", K2)], [("com.myapp.", K1), ("com.myapp.", K2)],
                  [("com.myapp.topic1", K1), ("com.", K2)], [("", K1), ("com.myapp.", K2)]):
        ring = CB.KeyRing()
        stored = {}
        if first_use:
            for u in URIS:
                if ring.encode(True, u, [1, "two"], {"k": 3}) is not None:
                    bad.append({"what": "payload sealed by an empty keyring", "uri": u})
        for prefix, pair in steps:
            ring.set_key(prefix, pair[0]); stored[prefix] = pair
            for u in URIS:
                cover = [p for p in stored if u.startswith(p)]
                ep = ring.encode(True, u, [1, "two"], {"k": 3})
                case = {"used_before_keys_were_set": first_use, "set_key": [p for p, _ in steps[:steps.index((prefix, pair)) + 1]], "uri": u}
                if not cover:
                    if ep is not None: bad.append(dict(case, what="payload sealed although no stored prefix covers the URI"))
                    continue
                want = stored[max(cover, key=len)]
                if ep is None:
                    bad.append(dict(case, what="payload NOT sealed (travels in the clear) although a key covers the URI")); continue
                if not opens(want[1], max(cover, key=len), u, ep):
                    bad.append(dict(case, what="sealed with a key other than the one stored under the longest matching prefix"))
print(json.dumps({"bad": bad[:6]}))
'''


import os as _os
_SESSION_HARNESS = open(_os.path.join(_os.path.dirname(_os.path.abspath(__file__)), "c20_session_harness.py.txt")).read()


def replay(o):
    from pyvc import replaylib as Rp
    unit = o.get("unit") or o.get("name", "")
    if "onMessage<" in unit or "_exception_from_message" in unit:
        # the session's encrypted arms: real sessions with real NaCl keyrings; valid / tampered / wrong-key / sealed-for-
        # another-URI payloads through the EVENT, INVOCATION and RESULT arms, with and without a codec
        out = Rp.run_py(_SESSION_HARNESS, timeout=180)
        arm = "EVENT" if "Event" in unit else "INVOCATION" if "Invocation" in unit else "RESULT" if "Result" in unit else None
        hits = [b for b in (out.get("bad") or []) if arm is None or b.get("case", {}).get("arm") == arm] if isinstance(out, dict) else None
        return {"reproduced": bool(hits), "cases": (hits or [])[:3], "observed": None if hits else out,
                "detail": "real sessions and keyrings: valid, tampered, wrong-key and foreign-URI payloads through the encrypted arms"}
    if "KeyRing" not in unit:
        return {"reproduced": False, "detail": "no replay harness for this unit"}
    out = Rp.run_py(_HARNESS, timeout=120)
    hits = out.get("bad") if isinstance(out, dict) else None
    return {"reproduced": bool(hits), "cases": (hits or [])[:3], "observed": None if hits else out,
            "detail": "real KeyRing objects with freshly generated NaCl keys: round trip, wrong key, tampering, serializer "
                      "tag, uncovered URI (finds real failing inputs only; proves nothing)"}
