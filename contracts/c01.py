"""C01 — WebSocket messages arrive intact, exactly once and in order.

The message / frame-event level (sendMessage emits a well-formed frame sequence carrying exactly the payload; header
decision; reassembly and single delivery) lives in ws_units.py, shared with C02 C05 C16.  This file ties that level to
the octets: what sendFrame really writes, how the payload arm of processData consumes and unmasks octets under any
read boundary, the FIFO discipline of the chopped / synchronous write queue, and the codec lemma (decoding an encoded
header gives back the frame).
"""
import z3

from pyvc.values import *  # noqa
from pyvc.engine import HObj
from . import ws_units, ws_common
from .ws_common import WSP, P
from .ws_units import S, INV

ASSUMPTIONS = list(ws_common.ASSUMPTIONS) + [
    "collections.deque.append / popleft are FIFO (the write queue is modelled by its concatenated content and the "
    "list of chunk lengths)",
    "transport.write appends the octets to the wire and is total",
    "random.getrandbits(32) returns an arbitrary 32-bit number (the masking key is arbitrary, not necessarily random)",
    "xormask(data, key, ptr) is the masker interface proved for every implementation under C15 (pointwise XOR with the "
    "key repeated from the running offset; involution and chunk independence are C15 lemmas)",
]
LEVEL = "other"
NOT_COVERED = [
    "the stream-level induction (any segmentation of a well-formed frame sequence is decoded to the same frames) is "
    "the standard argument over the per-call contracts of processData[header] / processData[payload]; it is not "
    "mechanised", "the compression codecs behind the compressor interface, decompression in the frame hooks (C12)",
    "the streaming send API with a compression extension (send_compressed), sendMessageFrame as a unit of its own, "
    "PreparedMessage / sendPreparedMessage", "hand-over of the octets that follow the HTTP handshake (C07)",
]


def _g(state):
    return state.heap[state.ghost.oid]


def ext_write(ex, state, args, kwargs, sv):
    g = _g(state)
    g.fields["wire"] = VBytes(z3.Concat(g.fields["wire"].t, args[0].t))
    return VNone


def _queue(state):
    return state.heap[_g(state).fields["queue"].oid]


def ext_queue_append(ex, state, args, kwargs, sv):
    item = args[0]
    if not (isinstance(item, VTuple) and len(item.items) == 2 and isinstance(item.items[0], VBytes)):
        raise Unsupported("send_queue.append of %r" % (item,))
    q = _queue(state)
    q.seq = z3.Concat(q.seq, z3.Unit(item.items[0].t))
    return VNone


def ext_queue_popleft(ex, state, args, kwargs, sv):
    q = _queue(state)
    ex.raise_if(state, z3.Length(q.seq) == 0, "IndexError")
    head = q.seq[0]
    rest = z3.Extract(q.seq, 1, z3.Length(q.seq) - 1)
    state.assume(q.seq == z3.Concat(z3.Unit(head), rest))       # sequence fact: s == [s[0]] ++ s[1:] for non-empty s
    q.seq = rest
    return VTuple([VBytes(head), VBool(z3.Bool(fresh_name("queued_sync")))])


def ext_queue_len(ex, state, args, kwargs, sv):
    return VInt(z3.Length(_queue(state).seq))


def _be_chain(n, k=8):
    """n // 256**(i+1) == (n // 256**i) // 256 for i < k-1: lets linear arithmetic put a big-endian number back together"""
    return z3.And(*[(n / (256 ** i)) == (n / (256 ** (i - 1))) / 256 for i in range(1, k)])


def build(reg):
    ws_units.build(reg)
    reg.lemma_fn("be_chain", lambda ex, state, n: VBool(z3.Implies(ex.num(n) >= 0, _be_chain(ex.num(n)))))
    common = dict(props=["C01"], spec_module="specs.ws")
    G = reg.shapes["Ghost"].fields
    G.update({"queue": "list:bytes", "last_key": "bytes", "submitted": "bytes"})
    reg.external("c01.write", ext_write)
    reg.shape("WireTransport", fields={}, methods={"write": "c01.write"})
    reg.external("queue.append", ext_queue_append)
    reg.external("queue.popleft", ext_queue_popleft)
    reg.external("queue.__len__", ext_queue_len)
    reg.shape("SendQueue", fields={}, methods={"append": "queue.append", "popleft": "queue.popleft",
                                               "__len__": "queue.__len__"})
    reg.shapes["WSProto"].fields.update({"send_queue": "obj:SendQueue", "triggered": "bool"})
    reg.shapes["WSProto"].fields.update({"transport": "obj:WireTransport"})
    reg.shapes["WSProto"].methods.update({"logTxOctets": "noop", "logTxFrame": "noop", "logRxOctets": "noop"})
    if "noop" not in reg.externals:
        reg.external("noop", lambda ex, state, args, kwargs, sv: VNone)
    reg.native_spec("xormask", lambda ex, state, d, k, p: VBytes(ws_common.xormask_f(d.t, k.t, ex.num(p))))

    def ext_getrandbits(ex, state, args, kwargs, sv):
        from pyvc.models import be_bytes
        t = z3.Int(fresh_name("rand"))
        state.assume(z3.And(t >= 0, t < 2 ** 32))
        _g(state).fields["last_key"] = VBytes(be_bytes(t, 4))
        return VInt(t)
    reg.external("random.getrandbits", ext_getrandbits)

    # ---------------------------------------------------------------- the write queue (chopped / synchronous writes)
    # conservation and order: everything handed to sendData is, in order, either on the wire or still queued, and a
    # direct write happens only while nothing is queued
    Q = "ghost.wire + join(ghost.queue)"
    # everything ever handed to sendData (ghost.submitted) is, in order, on the wire or still queued
    QI = "implies(self.state != 0, ghost.wire + join(ghost.queue) == ghost.submitted)"
    QMOD = ["ghost.wire", "ghost.queue", "self.triggered", "self.trafficStats.*", "ghost.timers_armed"]
    reg.contract(
        WSP + "._send", params=dict(S), modifies=QMOD,
        ensures=[
            # while the connection is not CLOSED nothing is lost or reordered: the head chunk moves to the wire
            "implies(self.state != 0, %s == old(%s))" % (Q, Q),
            "implies(self.state != 0 and old(len(ghost.queue)) > 0, ghost.wire == old(ghost.wire) + old(ghost.queue[0]))",
            "implies(old(len(ghost.queue)) > 0, len(ghost.queue) == old(len(ghost.queue)) - 1)",
            "implies(old(len(ghost.queue)) == 0, not self.triggered and ghost.wire == old(ghost.wire) and "
            "len(ghost.queue) == 0)",
            # after CLOSED queued octets are discarded, never written
            "implies(self.state == 0, ghost.wire == old(ghost.wire))"],
        **common)
    reg.contract(
        WSP + "._trigger", params=dict(S), modifies=QMOD,
        ensures=["implies(self.state != 0, %s == old(%s))" % (Q, Q), "implies(self.state == 0, ghost.wire == old(ghost.wire))",
                 "implies(old(self.triggered), ghost.wire == old(ghost.wire) and "
                 "join(ghost.queue) == old(join(ghost.queue)))"],
        **common)
    reg.contract(
        WSP + ".sendData", params=dict(S, data="bytes", sync="bool", chopsize="opt:int"),
        requires=[QI], modifies=QMOD + ["ghost.submitted"],
        ghost_entry=["ghost.submitted = ghost.submitted + data"],
        ensures=[
            QI, "ghost.submitted == old(ghost.submitted) + data",
            "implies(self.state != 0, %s == old(%s) + data)" % (Q, Q),
            # written at once only when nothing is queued ahead of it and no chopping / synchronisation is asked for
            "implies(old(len(ghost.queue)) == 0 and not sync and not (chopsize is not None and chopsize > 0), "
            "ghost.wire == old(ghost.wire) + data and len(ghost.queue) == 0)",
            "implies(old(len(ghost.queue)) > 0 and self.state != 0 and old(self.triggered), "
            "ghost.wire == old(ghost.wire))"],
        loops={"while:not done": {
            "invariant": [
                "n == len(data) and chopsize is not None and chopsize > 0 and 0 <= i and (done or i < n or n == 0) and "
                "implies(done, i >= n)",
                "ghost.wire == old(ghost.wire)",
                "join(ghost.queue) == old(join(ghost.queue)) + data[0:(n if i > n else i)]"],
            "modifies": ["ghost.queue"], "preserves": ["self.send_queue"],
            "vars": {"i": "int", "j": "int", "done": "bool"},
            "hints": ["seq_slice_concat(data, i, i + chopsize)", "seq_slice_concat(data, i, n)"]}},
        **common)

    # ---------------------------------------------------------------- sendFrame: the octets really written
    MASKED = "((not self.factory.isServer and self.maskClientFrames) or (self.factory.isServer and self.maskServerFrames))"
    N = "len(payload)"
    reg.contract(
        WSP + ".sendFrame", name=WSP + ".sendFrame[wire]",
        params=dict(S, opcode="range:0:15", payload="bytes", fin="bool", rsv="range:0:7", mask="none", payload_len="none",
                    chopsize="opt:int", sync="bool"),
        requires=["len(payload) < 2**62", QI],
        modifies=QMOD + ["ghost.last_key", "ghost.submitted"],
        ensures=[
            # RFC 6455 5.2: FIN|RSV|opcode, MASK|length (7 / 7+16 / 7+64 bit, minimal), masking key, payload.
            # (one clause per length form: the same statement as a single clause is decided by z3's sequence solver on
            #  some namings of the formula and given up on others -- the split makes every clause a one-path goal)
        ] + [
            "implies(not %s and %s, ghost.submitted == old(ghost.submitted) + enc_header(fin, rsv, opcode, False, %s) + payload)"
            % (MASKED, rng, N) for rng in ("%s <= 125" % N, "125 < %s and %s <= 0xFFFF" % (N, N), "%s > 0xFFFF" % N)
        ] + [
            # every frame of a masking endpoint carries a fresh 4-octet key and the payload XORed with it from offset 0
            "implies(%s and %s, len(ghost.last_key) == 4 and ghost.submitted == old(ghost.submitted) + "
            "enc_header(fin, rsv, opcode, True, %s) + ghost.last_key + "
            "(xormask(payload, ghost.last_key, 0) if (%s > 0 and self.applyMask) else payload))" % (MASKED, rng, N, N)
            for rng in ("%s <= 125" % N, "125 < %s and %s <= 0xFFFF" % (N, N), "%s > 0xFFFF" % N)
        ] + [
            QI,
            "implies(not %s, ghost.last_key == old(ghost.last_key))" % MASKED],
        **common)

    # ---------------------------------------------------------------- the streaming send API (shared with C05)
    from . import ws_streaming
    ws_streaming.build(reg, standalone=False)

    # ---------------------------------------------------------------- processData, payload arm (inside a frame)
    # The frame hooks are abstracted here (what they do with the octets is their own contract, C02 / C16): this unit
    # decides how many octets are consumed, that they are unmasked with the running key offset, and when the frame ends.
    def ext_on_frame_data(ex, state, args, kwargs, sv):
        g = _g(state)
        g.fields["n_framedata"] = VInt(simp(g.fields["n_framedata"].t + 1))
        g.fields["passed"] = args[0]
        b = z3.Bool(fresh_name("onFrameData_false"))
        g.fields["hook_false"] = VBool(z3.Or(g.fields["hook_false"].t, b))
        return mk_union([(b, VBool(False)), (z3.Not(b), VNone)])

    def ext_on_frame_end(ex, state, args, kwargs, sv):
        g = _g(state)
        g.fields["n_frameend"] = VInt(simp(g.fields["n_frameend"].t + 1))
        b = z3.Bool(fresh_name("onFrameEnd_false"))
        g.fields["hook_false"] = VBool(z3.Or(g.fields["hook_false"].t, b))
        return mk_union([(b, VBool(False)), (z3.Not(b), VNone)])
    reg.external("c01.onFrameData", ext_on_frame_data)
    reg.external("c01.onFrameEnd", ext_on_frame_end)
    G.update({"n_framedata": "nat", "n_frameend": "nat", "passed": "bytes", "hook_false": "bool"})
    reg.shape("WSProtoRx", cls=WSP, fields=reg.shapes["WSProto"].fields,
              methods=dict(reg.shapes["WSProto"].methods, onFrameData="c01.onFrameData", onFrameEnd="c01.onFrameEnd"))
    CF = "self.current_frame"
    MK = "self.current_frame_masker"
    D = "old(self.data)"
    REST = "(old(%s.length) - old(%s._ptr))" % (CF, MK)
    TAKE = "(%s if len(%s) >= %s else len(%s))" % (REST, D, REST, D)
    reg.contract(
        WSP + ".processData", name=WSP + ".processData[payload]", params={"self": "obj:WSProtoRx"}, returns="bool",
        requires=[CF + " is not None", "0 <= %s._ptr <= %s.length" % (MK, CF), "not ghost.hook_false"],
        modifies=["self.data", "self.current_frame_masker._ptr", "ghost.n_framedata", "ghost.n_frameend", "ghost.passed",
                  "ghost.hook_false"],
        ensures=[
            # exactly min(buffered, rest of the frame) octets are consumed -- whatever the read boundaries were
            "self.data == %s[%s:]" % (D, TAKE),
            "%s._ptr == old(%s._ptr) + %s" % (MK, MK, TAKE),
            # they are handed on exactly once, unmasked with the key continued from the running offset
            "ghost.n_framedata == old(ghost.n_framedata) + 1",
            "implies(%s > 0, ghost.passed == (%s[0:%s] if %s._null else xormask(%s[0:%s], %s._key, old(%s._ptr))))"
            % (TAKE, D, TAKE, MK, D, TAKE, MK, MK),
            "implies(%s == 0, len(ghost.passed) == 0)" % TAKE,
            # the frame ends exactly when its declared length has been consumed
            "implies(not ghost.hook_false, (ghost.n_frameend == old(ghost.n_frameend) + 1) == (%s._ptr == %s.length))" % (MK, CF),
            "ghost.n_frameend <= old(ghost.n_frameend) + 1",
            # more work exactly when octets remain and no hook stopped the processing
            "result == (not ghost.hook_false and len(self.data) > 0)"],
        **common)


    # ---------------------------------------------------------------- codec lemma: decode(encode(frame)) == frame
    for tag, rng in (("7-bit", "n <= 125"), ("16-bit", "126 <= n <= 0xFFFF"), ("64-bit", "0x10000 <= n <= 0x7FFFFFFFFFFFFFFF")):
        reg.contract(
            "specs.c01_lemmas:encode", name="C01/lemma/codec-roundtrip[%s]" % tag,
            params={"fin": "bool", "rsv": "range:0:7", "opcode": "range:0:15", "masked": "bool", "n": "nat",
                    "rest": "bytes"},
            returns="bytes", requires=[rng], hints=["be_chain(n)"],
            ensures=["result[0] % 16 == opcode and (result[0] // 128 == 1) == fin and (result[0] // 16) % 8 == rsv",
                     "(result[1] // 128 == 1) == masked",
                     "payload_len(result) == n", "rfc_extlen_ok(result)",
                     "header_len(result[1]) == len(enc_header(fin, rsv, opcode, masked, n)) + (4 if masked else 0)",
                     "result[len(enc_header(fin, rsv, opcode, masked, n)):] == rest"],
            **common)


def extra_checks(tier, seed):
    from pyvc.spec_tools import solve
    out = []
    from pyvc import natives
    for name, (hyps, goal) in ws_common.ws_lemma_obligations() + natives.join_lemma_obligations():
        out.append(solve("C01/lemma/" + name, hyps, goal, 20000))
    n = z3.Int("ln")
    out.append(solve("C01/lemma/be-chain", [n >= 0], _be_chain(n), 20000))
    q = z3.Const("lq", z3.SeqSort(BytesSort))
    out.append(solve("C01/lemma/seq-head-tail", [z3.Length(q) > 0],
                     q == z3.Concat(z3.Unit(q[0]), z3.Extract(q, 1, z3.Length(q) - 1)), 20000))
    if tier == "thorough":
        from pyvc import replaylib as Rp
        out.append(Rp.native_crosscheck("C01/bounded/framing-boundary-cases", _HARNESS,
                                        "payload lengths around 125 / 126 / 65535 / 65536, all read boundaries of short frames, "
                                        "both roles, chopped and synchronous sends, against an independent RFC 6455 reference"))
        from . import ws_pair_harness as H
        for mode, what in (("messages", "message sequences with / without permessage-deflate, 5 fragment sizes, send limits"),
                           ("streaming", "the streaming send API, frame lengths at the 7 / 16 / 64-bit boundaries")):
            out.append(Rp.native_crosscheck("C01/bounded/real-pair-" + mode, H.HARNESS % {"mode": mode},
                                            what + "; real client / server pair back to back"))
    return out


# ------------------------------------------------------------------------------------------ replay on the real code
# When the solver cannot decide an obligation, the harness below searches a neighbourhood of boundary cases on the
# real WebSocketProtocol (it can only *add* confirmed violations: a real failing input; it never proves anything).
_HARNESS = r'''
import json, struct, itertools
import txaio; txaio.use_asyncio()
from autobahn.websocket import protocol as P
from autobahn.wamp.types import TransportDetails

class T:
    def __init__(self): self.w = []
    def write(self, d): self.w.append(bytes(d))
    def abort(self): pass
    def close(self): pass
    def get_extra_info(self, *a, **k): return None

def mk(server, **opts):
    f = (P.WebSocketServerFactory if server else P.WebSocketClientFactory)()
    f.setProtocolOptions(**opts)
    f.log = txaio.make_logger()
    p = (P.WebSocketServerProtocol if server else P.WebSocketClientProtocol)()
    p.log = txaio.make_logger()
    p.factory = f; p.transport = T(); p._transport_details = TransportDetails()
    p._connectionMade(); p.state = p.STATE_OPEN; p.websocket_version = 18
    for c in (p.openHandshakeTimeoutCall,):
        if c is not None: c.cancel()
    return p

def ref_header(fin, rsv, opcode, masked, n):
    b0 = (0x80 if fin else 0) | (rsv << 4) | opcode
    m = 0x80 if masked else 0
    if n <= 125: return bytes([b0, m | n])
    if n <= 0xFFFF: return bytes([b0, m | 126]) + struct.pack("!H", n)
    return bytes([b0, m | 127]) + struct.pack("!Q", n)

bad = []
errors = []
def sendframe_cases():
    for server, maskc, masks, apply_ in itertools.product([False, True], [True, False], [False, True], [True, False]):
        opts = dict(applyMask=apply_)
        if server: opts["maskServerFrames"] = masks
        else: opts["maskClientFrames"] = maskc
        masked = (masks if server else maskc)
        for n in (0, 1, 2, 125, 126, 127, 65535, 65536, 70001):
            for fin, rsv, opcode in ((True, 0, 1), (False, 0, 2), (True, 4, 0), (True, 0, 9), (False, 7, 10)):
                p = mk(server, **opts)
                payload = bytes((i * 7 + 3) & 255 for i in range(n))
                p.sendFrame(opcode=opcode, payload=payload, fin=fin, rsv=rsv)
                raw = b"".join(p.transport.w)
                h = ref_header(fin, rsv, opcode, masked, n)
                ok = raw[:len(h)] == h
                if ok and masked:
                    key = raw[len(h):len(h) + 4]; body = raw[len(h) + 4:]
                    want = bytes(b ^ key[i % 4] for i, b in enumerate(payload)) if (n > 0 and apply_) else payload
                    ok = len(key) == 4 and body == want
                elif ok:
                    ok = raw[len(h):] == payload
                if not ok:
                    bad.append({"unit": "sendFrame", "server": server, "masked": masked, "applyMask": apply_, "len": n,
                                "fin": fin, "rsv": rsv, "opcode": opcode, "wire_head": list(raw[:16])})
                    return

def payload_arm_cases():
    for length, ptr, buffered, masked in itertools.product((0, 1, 5, 10), (0, 1, 4), (0, 1, 3, 5, 9, 10, 12), (True, False)):
        if ptr > length: continue
        p = mk(True)
        seen = []
        p.onFrameData = lambda d: seen.append(bytes(d))
        ended = []
        p.onFrameEnd = lambda: ended.append(1)
        key = b"\x11\x22\x33\x44"
        p.current_frame = P.FrameHeader(2, True, 0, length, key if masked else None)
        if masked and length > 0:
            p.current_frame_masker = P.create_xor_masker(key, length); p.current_frame_masker.process(b"\0" * ptr)
        else:
            class Null:
                def __init__(s): s.n = ptr
                def pointer(s): return s.n
                def process(s, d): s.n += len(d); return d
            p.current_frame_masker = Null()
        data = bytes((3 * i + 1) & 255 for i in range(buffered))
        p.data = data
        r = p.processData()
        take = min(buffered, length - ptr)
        want = bytes(b ^ key[(ptr + i) % 4] for i, b in enumerate(data[:take])) if (masked and length > 0) else data[:take]
        ok = (bytes(p.data) == data[take:] and seen == [want] and (len(ended) == 1) == (ptr + take == length)
              and r == (len(data[take:]) > 0))
        if not ok:
            bad.append({"unit": "processData[payload]", "length": length, "ptr": ptr, "buffered": buffered, "masked": masked,
                        "left": list(bytes(p.data)), "seen": [list(x) for x in seen], "ended": len(ended), "result": r})
            return

def queue_cases():
    import autobahn.websocket.protocol as M
    for plan in ([(b"abcdefg", False, 3), (b"XY", False, None)], [(b"ab", True, None), (b"cd", False, None)],
                 [(b"abcdefgh", False, 4), (b"ij", True, None), (b"k", False, None)], [(b"abc", False, None)]):
        p = mk(False)
        timers = []
        orig = M.txaio.call_later
        M.txaio.call_later = lambda delay, fn, *a: timers.append(fn)
        try:
            for d, sync, chop in plan:
                p.sendData(d, sync, chop)
            n = 0
            while timers and n < 1000:
                timers.pop(0)(); n += 1
        finally:
            M.txaio.call_later = orig
        wire = b"".join(p.transport.w)
        want = b"".join(d for d, _, _ in plan)
        if wire != want:
            bad.append({"unit": "sendData/_send", "plan": [(list(d), s, c) for d, s, c in plan], "wire": list(wire)})
            return

for f in (sendframe_cases, payload_arm_cases, queue_cases):
    try:
        f()
    except Exception as e:
        errors.append({"unit": f.__name__, "crashed": "%s: %s" % (type(e).__name__, e)})
print(json.dumps({"bad": bad, "harness_errors": errors}))
'''


def replay(o):
    from pyvc import replaylib as Rp
    unit = o.get("unit") or o.get("name", "")
    fam = ("sendFrame" if "sendFrame" in unit else "processData[payload]" if "processData[payload]" in unit else
           "sendData/_send" if ("sendData" in unit or "._send" in unit or "_trigger" in unit) else None)
    if fam is None and any(k in unit for k in ("beginMessage", "sendMessageFrame", "endMessage")):
        from . import ws_pair_harness
        return ws_pair_harness.run("streaming")
    if fam is None and "sendMessage" in unit:
        from . import ws_pair_harness
        return ws_pair_harness.run("messages")
    if fam is None:
        return {"reproduced": False, "detail": "no replay harness for this unit"}
    out = Rp.run_py(_HARNESS, timeout=300)
    # a crash of the harness itself is never a violation
    hits = [b for b in (out.get("bad") or []) if b.get("unit") == fam] if isinstance(out, dict) else []
    return {"reproduced": bool(hits), "cases": hits[:3], "observed": None if hits else out,
            "detail": "boundary-case search on the real WebSocketProtocol against an independent RFC 6455 reference "
                      "(finds real failing inputs only; proves nothing)"}
