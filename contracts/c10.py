"""C10 — Every invocation gets exactly one terminal reply."""
import z3

from pyvc.values import *  # noqa
from . import wamp_common as W
from .wamp_common import SESS, PR

from . import transports as _T
ASSUMPTIONS = list(W.ASSUMPTIONS) + _T.ASSUMPTIONS + [
    "ITransport.send interface contract (SerializationError / PayloadExceededError / TransportLost or exactly one message "
    "sent) is what the session closures are verified against; the per-transport send() implementations are covered "
    "under C13 where claimed",
    "txaio.as_future(endpoint.fn, ...) runs the endpoint once; the success / error closure is then called exactly once "
    "by txaio.add_callbacks (assumed); txaio.cancel cancels exactly the given future",
    "_message_from_exception returns an ERROR message for the given request type and id (contract proved under C18 "
    "where claimed); encrypted payloads (C20) are excluded here (msg.enc_algo is None)",
]
MSG = "autobahn.wamp.message"
TERMINAL = ("(isinstance(ghost.last_sent, Yield) and ghost.last_sent.request == msg.request and "
            "not ghost.last_sent.progress) or (isinstance(ghost.last_sent, Error) and "
            "ghost.last_sent.request == msg.request and ghost.last_sent.request_type == 68)")


def build(reg):
    W.build_shapes(reg)
    W.install_message_models(reg)
    common = dict(props=["C10"], spec_module="specs.wamp")
    reg.shapes["Session"].fields.update({"_invocations": "dict:int->sym:InvocationRequest", "traceback_app": "bool"})
    reg.shape("InvocationRequest", cls=W.RQ + ":InvocationRequest", heap_base="Request",
              fields={"request_id": "int", "on_reply": "sym:Fut"})
    reg.record_class(W.RQ + ":InvocationRequest", "InvocationRequest")
    reg.shapes["Ghost"].fields.update({"n_endpoint_calls": "nat", "n_cancel": "nat", "last_cancelled": "int"})
    reg.shapes["Session"].methods.update({"onUserError": "noop"})
    reg.external("noop", lambda ex, state, args, kwargs, sv: VNone)
    reg.external("txaio.failure_message", lambda ex, state, args, kwargs, sv: VStr(z3.String(fresh_name("failmsg"))))
    reg.external("txaio.failure_format_traceback", lambda ex, state, args, kwargs, sv: VStr(z3.String(fresh_name("tb"))))
    reg.external("txaio.add_callbacks", lambda ex, state, args, kwargs, sv: VNone)
    reg.shape("Invocation", cls=MSG + ":Invocation", fields={
        "request": "int", "registration": "int", "args": "none", "kwargs": "none", "payload": "none", "timeout": "any",
        "receive_progress": "opt:bool", "caller": "opt:int", "caller_authid": "opt:str", "caller_authrole": "opt:str",
        "procedure": "opt:str",
        "transaction_hash": "any", "enc_algo": "none", "enc_key": "none", "enc_serializer": "none", "forward_for": "any"})
    # _message_from_exception: an ERROR for (request_type, request) -- assumed here
    reg.contract(PR + ":BaseSession._message_from_exception",
                 params={"self": "obj:Session", "request_type": "int", "request": "int", "exc": "any", "tb": "any",
                         "enc_algo": "any"},
                 returns="obj:ErrorOut", ensures=["result.request_type == request_type and result.request == request"],
                 verify=False, props=["C18"], spec_module="specs.wamp")
    reg.shape("ErrorOut", cls=MSG + ":Error", fields={"request_type": "int", "request": "int", "error": "str",
                                                      "args": "any", "kwargs": "any"})
    EP = "self._registrations[msg.registration].endpoint"
    CLOSURE = {"self": "obj:Session", "msg": "obj:Invocation", "registration": "sym:Registration", "proc": "opt:str"}
    PRE = ["self._transport is not None", "msg.request in self._invocations"]
    MOD = ["self._invocations", "ghost.n_sent", "ghost.last_sent"]
    POST = [
        # exactly one terminal reply with the invocation's request id: YIELD, or ERROR(INVOCATION) when the result cannot
        # be serialized / exceeds the transport's size limit
        "ghost.n_sent == old(ghost.n_sent) + 1", TERMINAL,
        "msg.request not in self._invocations",
        "forall(k, 0, 2**53 + 1, implies(k != msg.request, (k in self._invocations) == old(k in self._invocations)))"]
    RAISES = {"TransportLost": "True", "SerializationError": "True", "PayloadExceededError": "True"}
    # an exception may only escape when the transport refused even the ERROR reply; the record is gone either way
    RE = {"*": ["msg.request not in self._invocations", "ghost.n_sent <= old(ghost.n_sent) + 1"]}
    reg.contract(SESS + ".onMessage/success@message.Invocation", params=dict(CLOSURE, res="any"),
                 requires=PRE, modifies=MOD, ensures=POST, raises=RAISES, raises_ensures=RE, **common)
    reg.contract(SESS + ".onMessage/error@message.Invocation", params=dict(CLOSURE, err="any"), returns="none",
                 requires=PRE, modifies=MOD, ensures=POST, raises=RAISES, raises_ensures=RE, **common)

    # ---- the progress callable handed to the endpoint: one progressive YIELD for this invocation, nothing else
    reg.contract(SESS + ".onMessage/progress@message.Invocation",
                 params=dict(CLOSURE, args="any", kwargs="any"), returns="none",
                 requires=["self._transport is not None", "msg.request in self._invocations"],
                 modifies=["ghost.n_sent", "ghost.last_sent"],
                 ensures=["ghost.n_sent == old(ghost.n_sent) + 1",
                          "isinstance(ghost.last_sent, Yield) and ghost.last_sent.request == msg.request and "
                          "ghost.last_sent.progress is True",
                          "ghost.last_sent.args is args and ghost.last_sent.kwargs is kwargs",
                          "msg.request in self._invocations"],
                 raises=dict(RAISES, AssertionError="True"),
                 raises_ensures={"*": ["ghost.n_sent == old(ghost.n_sent)", "msg.request in self._invocations"]}, **common)

    # ---- the arm itself: endpoint invoked once for an active registration and a fresh request id
    def ext_endpoint(ex, state, args, kwargs, sv):
        g = state.heap[state.ghost.oid]
        g.fields["n_endpoint_calls"] = VInt(simp(g.fields["n_endpoint_calls"].t + 1))
        return W.ext_create_future(ex, state, [], {}, None)
    reg.external("txaio.as_future", ext_endpoint)
    from pyvc import models
    def call_details(ex, state, args, kwargs):
        """CallDetails(registration, progress=..., caller=..., ...): what the endpoint is told about the call is recorded"""
        g = state.heap[state.ghost.oid]
        prog = kwargs.get("progress", VNone)
        g.fields["progress_offered"] = VBool(simp(z3.Not(disj([gd for gd, a in alts_of(prog) if isinstance(a, VNoneT)]))))
        for k in ("caller", "caller_authid", "caller_authrole", "procedure"):
            g.fields["d_" + k] = kwargs.get(k, VNone)
        g.fields["n_details"] = VInt(simp(g.fields["n_details"].t + 1))
        return VInt(z3.Int(fresh_name("call_details")))
    models.CLASS_MODELS["CallDetails"] = call_details
    reg.shapes["Ghost"].fields.update({"progress_offered": "bool", "d_caller": "any", "d_caller_authid": "any",
                                       "d_caller_authrole": "any", "d_procedure": "any", "n_details": "nat"})
    reg.shapes["HandlerRec"].fields.update({"fn": "any", "obj": "opt:int", "details_arg": "opt:str"})
    reg.contract(
        SESS + ".onMessage", name=SESS + ".onMessage<Invocation>", params={"self": "obj:Session", "msg": "obj:Invocation"},
        requires=["self._session_id is not None", "self._transport is not None"],
        modifies=["self._invocations", "InvocationRequest.*", "Request.*", "Fut.*", "ghost.n_endpoint_calls",
                  "ghost.progress_offered", "ghost.d_caller", "ghost.d_caller_authid", "ghost.d_caller_authrole",
                  "ghost.d_procedure", "ghost.n_details"],
        ensures=["ghost.n_endpoint_calls == old(ghost.n_endpoint_calls) + 1",
                 # call details are handed to the endpoint exactly when it asked for them (details_arg) ...
                 "ghost.n_details == old(ghost.n_details) + (1 if %s.details_arg else 0)" % EP,
                 # ... a progress callable is offered only when the caller asked for progressive results ...
                 "implies(ghost.n_details > old(ghost.n_details), ghost.progress_offered == (msg.receive_progress is True))",
                 # ... and the details name the caller as the INVOCATION does
                 "implies(ghost.n_details > old(ghost.n_details), ghost.d_caller is msg.caller and "
                 "ghost.d_caller_authid is msg.caller_authid and ghost.d_caller_authrole is msg.caller_authrole)",
                 "implies(ghost.n_details > old(ghost.n_details) and msg.procedure, ghost.d_procedure == msg.procedure)",
                 "msg.request in self._invocations and ghost.n_sent == old(ghost.n_sent)",
                 "forall(k, 0, 2**53 + 1, implies(k != msg.request, (k in self._invocations) == old(k in self._invocations)))"],
        raises={"ProtocolError": "msg.request in self._invocations or msg.registration not in self._registrations"},
        raises_ensures={"ProtocolError": ["ghost.n_endpoint_calls == old(ghost.n_endpoint_calls) and "
                                          "ghost.n_sent == old(ghost.n_sent)"]}, **common)

    # ---- INTERRUPT cancels exactly the pending invocation's future
    def ext_cancel(ex, state, args, kwargs, sv):
        g = state.heap[state.ghost.oid]
        g.fields["n_cancel"] = VInt(simp(g.fields["n_cancel"].t + 1))
        g.fields["last_cancelled"] = VInt(args[0].t)
        return VNone
    reg.external("txaio.cancel", ext_cancel)
    reg.shape("Interrupt", cls=MSG + ":Interrupt", fields={"request": "int", "mode": "any", "reason": "any",
                                                           "forward_for": "any"})
    reg.contract(
        SESS + ".onMessage", name=SESS + ".onMessage<Interrupt>", params={"self": "obj:Session", "msg": "obj:Interrupt"},
        requires=["self._session_id is not None"], modifies=["ghost.n_cancel", "ghost.last_cancelled"],
        ensures=["implies(msg.request in self._invocations, ghost.n_cancel == old(ghost.n_cancel) + 1 and "
                 "ghost.last_cancelled == self._invocations[msg.request].on_reply.addr)",
                 "implies(msg.request not in self._invocations, ghost.n_cancel == old(ghost.n_cancel))",
                 "ghost.n_sent == old(ghost.n_sent)"], **common)


    from . import transports
    transports.build_send(reg, ["C10", "C13"])


def extra_checks(tier, seed):
    return []
