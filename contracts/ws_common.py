"""Shapes (type declarations), ghost state and assumed contracts of primitives shared by the WebSocket
properties (C01 C02 C05 C07 C12 C16 C17).  Shapes are derived from the initialising code (`_connectionMade`,
`__init__`, CONFIG_ATTRS); they declare which fields contracts and verified code may touch and their sorts."""
import z3

from pyvc.values import *  # noqa
from pyvc.engine import HObj

P = "autobahn.websocket.protocol"
WSP = P + ":WebSocketProtocol"

TIMER_KINDS = {"onOpenHandshakeTimeout": 1, "onCloseHandshakeTimeout": 2, "onServerConnectionDropTimeout": 3,
               "onAutoPingTimeout": 4, "_sendAutoPing": 5, "_send": 6}

ASSUMPTIONS = [
    "transport.write(b) is total and keeps order; loseConnection/abort are total; connectionLost is delivered later, once",
    "txaio futures are write-once cells: resolve/reject on a completed future raises; callbacks are not re-entered "
    "synchronously into the unit being verified (user callbacks onMessage/onClose/onPing/onPong do not call back into the "
    "protocol object during the call)",
    "timer handles returned by call_later are fresh objects; cancel() only deactivates its own handle",
    "the streaming callbacks _onMessageBegin/_onMessageFrameBegin/... dispatch to the default implementations of this "
    "class (the adapters forward 1:1; applications overriding them are outside the property)",
]


# ------------------------------------------------------------------------------------------ externals (assumed)

def _ghost(state):
    return state.heap[state.ghost.oid]


def ext_call_later(ex, state, args, kwargs, sv):
    """call_later(delay, fn) -> fresh active timer handle remembering delay and callback"""
    delay, fn = args[0], args[1]
    o = HObj("inst", None, "TimerHandle")
    kind = TIMER_KINDS.get(getattr(fn, "name", None), 0)
    if isinstance(delay, VInt):
        delay = VReal(z3.ToReal(delay.t))
    o.fields = {"delay": delay, "kind": VInt(kind), "active": VBool(True)}
    g = _ghost(state)
    g.fields["timers_armed"] = VInt(simp(g.fields["timers_armed"].t + 1))
    return state.alloc(o)


def ext_timer_cancel(ex, state, args, kwargs, sv):
    def f(a):
        if isinstance(a, VRef):
            state.heap[a.oid].fields["active"] = VBool(False)
        return VNone
    for g, a in alts_of(sv):
        if isinstance(a, VRef):
            o = state.heap[a.oid]
            o.fields["active"] = merge2(g, VBool(False), o.fields["active"]) if not is_true(g) else VBool(False)
    return VNone


def ext_resolve(ex, state, args, kwargs, sv):
    """txaio.resolve(future, value): requires the future not to be completed yet (AlreadyCalledError / InvalidStateError)"""
    fut = args[0]
    o = state.heap[fut.oid]
    ex.raise_if(state, o.fields["done"].t, "AlreadyCalledError")
    o.fields["done"] = VBool(True)
    return VNone


def ext_close_connection(ex, state, args, kwargs, sv):
    g = _ghost(state)
    g.fields["n_drop"] = VInt(simp(g.fields["n_drop"].t + 1))
    abort = args[0] if args else kwargs.get("abort", VBool(False))
    g.fields["drop_abort"] = VBool(ex.truthy(state, abort))
    return VNone


def ext_noop(ex, state, args, kwargs, sv):
    return VNone


def ext_on_close(ex, state, args, kwargs, sv):
    g = _ghost(state)
    g.fields["n_onclose"] = VInt(simp(g.fields["n_onclose"].t + 1))
    g.fields["onclose_clean"] = VBool(ex.truthy(state, args[0]))
    g.fields["onclose_code"] = args[1]
    g.fields["onclose_reason"] = args[2]
    return VNone


def ext_on_message(ex, state, args, kwargs, sv):
    g = _ghost(state)
    from pyvc import models
    models.list_append(ex, state, [args[0]], {}, g.fields["delivered"])
    models.list_append(ex, state, [VBool(ex.truthy(state, args[1]))], {}, g.fields["delivered_binary"])
    return VNone


def ext_on_ping(ex, state, args, kwargs, sv):
    """_onPing dispatches to onPing (default implementation under contract)"""
    return ex.call(state, ex.getattr_(state, sv, "onPing"), args, kwargs)


def ext_on_pong(ex, state, args, kwargs, sv):
    g = _ghost(state)
    from pyvc import models
    models.list_append(ex, state, [args[0]], {}, g.fields["pongs_received"])
    return VNone


def ext_fire(ex, state, args, kwargs, sv):
    return VOpaque(fresh_name("fire_future"))


def _fwd(name):
    def fn(ex, state, args, kwargs, sv):
        return ex.call(state, ex.getattr_(state, sv, name), args, kwargs)
    return fn


def ext_masker_pointer(ex, state, args, kwargs, sv):
    return state.heap[sv.oid].fields["_ptr"]


xormask_f = z3.Function("xormask", BytesSort, BytesSort, z3.IntSort(), BytesSort)


def ext_masker_process(ex, state, args, kwargs, sv):
    """interface contract of every masker (proved per implementation in C15): result = xormask(data, key, ptr),
    same length, pointer advanced by len(data); the null masker is the identity"""
    o = state.heap[sv.oid]
    data = args[0]
    ptr = o.fields["_ptr"].t
    isnull = o.fields["_null"].t
    r = z3.If(isnull, data.t, xormask_f(data.t, o.fields["_key"].t, ptr))
    o.fields["_ptr"] = VInt(simp(ptr + z3.Length(data.t)))
    state.assume(z3.Length(xormask_f(data.t, o.fields["_key"].t, ptr)) == z3.Length(data.t))
    return VBytes(r)


def m_null_masker(ex, state, args, kwargs):
    o = HObj("inst", None, "MaskerAny")
    o.fields = {"_ptr": VInt(0), "_key": VBytes(b"\0\0\0\0"), "_null": VBool(True)}
    return state.alloc(o)


def ext_create_masker(ex, state, args, kwargs, sv):
    o = HObj("inst", None, "MaskerAny")
    o.fields = {"_ptr": VInt(0), "_key": args[0], "_null": VBool(False)}
    return state.alloc(o)


def ext_pmce_decompress(ex, state, args, kwargs, sv):
    """decompress_message_data(data): some octets (arbitrary: whatever the codec inflates them to), or the codec's
    exception for a damaged stream; what was returned is remembered (ghost.last_inflated)"""
    t = z3.Const(fresh_name("decompressed"), BytesSort)
    ex.raise_if(state, z3.Bool(fresh_name("decompress_raises")), "Exception", )
    state.assume(z3.Length(t) < 2 ** 62)
    _ghost(state).fields["last_inflated"] = VBytes(t)
    return VBytes(t)


cz_data_f = z3.Function("cz_data", z3.IntSort(), BytesSort, BytesSort, BytesSort)
cz_end_f = z3.Function("cz_end", z3.IntSort(), BytesSort, BytesSort)
next_hist_f = z3.Function("cz_next_hist", z3.IntSort(), BytesSort, z3.IntSort())


def ext_pmce_start(ex, state, args, kwargs, sv):
    """start_compress_message(): a compressor is created when there is none (or context takeover is off); a new
    compressor has the empty history and has absorbed nothing"""
    g = _ghost(state)
    o = state.heap[sv.oid]
    comp = o.fields["_compressor"]
    isnone = simp(disj([gd for gd, a in alts_of(comp) if isinstance(a, VNoneT)]))
    renew = z3.Or(isnone, z3.Not(o.fields["_takeover"].t))
    g.fields["comp_hist"] = VInt(simp(z3.If(renew, z3.IntVal(0), g.fields["comp_hist"].t)))
    g.fields["n_absorbed"] = VInt(simp(z3.If(renew, z3.IntVal(0), g.fields["n_absorbed"].t)))
    g.fields["rsv1_base"] = VInt(simp(z3.If(renew, g.fields["sent_rsv1_msgs"].t, g.fields["rsv1_base"].t)))
    o.fields["_compressor"] = VInt(z3.Int(fresh_name("compressor")))
    g.fields["comp_open"] = VBool(True)
    g.fields["comp_in"] = VBytes(b"")
    return VNone


def ext_pmce_compress(ex, state, args, kwargs, sv):
    """compress_message_data(data): some octets (a function of the compressor's history, what was fed before in this
    message, and data); the data is absorbed into the open message"""
    g = _ghost(state)
    data = args[0]
    r = cz_data_f(g.fields["comp_hist"].t, g.fields["comp_in"].t, data.t)
    g.fields["comp_in"] = VBytes(simp(z3.Concat(g.fields["comp_in"].t, data.t)))
    return VBytes(r)


def ext_pmce_end(ex, state, args, kwargs, sv):
    """end_compress_message(): the closing octets; the message is now part of the compressor's history"""
    g = _ghost(state)
    h, fed = g.fields["comp_hist"].t, g.fields["comp_in"].t
    g.fields["comp_hist"] = VInt(next_hist_f(h, fed))
    g.fields["n_absorbed"] = VInt(simp(g.fields["n_absorbed"].t + 1))
    g.fields["comp_open"] = VBool(False)
    return VBytes(cz_end_f(h, fed))


def build_shapes(reg):
    reg.shape("TimerHandle", fields={"delay": "real", "kind": "int", "active": "bool"}, methods={"cancel": "timer.cancel"})
    reg.shape("Future", fields={"done": "bool"})
    reg.shape("BatchedTimer", fields={}, methods={"call_later": "timer.call_later"})
    reg.shape("WSFactory", fields={"isServer": "bool", "_batched_timer": "obj:BatchedTimer", "proxy": "any",
                                   "countConnections": "nat"})
    reg.shape("FrameHeader", cls=P + ":FrameHeader",
              fields={"opcode": "range:0:15", "fin": "bool", "rsv": "range:0:7", "length": "nat", "mask": "opt:bytes"})
    reg.shape("TrafficStats", fields={k: "nat" for k in (
        "outgoingOctetsWireLevel", "outgoingOctetsWebSocketLevel", "outgoingOctetsAppLevel", "outgoingWebSocketFrames",
        "outgoingWebSocketMessages", "incomingOctetsWireLevel", "incomingOctetsWebSocketLevel", "incomingOctetsAppLevel",
        "incomingWebSocketFrames", "incomingWebSocketMessages", "preopenOutgoingOctetsWireLevel",
        "preopenIncomingOctetsWireLevel")})
    reg.shape("MaskerAny", fields={"_ptr": "nat", "_key": "bytes:4", "_null": "bool"},
              methods={"pointer": "masker.pointer", "process": "masker.process"})
    reg.shape("Timings", fields={}, methods={"track": "noop"})
    # a per-message compression engine (deflate / bzip2 / snappy / brotli share this interface): `_compressor` is None
    # until the first message (and again after a reset); `_takeover` abstracts "context takeover in the sending direction"
    reg.shape("PMCE", fields={"EXTENSION_NAME": "str", "_compressor": "opt:int", "_takeover": "bool"},
              methods={"start_decompress_message": "noop", "end_decompress_message": "noop",
                       "decompress_message_data": "pmce.decompress", "start_compress_message": "pmce.start_compress",
                       "compress_message_data": "pmce.compress", "end_compress_message": "pmce.end_compress"})
    reg.external("pmce.start_compress", ext_pmce_start)
    reg.external("pmce.compress", ext_pmce_compress)
    reg.external("pmce.end_compress", ext_pmce_end)
    reg.native_spec("cz_data", lambda ex, state, h, a, b: VBytes(cz_data_f(ex.num(h), a.t, b.t)))
    reg.native_spec("cz_end", lambda ex, state, h, a: VBytes(cz_end_f(ex.num(h), a.t)))
    reg.native_spec("cz_next_hist", lambda ex, state, h, a: VInt(next_hist_f(ex.num(h), a.t)))
    reg.shape("Utf8ValidatorAny", fields={"_state": "range:0:8", "_index": "nat", "_codepoint": "int"},
              methods={"reset": "repo:autobahn.websocket.utf8validator:Utf8Validator.reset",
                       "validate": "repo:autobahn.websocket.utf8validator:Utf8Validator.validate"})
    from pyvc import natives
    reg.native_spec("utf8_valid", lambda ex, state, b: ex.dist(state, [b], lambda a: VBool(natives.utf8_valid(a.t))))
    natives.AXIOMS["utf8_valid"] = [natives.utf8_valid(z3.Empty(BytesSort))]
    def sym_join(ex, state, lst):
        from pyvc.engine import list_to_seq
        o = ex.obj(state, lst)
        seq, el = list_to_seq(o)
        if o.items is not None and not o.items:
            return VBytes(b"")
        return VBytes(natives.join_bytes(seq))
    reg.native_spec("join", sym_join)
    reg.external("timer.call_later", ext_call_later)
    reg.external("txaio.call_later", ext_call_later)
    reg.external("timer.cancel", ext_timer_cancel)
    reg.external("txaio.resolve", ext_resolve)
    reg.external("ws._closeConnection", ext_close_connection)
    reg.external("noop", ext_noop)
    reg.external("ws._onClose", ext_on_close)
    reg.external("ws._onMessage", ext_on_message)
    reg.external("ws._onPing", ext_on_ping)
    reg.external("ws._onPong", ext_on_pong)
    reg.external("ws.fire", ext_fire)
    reg.external("txaio.add_callbacks", ext_noop)
    reg.external("masker.pointer", ext_masker_pointer)
    reg.external("masker.process", ext_masker_process)
    reg.external("pmce.decompress", ext_pmce_decompress)
    reg.external("autobahn.websocket.xormasker.create_xor_masker", ext_create_masker)
    for n in ("MessageBegin", "MessageFrameBegin", "MessageFrameData", "MessageFrameEnd", "MessageFrame", "MessageEnd"):
        reg.external("ws._on" + n, _fwd("on" + n))
    fields = {
        "log": "logger", "factory": "obj:WSFactory", "peer": "str", "state": "range:0:4", "send_state": "range:0:3",
        "is_closed": "obj:Future", "is_open": "obj:Future",
        # configuration (CONFIG_ATTRS)
        "logOctets": "bool", "logFrames": "const:False", "trackTimings": "bool", "utf8validateIncoming": "bool",
        "applyMask": "bool",
        "maxFramePayloadSize": "nat", "maxMessagePayloadSize": "nat", "autoFragmentSize": "nat", "failByDrop": "bool",
        "echoCloseCodeReason": "bool", "openHandshakeTimeout": "real", "closeHandshakeTimeout": "real",
        "serverConnectionDropTimeout": "real", "autoPingInterval": "real", "autoPingTimeout": "real",
        "autoPingSize": "range:12:125", "autoPingRestartOnAnyTraffic": "bool", "requireMaskedClientFrames": "bool",
        "maskServerFrames": "bool", "acceptMaskedServerFrames": "bool", "maskClientFrames": "bool",
        "websocket_version": "range:10:18",
        # connection state
        "data": "bytes", "current_frame": "opt:obj:FrameHeader", "current_frame_masker": "obj:MaskerAny",
        "inside_message": "bool", "_isMessageCompressed": "bool", "_perMessageCompress": "opt:obj:PMCE",
        "utf8validator": "obj:Utf8ValidatorAny", "utf8validateIncomingCurrentMessage": "bool",
        "utf8validateLast": "tuple:bool,bool,int,int",
        "message_is_binary": "bool", "message_data": "opt:list:bytes", "message_data_total_length": "nat",
        "frame_length": "nat", "frame_data": "opt:list:bytes", "control_frame_data": "opt:list:bytes",
        "wasMaxFramePayloadSizeExceeded": "bool", "wasMaxMessagePayloadSizeExceeded": "bool",
        "closedByMe": "bool", "failedByMe": "bool", "droppedByMe": "bool", "wasClean": "bool",
        "wasNotCleanReason": "opt:str", "wasServerConnectionDropTimeout": "bool", "wasOpenHandshakeTimeout": "bool",
        "wasCloseHandshakeTimeout": "bool", "wasServingFlashSocketPolicyFile": "bool",
        "localCloseCode": "opt:int", "localCloseReason": "opt:bytes", "remoteCloseCode": "opt:int",
        "remoteCloseReason": "opt:str",
        "serverConnectionDropTimeoutCall": "opt:obj:TimerHandle", "openHandshakeTimeoutCall": "opt:obj:TimerHandle",
        "closeHandshakeTimeoutCall": "opt:obj:TimerHandle", "autoPingTimeoutCall": "opt:obj:TimerHandle",
        "autoPingPendingCall": "opt:obj:TimerHandle", "autoPingPending": "opt:bytes", "autoPingPendingSeq": "nat",
        "autoPingPendingSent": "opt:int",
        "trafficStats": "obj:TrafficStats", "trackedTimings": "opt:obj:Timings",
    }
    methods = {
        "_closeConnection": "ws._closeConnection", "unregisterProducer": "noop", "_onClose": "ws._onClose",
        "_onMessage": "ws._onMessage", "_onPing": "ws._onPing", "_onPong": "ws._onPong", "fire": "ws.fire",
        "_onMessageBegin": "ws._onMessageBegin", "_onMessageFrameBegin": "ws._onMessageFrameBegin",
        "_onMessageFrameData": "ws._onMessageFrameData", "_onMessageFrameEnd": "ws._onMessageFrameEnd",
        "_onMessageFrame": "ws._onMessageFrame", "_onMessageEnd": "ws._onMessageEnd",
    }
    reg.shape("WSProto", cls=WSP, fields=fields, methods=methods)
    reg.shape("WSServer", cls=P + ":WebSocketServerProtocol", fields=fields, methods=methods)
    reg.shape("WSClient", cls=P + ":WebSocketClientProtocol", fields=fields, methods=methods)
    reg.shape("Ghost", fields={
        "close_frames": "nat", "last_close_payload": "bytes", "data_frames_after_close": "nat",
        "frames_sent": "nat", "last_frame_opcode": "int", "last_frame_payload": "bytes", "last_frame_fin": "bool",
        "last_frame_rsv": "int",
        "n_drop": "nat", "drop_abort": "bool", "n_onclose": "nat", "onclose_clean": "bool", "onclose_code": "opt:int",
        "onclose_reason": "opt:str", "delivered": "list:bytes", "delivered_binary": "list:bool",
        "pongs_received": "list:bytes", "timers_armed": "nat", "wire": "bytes",
        # message level view of the frames emitted so far (updated by sendFrame only)
        "cur_msg": "bytes", "in_msg": "bool", "sent_msgs": "list:bytes", "sent_binary": "list:bool",
        "cur_binary": "bool", "wellformed": "bool",
        # RSV bits per message (the first frame's; continuation frames must carry none) and the compressor's view
        "cur_rsv": "int", "sent_rsv": "list:int", "sent_rsv1_msgs": "nat", "comp_hist": "int", "comp_in": "bytes",
        "comp_open": "bool", "n_absorbed": "nat", "rsv1_base": "nat", "last_inflated": "bytes",
    }, ghost=True)
    # the UTF-8 validator: contracts proved in C09, used here as assumed callee contracts
    from . import c09
    saved = reg.assume_all
    reg.assume_all = True
    c09.build_py(reg)
    reg.assume_all = saved
    c09.ensure_defined()
    # assumed contract of CPython's decoder: bytes.decode("utf8") accepts exactly complete well-formed UTF-8 (RFC 3629).
    # Used as explicit *instances* (hint utf8_decoder_agrees(b)), never as a quantified axiom next to the recursive
    # definition of utf8_run (that combination makes z3 verdicts unstable).
    natives.AXIOMS["utf8_valid"] = [natives.utf8_valid(z3.Empty(BytesSort))]

    def lem_decoder(ex, state, b):
        res = []
        for g, a in alts_of(b):
            if isinstance(a, VBytes):
                res.append(z3.Implies(g, natives.utf8_valid(a.t) == (c09.utf8_run(0, a.t, z3.Length(a.t)) == 0)))
        return VBool(z3.And(*res) if res else z3.BoolVal(True))
    reg.lemma_fn("utf8_decoder_agrees", lem_decoder)

    def lem_slice_concat(ex, state, p_, i, j):
        """instance of the sequence lemma  0 <= i <= j <= len(p)  ==>  p[0:i] + p[i:j] == p[0:j]
        (proved stand-alone in extra_checks: ws_lemma_obligations)"""
        i, j, t = ex.num(i), ex.num(j), p_.t
        return VBool(z3.Implies(z3.And(0 <= i, i <= j, j <= z3.Length(t)),
                                z3.Concat(z3.Extract(t, 0, i), z3.Extract(t, i, j - i)) == z3.Extract(t, 0, j)))
    reg.lemma_fn("seq_slice_concat", lem_slice_concat)
    reg.overrides[(P, "Utf8Validator")] = VClass("Utf8ValidatorIface")
    from pyvc import models as _m

    def m_validator(ex, state, args, kwargs):
        ref = reg.fresh_obj(ex, state, "Utf8ValidatorAny", "utf8vld")
        o = state.heap[ref.oid]
        o.fields["_state"] = VInt(0)        # constructor = reset(): START, index 0 (C09 unit Utf8Validator.reset)
        o.fields["_index"] = VInt(0)
        return ref
    _m.CLASS_MODELS["Utf8ValidatorIface"] = m_validator
    reg.overrides[(P, "XorMaskerNull")] = VClass("XorMaskerNull")
    from pyvc import models
    models.CLASS_MODELS["XorMaskerNull"] = m_null_masker
    reg.overrides[(P, "create_xor_masker")] = VFunc("builtin", "autobahn.websocket.xormasker.create_xor_masker")
    reg.overrides[(P, "txaio")] = VModule("txaio")


def ws_lemma_obligations():
    p_ = z3.Const("lp", BytesSort)
    i, j = z3.Ints("li lj")
    return [("seq-slice-concat", ([0 <= i, i <= j, j <= z3.Length(p_)],
                                  z3.Concat(z3.Extract(p_, 0, i), z3.Extract(p_, i, j - i)) == z3.Extract(p_, 0, j)))]
