"""C13 — WAMP transports attach a session only after valid negotiation and fail closed.

RawSocket (Twisted and asyncio): the opening-handshake decision, the hand-over to the length-prefixed framing, the
asyncio frame decoder, the exception-to-abort ladders and the transport-gone notification are under contract here;
the ITransport.send() implementations are in contracts/transports.py (shared with C10).
"""
import z3

from pyvc.values import *  # noqa
from pyvc.engine import HObj
from . import transports as T

TXR = "autobahn.twisted.rawsocket"
AIR = "autobahn.asyncio.rawsocket"
WWS = "autobahn.wamp.websocket"

ASSUMPTIONS = list(T.ASSUMPTIONS) + [
    "Twisted's Int32StringReceiver.dataReceived (4-octet big-endian length framing, lengthLimitExceeded hook) is "
    "library code outside the repository: modelled as consuming the octets handed to it (ghost.framed)",
    "transport.write / abortConnection / loseConnection / close / abort are total and only recorded (ghost state)",
    "the session factory, ISession.onOpen / onMessage / onClose and ISerializer.unserialize are arbitrary: they "
    "return or raise any Exception",
    "copy.copy of a serializer yields a new serializer object with the same ids",
    "math.log(x, 2) / math.ceil are exact (ceil(log2 x) for 1 <= x <= 2**64; true for the powers of two 2**9..2**24 and "
    "all sizes accepted by setProtocolOptions in CPython's float arithmetic)",
    "termination (the recursive dataReceived call on the remaining octets) is not verified",
]


# ------------------------------------------------------------------------------------------ assumed primitives
def _g(state):
    return state.heap[state.ghost.oid]


def ext_write(ex, state, args, kwargs, sv):
    g = _g(state)
    g.fields["written"] = VBytes(z3.Concat(g.fields["written"].t, args[0].t))
    return VNone


def _bump(field):
    def f(ex, state, args, kwargs, sv):
        g = _g(state)
        g.fields[field] = VInt(simp(g.fields[field].t + 1))
        return VNone
    return f


def ext_framing(ex, state, args, kwargs, sv):
    """Int32StringReceiver.dataReceived(self, data): the octets enter the length-prefixed framing layer"""
    g = _g(state)
    g.fields["framed"] = VBytes(z3.Concat(g.fields["framed"].t, args[1].t))
    return VNone


def _may_raise(ex, state, tag):
    b = z3.Bool(fresh_name(tag + "_raises"))
    rs = state.copy()
    rs.pending = []
    rs.assume(b)
    state.pending.append((rs, ex.mk_exc(rs, "Exception", exact=False)))
    state.assume(z3.Not(b))


def ext_session_factory(ex, state, args, kwargs, sv):
    _may_raise(ex, state, "factory")
    return ex.reg.fresh_obj(ex, state, "SessObj", "new_session")


def ext_on_open(ex, state, args, kwargs, sv):
    g = _g(state)
    g.fields["n_attach"] = VInt(simp(g.fields["n_attach"].t + 1))
    _may_raise(ex, state, "onOpen")
    return VOpaque(fresh_name("onopen_result"))


def ext_on_close(ex, state, args, kwargs, sv):
    g = _g(state)
    g.fields["n_onclose"] = VInt(simp(g.fields["n_onclose"].t + 1))
    _may_raise(ex, state, "onClose")
    return VNone


RAISE_KINDS = ["ProtocolError", "InvalidUriError", "PayloadExceededError", "SerializationError", "CancelledError",
               "Exception"]       # "Exception": any other exception class


def _raise_kinds(ex, state, tag):
    """the callee raises one of the listed kinds (recorded in ghost.raised as 1 + index) or returns"""
    g = _g(state)
    for i, name in enumerate(RAISE_KINDS):
        b = z3.Bool(fresh_name("%s_raises_%s" % (tag, name)))
        rs = state.copy()
        rs.pending = []
        rs.assume(b)
        rs.heap[rs.ghost.oid].fields["raised"] = VInt(i + 1)
        state.pending.append((rs, ex.mk_exc(rs, name, exact=True)))     # "Exception": a class outside the named families
        state.assume(z3.Not(b))


def ext_unserialize(ex, state, args, kwargs, sv):
    _raise_kinds(ex, state, "unserialize")
    o = HObj("list")
    o.items, o.elem = None, "int"
    o.seq = z3.Const(fresh_name("messages"), z3.SeqSort(z3.IntSort()))
    r = state.alloc(o)
    _g(state).fields["unser"] = r
    _g(state).fields["decoded"] = VBool(True)
    return r


def ext_on_message(ex, state, args, kwargs, sv):
    g = _g(state)
    g.fields["n_onmessage"] = VInt(simp(g.fields["n_onmessage"].t + 1))
    g.fields["delivered"] = VBytes(z3.Concat(g.fields["delivered"].t, z3.Unit(ex.num(args[0]))))
    _raise_kinds(ex, state, "onMessage")
    return VNone


def ext_copy(ex, state, args, kwargs, sv):
    """copy.copy(serializer record): a new record with the same field values"""
    src = args[0]
    if not isinstance(src, VSym):
        raise Unsupported("copy.copy of %r" % (src,))
    a = z3.Int(fresh_name("copy_of_ser"))
    alloc = state.sheap.get(("$alloc", ""))
    if alloc is None:
        alloc = z3.Array("H0_alloc", z3.IntSort(), z3.BoolSort())
    state.assume(z3.Not(z3.Select(alloc, a)))
    state.sheap[("$alloc", "")] = z3.Store(alloc, a, z3.BoolVal(True))
    sh = ex.reg.shapes[src.shape]
    for f, typ in sh.fields.items():
        arr = ex.reg._sym_arr(state, src.shape, f, typ)
        state.sheap[ex.reg.heap_key(src.shape, f)] = z3.Store(arr, a, z3.Select(arr, src.t))
    return VSym(src.shape, a)


_clog2 = None


def clog2_term(n):
    """ceil(log2 n) for 1 <= n <= 2**64 as an exact case table"""
    t = z3.IntVal(64)
    for e in range(63, -1, -1):
        t = z3.If(n <= (1 << e), z3.IntVal(e), t)
    return t


def ext_math_log(ex, state, args, kwargs, sv):
    if len(args) != 2 or not (isinstance(args[1], VInt) and z3.is_int_value(simp(args[1].t)) and simp(args[1].t).as_long() == 2):
        raise Unsupported("math.log with a base other than 2")
    n = ex.num(args[0])
    ex.raise_if(state, n <= 0, "ValueError")
    r = z3.Real(fresh_name("log2"))
    c = clog2_term(n)
    state.assume(z3.And(z3.ToReal(c) - 1 < r, r <= z3.ToReal(c)))
    return VReal(r)


def ext_math_ceil(ex, state, args, kwargs, sv):
    r = args[0]
    if isinstance(r, VInt):
        return r
    c = z3.Int(fresh_name("ceil"))
    state.assume(z3.And(z3.ToReal(c) - 1 < r.t, r.t <= z3.ToReal(c)))
    return VInt(c)


# ---- RawSocket frame stream (WAMP spec: 1 octet type in the low 3 bits, 24-bit big-endian length, payload), as
#      recursive spec functions over the octet stream S from position p with receive limit m:
#      rs_canon = the canonical record [type, length] ++ payload of every complete, acceptable frame, in order;
#      rs_stop  = the position where that run of complete frames ends
_IS = z3.SeqSort(z3.IntSort())
#      They are kept opaque for the solver; their defining equations are supplied where needed as instances
#      (lemma rs_unfold -- the definition itself; well-founded because a complete frame advances p by at least 4).
rs_canon = z3.Function("rs_canon", _IS, z3.IntSort(), z3.IntSort(), _IS)
rs_stop = z3.Function("rs_stop", _IS, z3.IntSort(), z3.IntSort(), z3.IntSort())


def rs_len(S, p):
    return S[p + 1] * 65536 + S[p + 2] * 256 + S[p + 3]


def rs_complete(S, p, m):
    return z3.And(p >= 0, p + 4 <= z3.Length(S), S[p] % 8 <= 2, rs_len(S, p) >= 0, rs_len(S, p) <= m,
                  p + 4 + rs_len(S, p) <= z3.Length(S))


def rs_bad(S, p, m):
    """a frame header the receiver must refuse: reserved frame type or a length above the announced maximum"""
    return z3.And(p >= 0, p + 4 <= z3.Length(S), z3.Or(S[p] % 8 > 2, rs_len(S, p) > m))


def rs_unfold(S, p, m):
    """the defining equations of rs_canon / rs_stop at (S, p, m)"""
    L = rs_len(S, p)
    c = rs_complete(S, p, m)
    return z3.And(
        rs_canon(S, p, m) == z3.If(c, z3.Concat(z3.Unit(S[p] % 8), z3.Unit(L), z3.Extract(S, p + 4, L),
                                                rs_canon(S, p + 4 + L, m)), z3.Empty(_IS)),
        rs_stop(S, p, m) == z3.If(c, rs_stop(S, p + 4 + L, m), p))


def _hook(ftype):
    """frame hooks of PrefixProtocol (stringReceived / ping / pong): the frame is recorded as [type, length] ++ payload"""
    def f(ex, state, args, kwargs, sv):
        g = _g(state)
        from pyvc.ops import seq_len
        d = args[0].t
        g.fields["rx"] = VBytes(z3.Concat(g.fields["rx"].t, z3.Unit(z3.IntVal(ftype)), z3.Unit(seq_len(ex, state, d)), d))
        return VNone
    return f


def common_shapes(reg):
    reg.native_spec("canon", lambda ex, state, S, p, m: VBytes(rs_canon(S.t, ex.num(p), ex.num(m))))
    reg.native_spec("stop", lambda ex, state, S, p, m: VInt(rs_stop(S.t, ex.num(p), ex.num(m))))
    reg.native_spec("complete", lambda ex, state, S, p, m: VBool(rs_complete(S.t, ex.num(p), ex.num(m))))
    reg.native_spec("bad", lambda ex, state, S, p, m: VBool(rs_bad(S.t, ex.num(p), ex.num(m))))
    reg.lemma_fn("seq_shift4", lambda ex, state, S, p: VBool(_shift4(S.t, ex.num(p))))
    reg.lemma_fn("rs_unfold", lambda ex, state, S, p, m: VBool(rs_unfold(S.t, ex.num(p), ex.num(m))))
    reg.external("prefix.stringReceived", _hook(0))
    reg.external("prefix.ping", _hook(1))
    reg.external("prefix.pong", _hook(2))
    reg.shape("Ghost", ghost=True, fields={
        "written": "bytes", "n_drop": "nat", "n_close": "nat", "framed": "bytes", "n_attach": "nat", "n_onclose": "nat",
        "n_onmessage": "nat", "n_written": "nat", "last_written": "bytes", "raised": "int", "unser": "any", "decoded": "bool", "rx": "bytes",
        "delivered": "bytes"})
    reg.external("session.onMessage", ext_on_message)
    reg.external("serializer.unserialize", ext_unserialize)
    reg.external("tw.write", ext_write)
    reg.external("tw.drop", _bump("n_drop"))
    reg.external("tw.close", _bump("n_close"))
    reg.external("session_factory", ext_session_factory)
    reg.external("session.onOpen", ext_on_open)
    reg.external("session.onClose", ext_on_close)
    reg.external("copy.copy", ext_copy)
    reg.external("math.log", ext_math_log)
    reg.external("math.ceil", ext_math_ceil)
    from .wamp_common import sym_allocated
    reg.native_spec("allocated", sym_allocated)
    reg.native_spec("clog2", lambda ex, state, n: VInt(clog2_term(ex.num(n))))
    reg.shape("SerRec", fields={"RAWSOCKET_SERIALIZER_ID": "int", "BINARY": "bool"},
              methods={"unserialize": "serializer.unserialize"})
    reg.shape("SessObj", fields={}, methods={"onOpen": "session.onOpen", "onClose": "session.onClose",
                                             "onMessage": "session.onMessage"})
    reg.shape("TDetails", fields={"is_secure": "bool", "is_server": "any", "channel_id": "any", "peer": "any",
                                    "channel_framing": "any"})


def build(reg):
    common_shapes(reg)
    reg.lemma_fn("seq_snoc", lem_seq_snoc)
    reg.mark_inline(TXR + ":WampRawSocketProtocol.isOpen", AIR + ":WampRawSocketMixinGeneral.isOpen",
                    WWS + ":WampWebSocketProtocol.isOpen")
    common = dict(props=["C13"], spec_module="specs.rawsocket")
    # ============================================================ Twisted RawSocket
    reg.shape("TwTransport", fields={}, methods={"write": "tw.write", "abortConnection": "tw.drop",
                                                 "loseConnection": "tw.drop"})
    reg.shape("TwTransportNoAbort", fields={}, methods={"write": "tw.write", "loseConnection": "tw.drop"})
    reg.shapes["TwTransportNoAbort"].absent = ("abortConnection",)      # declared: a transport without abortConnection()
    reg.shape("TwFactory", fields={"_serializers": "dict:int->sym:SerRec", "_serializer": "sym:SerRec",
                                   "_factory": "cb:session_factory"})
    TWF = {"log": "logger", "_handshake_complete": "bool", "_handshake_bytes": "bytes", "_max_len_send": "opt:int",
           "_serializer": "opt:sym:SerRec", "_session": "opt:obj:SessObj", "factory": "obj:TwFactory",
           "transport": "opt:obj:TwTransport|obj:TwTransportNoAbort", "_max_message_size": "int", "MAX_LENGTH": "int",
           "_transport_details": "obj:TDetails"}
    reg.shape("TwServer", cls=TXR + ":WampRawSocketServerProtocol", fields=TWF)
    reg.shape("TwClient", cls=TXR + ":WampRawSocketClientProtocol", fields=TWF)
    reg.external("WampRawSocketProtocol.dataReceived", ext_framing)
    reg.contract("autobahn.twisted.util:transport_channel_id", params={}, returns="any", raises={"Exception+": "True"},
                 verify=False, **common)
    for shape, cls in (("TwServer", "WampRawSocketServerProtocol"), ("TwClient", "WampRawSocketClientProtocol")):
        # ---- abort(): tears the transport down whether or not a session is attached; TransportLost only without transport
        reg.contract(TXR + ":WampRawSocketProtocol.abort", name=TXR + ":WampRawSocketProtocol.abort<%s>" % shape,
                     params={"self": "obj:" + shape}, modifies=["ghost.n_drop"],
                     ensures=["ghost.n_drop == old(ghost.n_drop) + 1"],
                     raises={"TransportLost": "self.transport is None"},
                     raises_ensures={"TransportLost": ["ghost.n_drop == old(ghost.n_drop)"]}, **common)
        # ---- _on_handshake_complete: the one place a session is created and attached
        reg.contract(TXR + ":WampRawSocketProtocol._on_handshake_complete",
                     name=TXR + ":WampRawSocketProtocol._on_handshake_complete<%s>" % shape,
                     params={"self": "obj:" + shape}, requires=["self.transport is not None"],
                     modifies=["self._session", "self._transport_details.channel_id", "ghost.n_attach", "ghost.n_drop"],
                     ensures=["ghost.n_attach <= old(ghost.n_attach) + 1",
                              # a session whose construction / onOpen failed: the transport is dropped
                              "ghost.n_attach == old(ghost.n_attach) + 1 or ghost.n_drop == old(ghost.n_drop) + 1",
                              "ghost.n_drop <= old(ghost.n_drop) + 1"], **common)
    HS_REQ = ["len(self._handshake_bytes) <= 4", "implies(self._handshake_complete, len(self._handshake_bytes) == 4)",
              "self.transport is not None", "512 <= self._max_message_size <= 2**24"]
    S = "(old(self._handshake_bytes) + data)"
    FRAME_KEEP = ("self._handshake_complete == old(self._handshake_complete) and self._serializer is old(self._serializer) "
                  "and self._max_len_send == old(self._max_len_send) and self.MAX_LENGTH == old(self.MAX_LENGTH) and "
                  "implies(self._serializer is not None, self._serializer.RAWSOCKET_SERIALIZER_ID == "
                  "old(self._serializer.RAWSOCKET_SERIALIZER_ID))")
    QUIET = ("ghost.written == old(ghost.written) and ghost.n_attach == old(ghost.n_attach)")
    MODS = ["self._handshake_bytes", "self._handshake_complete", "self._max_len_send", "self._serializer",
            "self.MAX_LENGTH", "self._session", "self._transport_details.channel_id", "ghost.written", "ghost.n_drop",
            "ghost.framed", "ghost.n_attach", "SerRec.*"]
    SRV_VALID = "%s[0] == 127 and hs_ser(%s) in self.factory._serializers" % (S, S)
    E = "clog2(self._max_message_size)"
    reg.contract(
        TXR + ":WampRawSocketServerProtocol.dataReceived", params={"self": "obj:TwServer", "data": "bytes"},
        requires=HS_REQ + ["forall(k, 0, 16, implies(k in self.factory._serializers, "
                           "self.factory._serializers[k].RAWSOCKET_SERIALIZER_ID == k and "
                           "allocated(self.factory._serializers[k])))"],
        modifies=MODS,
        ensures=[
            # after the handshake every octet goes to the framing layer, nothing else happens here
            "implies(old(self._handshake_complete), ghost.framed == old(ghost.framed) + data and %s and %s and "
            "self._handshake_bytes == old(self._handshake_bytes) and ghost.n_drop == old(ghost.n_drop))" % (QUIET, FRAME_KEEP),
            # fewer than four octets so far: accumulate, decide nothing
            "implies(not old(self._handshake_complete) and len(%s) < 4, self._handshake_bytes == %s and %s and %s and "
            "ghost.n_drop == old(ghost.n_drop) and ghost.framed == old(ghost.framed))" % (S, S, QUIET, FRAME_KEEP),
            # the decision depends on the first four octets of the stream only, however they were segmented
            "implies(not old(self._handshake_complete) and len(%s) >= 4, self._handshake_bytes == %s[0:4])" % (S, S),
            # valid: reply 7f | (exp-9)<<4 | serializer | 00 00, attach exactly one session, same serializer, limits
        ] + ["implies(not old(self._handshake_complete) and len(%s) >= 4 and (%s), %s)" % (S, SRV_VALID, c) for c in (
            "self._handshake_complete",
            "ghost.written == old(ghost.written) + bytes([127, hs_octet2(%s - 9, hs_ser(%s)), 0, 0])" % (E, S),
            "self._max_len_send == hs_max_len(%s)" % S,
            "self._serializer.RAWSOCKET_SERIALIZER_ID == hs_ser(%s)" % S,
            "self.MAX_LENGTH == 2 ** %s" % E,
            "ghost.framed == old(ghost.framed) + %s[4:]" % S)] + [
            "implies(not old(self._handshake_complete) and len(%s) >= 4 and (%s), "
            "ghost.n_attach <= old(ghost.n_attach) + 1 and "
            "(ghost.n_attach == old(ghost.n_attach) + 1 or ghost.n_drop == old(ghost.n_drop) + 1))" % (S, SRV_VALID),
            # anything else: refused -- transport dropped, nothing written, no session, no octet reaches the framing
            "implies(not old(self._handshake_complete) and len(%s) >= 4 and not (%s), not self._handshake_complete and "
            "%s and ghost.n_drop == old(ghost.n_drop) + 1 and ghost.framed == old(ghost.framed) and "
            "self._session is old(self._session))" % (S, SRV_VALID, QUIET),
        ], **common)

    # ---- Twisted client: the reply must carry the magic octet and exactly the serializer that was requested
    CLI_VALID = "%s[0] == 127 and hs_ser(%s) == old(self._serializer.RAWSOCKET_SERIALIZER_ID)" % (S, S)
    NOT_DONE = "not old(self._handshake_complete) and len(%s) >= 4" % S
    reg.contract(
        TXR + ":WampRawSocketClientProtocol.dataReceived", params={"self": "obj:TwClient", "data": "bytes"},
        requires=HS_REQ + ["self._serializer is not None", "allocated(self._serializer)",
                           "1 <= self._serializer.RAWSOCKET_SERIALIZER_ID <= 15"],
        modifies=MODS,
        ensures=[
            "implies(old(self._handshake_complete), ghost.framed == old(ghost.framed) + data and %s and %s and "
            "self._handshake_bytes == old(self._handshake_bytes) and ghost.n_drop == old(ghost.n_drop))" % (QUIET, FRAME_KEEP),
            "implies(not old(self._handshake_complete) and len(%s) < 4, self._handshake_bytes == %s and %s and %s and "
            "ghost.n_drop == old(ghost.n_drop) and ghost.framed == old(ghost.framed))" % (S, S, QUIET, FRAME_KEEP),
            "implies(%s, self._handshake_bytes == %s[0:4])" % (NOT_DONE, S),
            # the client never writes during the handshake decision and keeps its serializer
            "ghost.written == old(ghost.written) and self._serializer is old(self._serializer)",
        ] + ["implies(%s and (%s), %s)" % (NOT_DONE, CLI_VALID, c) for c in (
            "self._handshake_complete", "self._max_len_send == hs_max_len(%s)" % S,
            "ghost.framed == old(ghost.framed) + %s[4:]" % S,
            "ghost.n_attach <= old(ghost.n_attach) + 1 and "
            "(ghost.n_attach == old(ghost.n_attach) + 1 or ghost.n_drop == old(ghost.n_drop) + 1)")] + [
            # wrong magic, another serializer, or the server's error reply (serializer code 0): refused
            "implies(%s and not (%s), not self._handshake_complete and ghost.n_attach == old(ghost.n_attach) and "
            "ghost.n_drop == old(ghost.n_drop) + 1 and ghost.framed == old(ghost.framed) and "
            "self._session is old(self._session))" % (NOT_DONE, CLI_VALID),
            "implies(%s and hs_ser(%s) == 0, not self._handshake_complete)" % (NOT_DONE, S),
        ], **common)
    # ---- connectionMade: initial state; the client announces 7f | (exp-9)<<4 | serializer | 00 00
    reg.contract("autobahn.twisted.util:create_transport_details", params={}, returns="obj:TDetails", verify=False, **common)
    reg.external("txaio.create_future", lambda ex, state, args, kwargs, sv: VOpaque(fresh_name("future")))
    INIT = ["not self._handshake_complete and len(self._handshake_bytes) == 0 and self._session is None and "
            "self._max_len_send is None"]
    TWF2 = dict(TWF, is_closed="any", peer="any", is_server="any")
    reg.shapes["TwServer"].fields.update(TWF2)
    reg.shapes["TwClient"].fields.update(TWF2)
    CM_MOD = ["self._transport_details", "self.peer", "self.is_closed", "self._session", "self._serializer",
              "self._handshake_complete", "self._handshake_bytes", "self._max_len_send"]
    reg.contract(TXR + ":WampRawSocketProtocol.connectionMade", params={"self": "obj:TwClient"}, modifies=CM_MOD,
                 ensures=INIT + ["self._serializer is None"], **common)
    reg.contract(TXR + ":WampRawSocketClientProtocol.connectionMade", params={"self": "obj:TwClient"},
                 requires=["self.transport is not None", "512 <= self._max_message_size <= 2**24",
                           "1 <= self.factory._serializer.RAWSOCKET_SERIALIZER_ID <= 15"],
                 modifies=CM_MOD + ["self.MAX_LENGTH", "ghost.written", "SerRec.*"],
                 ensures=INIT + [
                     "ghost.written == old(ghost.written) + bytes([127, hs_octet2(%s - 9, "
                     "self.factory._serializer.RAWSOCKET_SERIALIZER_ID), 0, 0])" % E,
                     "self.MAX_LENGTH == 2 ** %s" % E,
                     "self._serializer.RAWSOCKET_SERIALIZER_ID == self.factory._serializer.RAWSOCKET_SERIALIZER_ID"],
                 **common)
    # ---- an over-long incoming frame is refused by the framing layer's hook, never buffered
    reg.contract(TXR + ":WampRawSocketProtocol.lengthLimitExceeded", params={"self": "obj:TwServer", "length": "int"},
                 ensures=["False"], raises={"PayloadExceededError": "True"}, **common)

    # ---- stringReceived: messages are handed to the session in order; whatever goes wrong (undecodable payload,
    #      protocol violation, internal error) aborts the transport exactly once and never escapes
    for shape in ("TwServer", "TwClient"):
        reg.contract(
            TXR + ":WampRawSocketProtocol.stringReceived", name=TXR + ":WampRawSocketProtocol.stringReceived<%s>" % shape,
            params={"self": "obj:" + shape, "payload": "bytes"},
            requires=["self._session is not None and self.transport is not None and self._serializer is not None",
                      "ghost.raised == 0 and not ghost.decoded"],
            modifies=["ghost.raised", "ghost.unser", "ghost.decoded", "ghost.delivered", "ghost.n_onmessage",
                      "ghost.n_drop"],
            ensures=[
                # what the session saw is a prefix, in order, of what the payload decoded to ...
                "implies(ghost.decoded and ghost.raised != 0, ghost.delivered == old(ghost.delivered) + "
                "bytes(ghost.unser)[0:ghost.n_onmessage - old(ghost.n_onmessage)])",
                "implies(not ghost.decoded, ghost.delivered == old(ghost.delivered) and "
                "ghost.n_onmessage == old(ghost.n_onmessage) and ghost.raised != 0)",
                "implies(ghost.raised == 0, ghost.delivered == old(ghost.delivered) + bytes(ghost.unser) and "
                "ghost.n_drop == old(ghost.n_drop))",
                # ... and any failure other than a cancellation tears the transport down, once
                "implies(ghost.raised != 0 and ghost.raised != 5, ghost.n_drop == old(ghost.n_drop) + 1)",
                "implies(ghost.raised == 5, ghost.n_drop == old(ghost.n_drop))"],
            loops={"iter:self._serializer.unserialize(payload)": {"index": "_i", "invariant": [
                "ghost.raised == 0 and ghost.n_drop == old(ghost.n_drop) and ghost.decoded",
                "ghost.n_onmessage == old(ghost.n_onmessage) + _i",
                "ghost.delivered == old(ghost.delivered) + bytes(ghost.unser)[0:_i]"],
                "modifies": ["ghost.delivered", "ghost.n_onmessage", "ghost.raised"],
                "hints": ["seq_snoc(ghost.unser, _i)", "seq_snoc(ghost.unser, _i - 1)"]}},
            hints=["seq_snoc(ghost.unser, ghost.n_onmessage - old(ghost.n_onmessage) - 1)"],
            split_exits=True, **common)
    # ---- connectionLost: the session is told once, then detached; nothing escapes
    reg.shape("Reason", fields={"value": "any"})
    reg.external("txaio.resolve", lambda ex, state, args, kwargs, sv: VNone)
    for shape in ("TwServer", "TwClient"):
        reg.contract(
            TXR + ":WampRawSocketProtocol.connectionLost", name=TXR + ":WampRawSocketProtocol.connectionLost<%s>" % shape,
            params={"self": "obj:" + shape, "reason": "obj:Reason"},
            modifies=["self._session", "ghost.n_onclose"],
            ensures=["self._session is None",
                     "implies(old(self._session) is not None, ghost.n_onclose == old(ghost.n_onclose) + 1)",
                     "implies(old(self._session) is None, ghost.n_onclose == old(ghost.n_onclose))"], **common)
        reg.contract(
            TXR + ":WampRawSocketProtocol.close", name=TXR + ":WampRawSocketProtocol.close<%s>" % shape,
            params={"self": "obj:" + shape}, requires=["self.transport is not None"], modifies=["ghost.n_drop"],
            ensures=["old(self._session) is not None and ghost.n_drop == old(ghost.n_drop) + 1"],
            raises={"TransportLost": "self._session is None"},
            raises_ensures={"TransportLost": ["ghost.n_drop == old(ghost.n_drop)"]}, **common)

    build_asyncio(reg, common)


def build_asyncio(reg, common):
    # ============================================================ asyncio RawSocket
    reg.shape("AioTransport", fields={}, methods={"write": "tw.write", "close": "tw.close", "abort": "tw.drop"})
    reg.shape("AioTransportNoAbort", fields={}, methods={"write": "tw.write", "close": "tw.close"})
    reg.shapes["AioTransportNoAbort"].absent = ("abort",)               # declared: a transport without abort()
    reg.shape("AioFactory", fields={"_serializers": "dict:int->sym:SerRec", "_serializer": "sym:SerRec",
                                    "_factory": "cb:session_factory"})
    AIOF = {"log": "logger", "transport": "opt:obj:AioTransport|obj:AioTransportNoAbort", "_buffer": "bytes",
            "_handshake_done": "bool", "max_length": "int", "max_length_send": "int", "_length_exp": "int",
            "prefix_length": "const:4", "prefix_format": "const:'!L'", "factory": "obj:AioFactory",
            "_session": "opt:obj:SessObj", "_serializer": "opt:sym:SerRec", "_transport_details": "obj:TDetails",
            "peer": "any", "is_server": "any"}
    ABSENT = ("_session", "_serializer")
    reg.shape("AioServer", cls=AIR + ":WampRawSocketServerProtocol", fields=AIOF, absent_none=ABSENT)
    reg.shape("AioClient", cls=AIR + ":WampRawSocketClientProtocol", fields=AIOF, absent_none=ABSENT)
    reg.contract("autobahn.asyncio.util:transport_channel_id", params={}, returns="any", raises={"Exception+": "True"},
                 verify=False, **common)
    B = "self._buffer"
    # ---- parse_handshake: magic octet, reserved octets, serializer / length nibbles
    for shape in ("AioServer", "AioClient"):
        reg.contract(
            AIR + ":RawSocketProtocol.parse_handshake", name=AIR + ":RawSocketProtocol.parse_handshake<%s>" % shape,
            params={"self": "obj:" + shape}, returns="tuple:int,int", requires=["len(self._buffer) >= 4"],
            modifies=["self.max_length_send"],
            ensures=["%s[0] == 127 and %s[2] == 0 and %s[3] == 0" % (B, B, B),
                     "result[0] == hs_ser(%s) and result[1] == hs_lexp(%s)" % (B, B),
                     "self.max_length_send == hs_max_len(%s)" % B],
            raises={"HandshakeError": "%s[0] != 127 or %s[2] != 0 or %s[3] != 0" % (B, B, B)}, **common)
        # ---- abort / close (ITransport)
        reg.contract(
            AIR + ":WampRawSocketMixinAsyncio.abort", name=AIR + ":WampRawSocketMixinAsyncio.abort<%s>" % shape,
            params={"self": "obj:" + shape}, modifies=["ghost.n_drop", "ghost.n_close"],
            ensures=["ghost.n_drop + ghost.n_close == old(ghost.n_drop + ghost.n_close) + 1",
                     "ghost.n_drop >= old(ghost.n_drop) and ghost.n_close >= old(ghost.n_close)"],
            # like its Twisted twin: only a transport that is really gone is a lost transport
            raises={"TransportLost": "self.transport is None"},
            raises_ensures={"TransportLost": ["ghost.n_drop == old(ghost.n_drop) and ghost.n_close == old(ghost.n_close)"]},
            **common)
    # ---- server: reply 7f | exp<<4 | serializer | 00 00 for a supported serializer, the error reply 7f 10 00 00 otherwise
    SUP = "hs_ser(%s) in self.factory._serializers" % B
    reg.contract(
        AIR + ":RawSocketServerProtocol.process_handshake", params={"self": "obj:AioServer"},
        requires=["len(self._buffer) >= 4", "self.transport is not None", "0 <= self._length_exp <= 15",
                  "forall(k, 0, 16, implies(k in self.factory._serializers, "
                  "self.factory._serializers[k].RAWSOCKET_SERIALIZER_ID == k and allocated(self.factory._serializers[k])))"],
        modifies=["self.max_length_send", "self._serializer", "ghost.written", "ghost.n_drop", "ghost.n_close", "SerRec.*"],
        ensures=["%s[0] == 127 and %s[2] == 0 and %s[3] == 0 and %s" % (B, B, B, SUP),
                 "ghost.written == old(ghost.written) + bytes([127, hs_octet2(self._length_exp, hs_ser(%s)), 0, 0])" % B,
                 "self._serializer is not None and self._serializer.RAWSOCKET_SERIALIZER_ID == hs_ser(%s)" % B,
                 "self.max_length_send == hs_max_len(%s)" % B,
                 "ghost.n_drop == old(ghost.n_drop) and ghost.n_close == old(ghost.n_close)"],
        raises={"HandshakeError": "%s[0] != 127 or %s[2] != 0 or %s[3] != 0 or not (%s)" % (B, B, B, SUP)},
        raises_ensures={"HandshakeError": [
            "implies(%s[0] == 127 and %s[2] == 0 and %s[3] == 0, "
            "ghost.written == old(ghost.written) + bytes([127, 16, 0, 0]))" % (B, B, B),
            "implies(not (%s[0] == 127 and %s[2] == 0 and %s[3] == 0), ghost.written == old(ghost.written))" % (B, B, B),
            "old(ghost.n_drop + ghost.n_close) <= ghost.n_drop + ghost.n_close <= old(ghost.n_drop + ghost.n_close) + 1",
            "ghost.n_close >= old(ghost.n_close) and ghost.n_drop >= old(ghost.n_drop)"]},
        inline_calls=[AIR + ":WampRawSocketServerProtocol.supports_serializer"], **common)
    # ---- client: the reply must name the requested serializer; serializer code 0 is the server's error reply
    reg.contract(
        AIR + ":RawSocketClientProtocol.process_handshake", params={"self": "obj:AioClient"},
        requires=["len(self._buffer) >= 4", "self._serializer is not None",
                  "1 <= self._serializer.RAWSOCKET_SERIALIZER_ID <= 15"],
        modifies=["self.max_length_send"],
        ensures=["%s[0] == 127 and %s[2] == 0 and %s[3] == 0" % (B, B, B),
                 "hs_ser(%s) == self._serializer.RAWSOCKET_SERIALIZER_ID" % B,
                 "self.max_length_send == hs_max_len(%s)" % B],
        raises={"HandshakeError": "%s[0] != 127 or %s[2] != 0 or %s[3] != 0 or hs_ser(%s) != "
                                  "self._serializer.RAWSOCKET_SERIALIZER_ID" % (B, B, B, B)},
        inline_calls=[AIR + ":WampRawSocketClientProtocol.serializer_id"], **common)

    for shape in ("AioServer", "AioClient"):
        reg.shapes[shape].fields.update({"_header": "opt:tuple:int,int"})
        # ---- _on_handshake_complete: the one place a session is created and attached; a failing factory / onOpen
        #      drops the transport instead of escaping
        reg.contract(
            AIR + ":WampRawSocketMixinGeneral._on_handshake_complete",
            name=AIR + ":WampRawSocketMixinGeneral._on_handshake_complete<%s>" % shape,
            params={"self": "obj:" + shape}, requires=["self.transport is not None"],
            modifies=["self._session", "self._transport_details.channel_id", "ghost.n_attach", "ghost.n_drop", "ghost.n_close"],
            ensures=["ghost.n_attach <= old(ghost.n_attach) + 1",
                     "ghost.n_attach == old(ghost.n_attach) + 1 or "
                     "ghost.n_drop + ghost.n_close == old(ghost.n_drop + ghost.n_close) + 1",
                     "ghost.n_drop + ghost.n_close <= old(ghost.n_drop + ghost.n_close) + 1"], **common)
        # ---- stringReceived: messages to the session in order; any failure aborts the transport once, nothing escapes
        reg.contract(
            AIR + ":WampRawSocketMixinGeneral.stringReceived",
            name=AIR + ":WampRawSocketMixinGeneral.stringReceived<%s>" % shape,
            params={"self": "obj:" + shape, "payload": "bytes"},
            requires=["self._session is not None and self.transport is not None and self._serializer is not None",
                      "ghost.raised == 0 and not ghost.decoded"],
            modifies=["ghost.raised", "ghost.unser", "ghost.decoded", "ghost.delivered", "ghost.n_onmessage",
                      "ghost.n_drop", "ghost.n_close"],
            ensures=[
                "implies(ghost.decoded and ghost.raised != 0, ghost.delivered == old(ghost.delivered) + "
                "bytes(ghost.unser)[0:ghost.n_onmessage - old(ghost.n_onmessage)])",
                "implies(not ghost.decoded, ghost.delivered == old(ghost.delivered) and "
                "ghost.n_onmessage == old(ghost.n_onmessage) and ghost.raised != 0)",
                "implies(ghost.raised == 0, ghost.delivered == old(ghost.delivered) + bytes(ghost.unser) and "
                "ghost.n_drop + ghost.n_close == old(ghost.n_drop + ghost.n_close))",
                "implies(ghost.raised != 0, ghost.n_drop + ghost.n_close == old(ghost.n_drop + ghost.n_close) + 1)"],
            loops={"iter:self._serializer.unserialize(payload)": {"index": "_i", "invariant": [
                "ghost.raised == 0 and ghost.n_drop == old(ghost.n_drop) and ghost.n_close == old(ghost.n_close) and "
                "ghost.decoded",
                "ghost.n_onmessage == old(ghost.n_onmessage) + _i",
                "ghost.delivered == old(ghost.delivered) + bytes(ghost.unser)[0:_i]"],
                "modifies": ["ghost.delivered", "ghost.n_onmessage", "ghost.raised"],
                "hints": ["seq_snoc(ghost.unser, _i)", "seq_snoc(ghost.unser, _i - 1)"]}},
            hints=["seq_snoc(ghost.unser, ghost.n_onmessage - old(ghost.n_onmessage) - 1)"],
            # asyncio's CancelledError is a BaseException: task cancellation propagates by design (not an Exception
            # the ladder is meant to absorb); every Exception is absorbed
            raises={"CancelledError": "True"},
            split_exits=True, **common)
        # ---- transport gone: the session is told once and detached; nothing escapes (also without a session)
        reg.contract(
            AIR + ":WampRawSocketMixinAsyncio._on_connection_lost",
            name=AIR + ":WampRawSocketMixinAsyncio._on_connection_lost<%s>" % shape,
            params={"self": "obj:" + shape, "exc": "any"}, modifies=["self._session", "ghost.n_onclose"],
            ensures=["self._session is None",
                     "implies(old(self._session) is not None, ghost.n_onclose == old(ghost.n_onclose) + 1)",
                     "implies(old(self._session) is None, ghost.n_onclose == old(ghost.n_onclose))"], **common)
        reg.contract(
            AIR + ":WampRawSocketMixinAsyncio.close", name=AIR + ":WampRawSocketMixinAsyncio.close<%s>" % shape,
            params={"self": "obj:" + shape}, requires=["self.transport is not None"], modifies=["ghost.n_close"],
            ensures=["old(self._session) is not None and ghost.n_close == old(ghost.n_close) + 1"],
            raises={"TransportLost": "self._session is None"},
            raises_ensures={"TransportLost": ["ghost.n_close == old(ghost.n_close)"]}, **common)
    # ---- the frame decoder: whatever the read boundaries, the hooks see exactly the complete frames of the stream, in
    #      order, each with exactly its payload; the unconsumed tail (and the cached header of a partial frame) carry
    #      over; a reserved frame type or an over-long frame closes the transport before anything of it is buffered on
    reg.shape("AioPrefix", cls=AIR + ":PrefixProtocol", fields={
        "log": "logger", "transport": "opt:obj:AioTransport", "_buffer": "bytes", "_header": "opt:tuple:int,int",
        "max_length": "int", "prefix_length": "const:4", "prefix_format": "const:'!L'"},
        methods={"stringReceived": "prefix.stringReceived", "ping": "prefix.ping", "pong": "prefix.pong"})
    M = "self.max_length"
    CACHE = ("(self._header is None or (len(%(b)s) >= %(p)s + 4 and self._header[0] == %(b)s[%(p)s] %% 8 and "
             "self._header[1] == be24(%(b)s, %(p)s + 1) and self._header[0] <= 2 and self._header[1] <= " + M + "))")
    S0 = "(old(self._buffer) + data_0)"
    reg.contract(
        AIR + ":PrefixProtocol.data_received", params={"self": "obj:AioPrefix", "data": "bytes"},
        requires=["self.transport is not None", "0 <= self.max_length <= 2**24",
                  CACHE % {"b": "self._buffer", "p": "0"},
                  # a cached header belongs to a frame that is not complete yet
                  "implies(self._header is not None, len(self._buffer) < 4 + self._header[1])"],
        modifies=["self._buffer", "self._header", "ghost.rx", "ghost.n_close"],
        ensures=[
            "ghost.rx == old(ghost.rx) + canon(%s, 0, %s)" % (S0, M),
            "ghost.n_close == old(ghost.n_close) or ghost.n_close == old(ghost.n_close) + 1",
            "(ghost.n_close == old(ghost.n_close) + 1) == bad(%s, stop(%s, 0, %s), %s)" % (S0, S0, M, M),
            "implies(ghost.n_close == old(ghost.n_close), self._buffer == %s[stop(%s, 0, %s):])" % (S0, S0, M),
            "implies(ghost.n_close == old(ghost.n_close), not complete(self._buffer, 0, %s) and "
            "not bad(self._buffer, 0, %s))" % (M, M),
            "implies(ghost.n_close == old(ghost.n_close), %s and "
            "implies(self._header is not None, len(self._buffer) < 4 + self._header[1]))"
            % (CACHE % {"b": "self._buffer", "p": "0"})],
        loops={"while:remaining >= self.prefix_length": {
            "invariant": [
                "self._buffer == %s and 0 <= pos <= len(self._buffer) and remaining == len(self._buffer) - pos" % S0,
                "ghost.n_close == old(ghost.n_close)",
                "ghost.rx + canon(self._buffer, pos, %s) == old(ghost.rx) + canon(self._buffer, 0, %s)" % (M, M),
                "stop(self._buffer, pos, %s) == stop(self._buffer, 0, %s)" % (M, M),
                "self._header is None or pos == 0",
                CACHE % {"b": "self._buffer", "p": "0"}],
            "modifies": ["self._header", "ghost.rx", "ghost.n_close"],
            "hints": ["rs_unfold(self._buffer, pos, %s)" % M, "rs_unfold(self._buffer, 0, %s)" % M],
            "vars": {"pos": "int", "remaining": "int"}}},
        hints=["seq_shift4(old(self._buffer) + data, stop(old(self._buffer) + data, 0, %s))" % M],
        inline_calls=[AIR + ":PrefixProtocol.protocol_error"], **common)

    # ---- RawSocketProtocol.data_received: handshake accumulation, decision, hand-over of the octets that follow
    SB = "(old(self._buffer) + data)"
    OK3 = "%s[0] == 127 and %s[2] == 0 and %s[3] == 0" % (SB, SB, SB)
    VALID = {"AioServer": OK3 + " and hs_ser(%s) in self.factory._serializers" % SB,
             "AioClient": OK3 + " and hs_ser(%s) == old(self._serializer.RAWSOCKET_SERIALIZER_ID)" % SB}
    EXTRA_REQ = {
        "AioServer": ["0 <= self._length_exp <= 15",
                      "forall(k, 0, 16, implies(k in self.factory._serializers, "
                      "self.factory._serializers[k].RAWSOCKET_SERIALIZER_ID == k and "
                      "allocated(self.factory._serializers[k])))"],
        "AioClient": ["self._serializer is not None", "1 <= self._serializer.RAWSOCKET_SERIALIZER_ID <= 15"]}
    DROPS = "ghost.n_drop + ghost.n_close"
    for shape in ("AioServer", "AioClient"):
        NOTYET = "not old(self._handshake_done) and len(%s) >= 4" % SB
        reg.contract(
            AIR + ":RawSocketProtocol.data_received", name=AIR + ":RawSocketProtocol.data_received<%s>" % shape,
            params={"self": "obj:" + shape, "data": "bytes"},
            requires=["self.transport is not None", "0 <= self.max_length <= 2**24",
                      "implies(not self._handshake_done, self._header is None)",
                      CACHE % {"b": "self._buffer", "p": "0"},
                      "implies(self._header is not None, len(self._buffer) < 4 + self._header[1])"] + EXTRA_REQ[shape],
            modifies=["self._buffer", "self._header", "self._handshake_done", "self.max_length_send", "self._serializer",
                      "self._session", "self._transport_details.channel_id", "ghost.rx", "ghost.written", "ghost.n_close",
                      "ghost.n_drop", "ghost.n_attach", "SerRec.*"],
            ensures=[
                # after the handshake: exactly the frame decoder
                "implies(old(self._handshake_done), ghost.rx == old(ghost.rx) + canon(%s, 0, %s) and "
                "ghost.n_attach == old(ghost.n_attach) and ghost.written == old(ghost.written) and "
                "self._handshake_done)" % (SB, M),
                # fewer than four octets: accumulate and decide nothing
                "implies(not old(self._handshake_done) and len(%s) < 4, self._buffer == %s and not self._handshake_done "
                "and ghost.n_attach == old(ghost.n_attach) and ghost.written == old(ghost.written) and "
                "ghost.rx == old(ghost.rx) and %s == old(%s))" % (SB, SB, DROPS, DROPS),
                # valid handshake: exactly one attach attempt, and the octets after the handshake go to the decoder
                "implies(%s and (%s), self._handshake_done and ghost.n_attach <= old(ghost.n_attach) + 1 and "
                "ghost.rx == old(ghost.rx) + canon(%s[4:], 0, %s))" % (NOTYET, VALID[shape], SB, M),
                # anything else is refused: transport closed, no session, nothing decoded
                "implies(%s and not (%s), not self._handshake_done and ghost.n_attach == old(ghost.n_attach) and "
                "ghost.rx == old(ghost.rx) and ghost.n_close >= old(ghost.n_close) + 1 and "
                "self._session is old(self._session))" % (NOTYET, VALID[shape]),
            ],
            hints=["rs_unfold(%s[4:], 0, %s)" % (SB, M)],
            inline_calls=[AIR + ":PrefixProtocol.protocol_error"], **common)
    # ---- the client opens with 7f | exp<<4 | serializer | 00 00
    reg.contract(AIR + ":PrefixProtocol.connection_made", params={"self": "obj:AioClient", "transport": "obj:AioTransport"},
                 returns="none", modifies=["self.transport", "self._transport_details", "self.peer", "self._buffer",
                                           "self._header", "self._wait_closed"],
                 ensures=["self.transport is not None and len(self._buffer) == 0 and self._header is None"],
                 verify=False, **common)
    reg.shapes["AioClient"].fields.update({"_wait_closed": "any"})
    reg.contract(
        AIR + ":RawSocketClientProtocol.connection_made", params={"self": "obj:AioClient", "transport": "obj:AioTransport"},
        requires=["0 <= self._length_exp <= 15", "1 <= self.factory._serializer.RAWSOCKET_SERIALIZER_ID <= 15",
                  "allocated(self.factory._serializer)",
                  "self._serializer is None"],      # a fresh protocol instance: the attribute is not set yet
        modifies=["self.transport", "self._transport_details", "self.peer", "self._buffer", "self._header",
                  "self._wait_closed", "self._handshake_done", "self._serializer", "ghost.written", "SerRec.*"],
        ensures=["not self._handshake_done and len(self._buffer) == 0 and self._header is None",
                 "ghost.written == old(ghost.written) + bytes([127, hs_octet2(self._length_exp, "
                 "self.factory._serializer.RAWSOCKET_SERIALIZER_ID), 0, 0])",
                 "self._serializer.RAWSOCKET_SERIALIZER_ID == self.factory._serializer.RAWSOCKET_SERIALIZER_ID"],
        inline_calls=[AIR + ":WampRawSocketClientProtocol.serializer_id", AIR + ":RawSocketProtocol.connection_made"],
        **common)

    build_ws(reg, dict(common, spec_module="specs.rawsocket"))


def ext_ws_fail(ex, state, args, kwargs, sv):
    g = _g(state)
    g.fields["n_fail"] = VInt(simp(g.fields["n_fail"].t + 1))
    g.fields["fail_code"] = args[0]
    return VNone


def build_ws(reg, common):
    # ============================================================ WAMP-over-WebSocket (transport-agnostic mixin)
    reg.shapes["Ghost"].fields.update({"n_fail": "nat", "fail_code": "int", "n_sendclose": "nat"})
    reg.external("ws.fail", ext_ws_fail)
    reg.external("ws.sendClose", _bump("n_sendclose"))
    reg.external("traceback.format_exc", lambda ex, state, args, kwargs, sv: VStr(z3.String(fresh_name("tb"))))
    reg.shape("WsSess", fields={"_authid": "any", "_session_id": "any", "_transport": "any"},
              methods={"onOpen": "session.onOpen", "onClose": "session.onClose", "onMessage": "session.onMessage"})
    reg.shape("WsFactory", fields={"_factory": "cb:ws_session_factory", "_serializers": "dict:str->sym:SerRec",
                                   "protocols": "any"})
    reg.external("ws_session_factory", lambda ex, state, args, kwargs, sv: (
        _may_raise(ex, state, "factory"), ex.reg.fresh_obj(ex, state, "WsSess", "new_session"))[1])
    reg.shape("WampWs", cls=WWS + ":WampWebSocketProtocol", fields={
        "log": "logger", "_serializer": "opt:sym:SerRec", "_session": "opt:obj:WsSess", "factory": "obj:WsFactory",
        "_onclose_reason": "any"},
        methods={"_fail_connection": "ws.fail", "sendClose": "ws.sendClose"})
    # ---- onMessage: messages to the session in order; a WAMP protocol violation (incl. an invalid URI) fails the
    #      connection with 1002, anything else with 1011; nothing escapes
    reg.contract(
        WWS + ":WampWebSocketProtocol.onMessage", params={"self": "obj:WampWs", "payload": "bytes", "isBinary": "bool"},
        requires=["self._session is not None and self._serializer is not None", "ghost.raised == 0 and not ghost.decoded"],
        modifies=["ghost.raised", "ghost.unser", "ghost.decoded", "ghost.delivered", "ghost.n_onmessage", "ghost.n_fail",
                  "ghost.fail_code"],
        ensures=[
            "implies(ghost.decoded and ghost.raised != 0, ghost.delivered == old(ghost.delivered) + "
            "bytes(ghost.unser)[0:ghost.n_onmessage - old(ghost.n_onmessage)])",
            "implies(not ghost.decoded, ghost.delivered == old(ghost.delivered) and "
            "ghost.n_onmessage == old(ghost.n_onmessage) and ghost.raised != 0)",
            "implies(ghost.raised == 0, ghost.delivered == old(ghost.delivered) + bytes(ghost.unser) and "
            "ghost.n_fail == old(ghost.n_fail))",
            "implies(ghost.raised != 0, ghost.n_fail == old(ghost.n_fail) + 1)",
            # 1 = ProtocolError, 2 = InvalidUriError: violations by the peer
            "implies(ghost.raised == 1 or ghost.raised == 2, ghost.fail_code == 1002)",
            "implies(ghost.raised > 2, ghost.fail_code == 1011)"],
        loops={"iter:self._serializer.unserialize(payload, isBinary)": {"index": "_i", "invariant": [
            "ghost.raised == 0 and ghost.n_fail == old(ghost.n_fail) and ghost.decoded",
            "ghost.n_onmessage == old(ghost.n_onmessage) + _i",
            "ghost.delivered == old(ghost.delivered) + bytes(ghost.unser)[0:_i]"],
            "modifies": ["ghost.delivered", "ghost.n_onmessage", "ghost.raised"],
            "hints": ["seq_snoc(ghost.unser, _i)", "seq_snoc(ghost.unser, _i - 1)"]}},
        hints=["seq_snoc(ghost.unser, ghost.n_onmessage - old(ghost.n_onmessage) - 1)"],
        raises={"CancelledError": "True"},      # asyncio cancellation (a BaseException) propagates by design
        split_exits=True, inline_calls=[WWS + ":WampWebSocketProtocol._bailout"], **common)
    # ---- onClose: the session is told exactly once that the transport is gone, then detached
    reg.contract(
        WWS + ":WampWebSocketProtocol.onClose",
        params={"self": "obj:WampWs", "wasClean": "bool", "code": "opt:int", "reason": "opt:str"},
        modifies=["self._session", "self._onclose_reason", "ghost.n_onclose"],
        ensures=["self._session is None",
                 "implies(old(self._session) is not None, ghost.n_onclose == old(ghost.n_onclose) + 1)",
                 "implies(old(self._session) is None, ghost.n_onclose == old(ghost.n_onclose))"], **common)
    # ---- onOpen: session created and attached; a failing factory / onOpen fails the connection with 1011
    reg.contract(
        WWS + ":WampWebSocketProtocol.onOpen", params={"self": "obj:WampWs"},
        modifies=["self._session", "WsSess._transport", "ghost.n_attach", "ghost.n_fail", "ghost.fail_code"],
        ensures=["ghost.n_attach <= old(ghost.n_attach) + 1",
                 "(ghost.n_fail == old(ghost.n_fail)) or (ghost.n_fail == old(ghost.n_fail) + 1 and ghost.fail_code == 1011)",
                 "ghost.n_attach == old(ghost.n_attach) + 1 or ghost.n_fail == old(ghost.n_fail) + 1"],
        inline_calls=[WWS + ":WampWebSocketProtocol._bailout"], **common)
    # ---- close / abort (ITransport): TransportLost exactly without a session
    reg.contract(
        WWS + ":WampWebSocketProtocol.close", params={"self": "obj:WampWs"}, modifies=["ghost.n_sendclose"],
        ensures=["old(self._session) is not None and ghost.n_sendclose == old(ghost.n_sendclose) + 1"],
        raises={"TransportLost": "self._session is None"}, **common)
    reg.contract(
        WWS + ":WampWebSocketProtocol.abort", params={"self": "obj:WampWs"}, modifies=["ghost.n_fail", "ghost.fail_code"],
        ensures=["old(self._session) is not None and ghost.n_fail == old(ghost.n_fail) + 1 and ghost.fail_code == 1001"],
        raises={"TransportLost": "self._session is None"},
        inline_calls=[WWS + ":WampWebSocketProtocol._bailout"], **common)

    # ---- subprotocol negotiation.  parseSubprotocolIdentifier is an assumed pure function here (its result is named by
    #      the uninterpreted sp_ok / sp_ver / sp_ser); it is checked separately by a bounded stand-in (extra_checks)
    SP = z3.Function("sp_ok", z3.StringSort(), z3.BoolSort()), z3.Function("sp_ver", z3.StringSort(), z3.IntSort()), \
        z3.Function("sp_ser", z3.StringSort(), z3.StringSort())
    reg.native_spec("sp_ok", lambda ex, state, s_: VBool(SP[0](s_.t)))
    reg.native_spec("sp_ver", lambda ex, state, s_: VInt(SP[1](s_.t)))
    reg.native_spec("sp_ser", lambda ex, state, s_: VStr(SP[2](s_.t)))
    reg.contract(
        WWS + ":parseSubprotocolIdentifier", params={"subprotocol": "str"}, returns="tuple:opt:int,opt:str",
        ensures=["(result[0] is None) == (not sp_ok(subprotocol)) and (result[1] is None) == (not sp_ok(subprotocol))",
                 "implies(sp_ok(subprotocol), result[0] == sp_ver(subprotocol) and result[1] == sp_ser(subprotocol))"],
        verify=False, **common)
    reg.shapes["SerRec"].fields.update({"SERIALIZER_ID": "str"})
    reg.shape("ConnReq", cls="autobahn.websocket.types:ConnectionRequest", fields={"protocols": "list:str"})
    reg.shape("ConnResp", cls="autobahn.websocket.types:ConnectionResponse", fields={"protocol": "opt:str"})
    reg.shapes["WsFactory"].fields.update({"protocols": "list:str"})
    WSF = dict(reg.shapes["WampWs"].fields, STRICT_PROTOCOL_NEGOTIATION="bool")
    reg.shape("WampWsServer", cls=WWS + ":WampWebSocketServerProtocol", fields=WSF, methods=reg.shapes["WampWs"].methods)
    reg.shape("WampWsClient", cls=WWS + ":WampWebSocketClientProtocol", fields=WSF, methods=reg.shapes["WampWs"].methods)
    ACC = "(sp_ok(%s) and sp_ver(%s) == 2 and sp_ser(%s) in self.factory._serializers)"
    PR = "request.protocols"
    KEYED = ("forall_s in self.factory._serializers", )
    reg.contract(
        WWS + ":WampWebSocketServerProtocol.onConnect", params={"self": "obj:WampWsServer", "request": "obj:ConnReq"},
        returns="any",
        requires=["implies(not self.STRICT_PROTOCOL_NEGOTIATION, 'json' in self.factory._serializers)"],
        modifies=["self._serializer", "SerRec.*"],
        ensures=[
            # the selected subprotocol is the first one in the client's order of preference that the server speaks ...
            "implies(result[0] is not None, exists(k, 0, len(%s), result[0] == %s[k] and %s and "
            "forall(j, 0, k, not %s)))" % (PR, PR, ACC % ((PR + "[k]",) * 3), ACC % ((PR + "[j]",) * 3)),
            # ... and this side then uses exactly that serializer
            "implies(result[0] is not None, self._serializer is not None and self._serializer.SERIALIZER_ID == "
            "self.factory._serializers[sp_ser(result[0])].SERIALIZER_ID)",
            # nothing selected only when nothing is shared (lenient mode: wamp.2.json assumed, nothing announced)
            "implies(result[0] is None, not self.STRICT_PROTOCOL_NEGOTIATION and "
            "forall(j, 0, len(%s), not %s))" % (PR, ACC % ((PR + "[j]",) * 3))],
        raises={"ConnectionDeny": "self.STRICT_PROTOCOL_NEGOTIATION and forall(j, 0, len(%s), not %s)"
                                  % (PR, ACC % ((PR + "[j]",) * 3))},
        loops={"target:subprotocol": {"index": "_i", "invariant": [
            "forall(j, 0, _i, not %s)" % (ACC % ((PR + "[j]",) * 3))],
            "modifies": [], "pure_calls": True}},
        **common)
    # ---- client: only a subprotocol it asked for is accepted; the serializer is the one that subprotocol names
    FP = "self.factory.protocols"
    reg.contract(
        WWS + ":WampWebSocketClientProtocol.onConnect", params={"self": "obj:WampWsClient", "response": "obj:ConnResp"},
        returns="none",
        requires=["self.STRICT_PROTOCOL_NEGOTIATION",
                  # factory invariant (WampWebSocketFactory.__init__): every offered subprotocol is wamp.2.<id> of a
                  # configured serializer
                  # (stated for the one element that matters: the subprotocol named in the response)
                  "implies(response.protocol is not None and response.protocol in %s, %s)"
                  % (FP, ACC % (("response.protocol",) * 3))],
        modifies=["self._serializer", "SerRec.*"],
        ensures=["response.protocol is not None and response.protocol in %s" % FP,
                 "self._serializer is not None and self._serializer.SERIALIZER_ID == "
                 "self.factory._serializers[sp_ser(response.protocol)].SERIALIZER_ID"],
        raises={"Exception": "response.protocol is None or response.protocol not in %s" % FP}, **common)


def _shift4(S, p):
    T = z3.Extract(S, p, z3.Length(S) - p)
    return z3.And(*[z3.Implies(z3.And(0 <= p, p + i < z3.Length(S)), T[i] == S[p + i]) for i in range(4)])


def lem_seq_snoc(ex, state, lst, k):
    """instance of the sequence lemma  0 <= k < len(s)  ==>  s[0:k] + [s[k]] == s[0:k+1]  for a list value (any other
    kind of value: no statement); proved stand-alone in extra_checks"""
    res = []
    k = ex.num(k)
    for g, a in alts_of(lst):
        if isinstance(a, VRef) and ex.obj(state, a).kind == "list" and ex.obj(state, a).seq is not None:
            t = ex.obj(state, a).seq
            res.append(z3.Implies(z3.And(g, 0 <= k, k < z3.Length(t)),
                                  z3.Concat(z3.Extract(t, 0, k), z3.Unit(t[k])) == z3.Extract(t, 0, k + 1)))
    return VBool(z3.And(*res) if res else z3.BoolVal(True))


_PARSE_HARNESS = r"""
import itertools, json, re
from autobahn.wamp.websocket import parseSubprotocolIdentifier as parse
def ref(s):
    # wamp.<version>[.<serializer id with any further dots>]; the version is whatever int() accepts
    m = re.fullmatch(r"wamp\.([^.]*)(?:\.(.*))?", s, re.S)
    if not m:
        return (None, None)
    try:
        v = int(m.group(1))
    except ValueError:
        return (None, None)
    return (v, m.group(2) or "")
cases = set()
for pre in ("wamp", "wam", "wampx", "", "WAMP", "xwamp"):
    for s1 in (".", ""):
        for ver in ("2", "1", "02", "+2", " 2", "2x", "", "-2", "22", "2_0", "\u0662"):
            for s2 in (".", ""):
                for ser in ("json", "json.batched", "", "a.b.c", "msgpack", "."):
                    cases.add(pre + s1 + ver + s2 + ser)
for n in range(0, BOUND + 1):
    for t in itertools.product("wamp.2", repeat=n):
        cases.add("".join(t))
bad = [c for c in sorted(cases) if parse(c) != ref(c)]
print(json.dumps({"cases": len(cases), "bad": bad[:5]}))
"""


def _bounded_parse(tier):
    import time
    from pyvc import replaylib as R
    bound = 5 if tier == "quick" else 7
    t0 = time.time()
    out = R.run_py(_PARSE_HARNESS.replace("BOUND", str(bound)), timeout=600)
    ok = isinstance(out, dict) and out.get("bad") == []
    return {"name": "C13/bounded/parseSubprotocolIdentifier", "kind": "bounded", "bounded": True,
            "status": "proved" if ok else ("refuted" if isinstance(out, dict) and out.get("bad") else "unknown"),
            "backend": "enumeration (bounded)", "time": round(time.time() - t0, 2),
            "bound": "all strings over {w,a,m,p,.,2} up to length %d plus a token grid of prefixes/versions/serializers" % bound,
            "cases": out.get("cases") if isinstance(out, dict) else None, "detail": json_dumps(out), "info": {}}


def json_dumps(x):
    import json
    try:
        return json.dumps(x)[:600]
    except Exception:
        return repr(x)[:600]


def extra_checks(tier, seed):
    from pyvc.spec_tools import solve
    t = z3.Const("ls", z3.SeqSort(z3.IntSort()))
    k = z3.Int("lk")
    return [solve("C13/lemma/seq-snoc", [0 <= k, k < z3.Length(t)],
                  z3.Concat(z3.Extract(t, 0, k), z3.Unit(t[k])) == z3.Extract(t, 0, k + 1), 20000),
            solve("C13/lemma/seq-shift4", [], _shift4(t, k), 20000),
            _bounded_parse(tier)] + ([__import__("pyvc.replaylib", fromlist=["x"]).native_crosscheck(
                "C13/bounded/subprotocol-negotiation", _NEGOTIATION_HARNESS,
                "14 offers x strict / lenient on the server, 6 answers on the client, against a reference written from the "
                "property")] if tier == "thorough" else [])


# ------------------------------------------------------------------------------------------ replay on the real code
_NEGOTIATION_HARNESS = r'''
import json
import txaio; txaio.use_asyncio()
from autobahn.wamp.websocket import WampWebSocketServerProtocol, WampWebSocketClientProtocol
from autobahn.websocket.types import ConnectionDeny

class Ser:
    def __init__(self, sid): self.SERIALIZER_ID = sid
class Fac:
    def __init__(self, ids):
        self._serializers = {i: Ser(i) for i in ids}
        self.protocols = ["wamp.2.%s" % i for i in ids]
class Req:
    def __init__(self, protocols): self.protocols = protocols
class Resp:
    def __init__(self, protocol): self.protocol = protocol

def reference(protocols, ids):
    """first offered subprotocol, in the client's order, of the form wamp.2.<known serializer id>"""
    for p in protocols:
        parts = p.split(".")
        if len(parts) >= 3 and parts[0] == "wamp" and parts[1] == "2" and ".".join(parts[2:]) in ids:
            return p, ".".join(parts[2:])
    return None, None

bad = []
IDS = ["json", "msgpack"]
OFFERS = [["wamp.2.json"], ["wamp.2.msgpack", "wamp.2.json"], ["wamp.2.json", "wamp.2.msgpack"], ["wamp.2.cbor", "wamp.2.msgpack"],
          ["wamp.3.json"], ["wamp.3.json", "wamp.2.msgpack"], ["wamp.1.json", "wamp.2.json"], ["wamp.2.cbor"], [], ["chat"],
          ["chat", "wamp.2.json"], ["wamp.2.msgpack", "wamp.3.json"], ["wamp.10.json"], ["wamp.2.json", "wamp.2.json"]]
for strict in (True, False):
    for offer in OFFERS:
        p = WampWebSocketServerProtocol(); p.factory = Fac(IDS); p.STRICT_PROTOCOL_NEGOTIATION = strict; p._serializer = None
        want, want_ser = reference(offer, IDS)
        try:
            got = p.onConnect(Req(list(offer)))[0]
        except ConnectionDeny:
            if want is not None or not strict:
                bad.append({"side": "server", "offer": offer, "strict": strict, "problem": "denied, expected %r" % (want,)})
            continue
        except Exception as e:
            bad.append({"side": "server", "offer": offer, "strict": strict, "problem": "escaped %s" % type(e).__name__}); continue
        if got != want:
            bad.append({"side": "server", "offer": offer, "strict": strict, "problem": "selected %r, expected %r" % (got, want)})
        elif p._serializer is None or p._serializer.SERIALIZER_ID != (want_ser or "json"):
            bad.append({"side": "server", "offer": offer, "strict": strict,
                        "problem": "serializer %r for subprotocol %r" % (getattr(p._serializer, "SERIALIZER_ID", None), got)})
for answer in ["wamp.2.json", "wamp.2.msgpack", "wamp.2.cbor", "wamp.3.json", None, "chat"]:
    c = WampWebSocketClientProtocol(); c.factory = Fac(IDS); c._serializer = None
    ok = answer in c.factory.protocols
    try:
        c.onConnect(Resp(answer))
    except Exception as e:
        if ok:
            bad.append({"side": "client", "answer": answer, "problem": "rejected a requested subprotocol (%s)" % type(e).__name__})
        continue
    if not ok:
        bad.append({"side": "client", "answer": answer, "problem": "accepted a subprotocol that was not requested"})
    elif c._serializer.SERIALIZER_ID != answer.split(".")[2]:
        bad.append({"side": "client", "answer": answer, "problem": "serializer %r" % c._serializer.SERIALIZER_ID})
print(json.dumps({"bad": bad}))
'''


def replay(o):
    """only the WebSocket subprotocol negotiation has a harness: offers in both orders, unknown versions / serializers,
    strict and lenient mode, against a reference written from the property (finds real failing inputs; proves nothing)"""
    from pyvc import replaylib as R
    unit = o.get("unit") or o.get("name", "")
    if "onConnect" not in unit or "WampWebSocket" not in unit:
        return {"reproduced": False, "detail": "no replay harness for this unit"}
    out = R.run_py(_NEGOTIATION_HARNESS, timeout=60)
    side = "server" if "Server" in unit else "client"
    hits = [b for b in (out.get("bad") or []) if b.get("side") == side] if isinstance(out, dict) else None
    return {"reproduced": bool(hits), "cases": (hits or [])[:3], "observed": None if hits else out,
            "detail": "subprotocol offers / answers (order, unknown version, unknown serializer, strict and lenient) on the real "
                      "WampWebSocket protocol classes against a reference written from the property"}
